#!/bin/bash
# tools/mutation_campaign.sh <seed> <per_file> [slots]
# Small mutations of /repo's sources (tools/mutate.py), each built in a scratch worktree and run against the
# quick checks that look at the mutated file. One line per mutant in mutation/<seed>.result:
#   <id> <file>:<line> <old> -> <new> : DETECTED by <check> | SURVIVED | NOBUILD
# Survivors are then run against the repository's own tests (tools/baseline_check.py): a survivor that the
# repository's tests kill is of no interest; one that passes them is listed in mutation/<seed>.survivors for
# a person to look at (an equivalent mutant, a change outside every property, or a gap).
set -u
ROOT="$(cd "$(dirname "$0")/.." && pwd)"; SEED="${1:-1}"; PER="${2:-2}"; N="${3:-4}"
OUT="$ROOT/mutation"; mkdir -p "$OUT" /tmp/wt/mutants
python3 "$ROOT/tools/mutate.py" list "$SEED" "$PER" > "/tmp/wt/mutants/list_$SEED.jsonl"
: > "$OUT/$SEED.result"
worker() {
  k=$1; WT=/tmp/wt/mm$k
  [ -d "$WT" ] || git -C /repo worktree add -q "$WT" HEAD
  awk -v k="$k" -v n="$N" 'NR % n == k' "/tmp/wt/mutants/list_$SEED.jsonl" | while IFS= read -r m; do
    id=$(echo "$m" | python3 -c "import json,sys; print(json.load(sys.stdin)['id'])")
    desc=$(echo "$m" | python3 -c "import json,sys; p=json.load(sys.stdin); print('%s:%d %r -> %r' % (p['file'], p['line'], p['old'].strip()[:60], p['new']))")
    checks=$(echo "$m" | python3 -c "import json,sys; print(' '.join(json.load(sys.stdin)['checks']))")
    git -C "$WT" checkout -q --detach "$(git -C /repo rev-parse HEAD)" && git -C "$WT" checkout -q -- .
    python3 "$ROOT/tools/mutate.py" apply "$WT" "$m" || { echo "$id $desc : SKIPPED (source moved)" >> "$OUT/$SEED.result"; continue; }
    git -C "$WT" diff > "/tmp/wt/mutants/$id.diff"; git -C "$WT" checkout -q -- .
    res=$(PATCH_FILE="/tmp/wt/mutants/$id.diff" DSMC_DUCK= SLOT=m$k "$ROOT/seeded/run_checks_isolated.sh" "$id" $checks 2>&1)
    if echo "$res" | grep -q "build failed"; then verdict="NOBUILD"
    else
      by=$(echo "$res" | awk -v id="$id" '$1==id && $3=="exit=1" {print $2} $1==id && $3=="exit=2" {print $2 "(machinery-error)"}' | tr '\n' ' ')
      if [ -n "$by" ]; then verdict="DETECTED by $by"; else verdict="SURVIVED"; fi
    fi
    echo "$id $desc : $verdict" >> "$OUT/$SEED.result"
  done
}
for k in $(seq 0 $((N-1))); do worker $k & done; wait
# survivors against the repository's own tests
: > "$OUT/$SEED.survivors"
grep ": SURVIVED" "$OUT/$SEED.result" | while read -r id rest; do
  WT=/tmp/wt/mm0
  git -C "$WT" checkout -q -- . && git -C "$WT" apply "/tmp/wt/mutants/$id.diff" || continue
  if python3 "$ROOT/tools/baseline_check.py" "$WT" > "/tmp/wt/mutants/$id.base" 2>&1; then echo "$id $rest [passes the repository's tests]" >> "$OUT/$SEED.survivors"; else echo "$id $rest [killed by the repository's tests]" >> "$OUT/$SEED.survivors"; fi
  git -C "$WT" checkout -q -- .
done
for k in $(seq 0 $((N-1))); do git -C /repo worktree remove --force /tmp/wt/mm$k 2>/dev/null; rm -rf /tmp/wt/hmutm$k /tmp/wt/vmutm$k /tmp/wt/mutm$k; done; git -C /repo worktree prune
echo "mutants: $(wc -l < "$OUT/$SEED.result")  detected: $(grep -c DETECTED "$OUT/$SEED.result")  survived: $(grep -c SURVIVED "$OUT/$SEED.result")  no build: $(grep -c NOBUILD "$OUT/$SEED.result")"
