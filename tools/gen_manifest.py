#!/usr/bin/env python3
"""Writes /verif/MANIFEST.json from the table below (single source of truth for the interface)."""
import json, os
ROOT = os.path.dirname(os.path.dirname(os.path.abspath(__file__)))

SUFFIX = " The enumerated spaces were widened over nine rounds of seeded changes (DESIGN.md section 13); the bounds in force are the ones written into the evidence file by the run itself (its 'rule' and 'bounds' fields), which also list the fixed large-size cases (scale family, DESIGN.md section 11) that extend the bounds along the size axis only."

CHECKS = {
 "C01": dict(engine="enum", technique="bounded-exhaustive enumeration of rendered instructions against the documented-syntax renderer (round-trip oracle)",
   text="Every instruction shape x rendering style x argument string up to the stated length over a 15-character alphabet holding one representative of every character class the scanner distinguishes is rendered with the documented syntax and parsed by the real parser; the result must be exactly the instruction. Exhaustive within the bounds, so any scanner-state interaction with a witness of <= 5 characters / 3 arguments is found; that is the right level because the scanner is a small finite transducer and its defects have tiny witnesses.",
   note="Trusted: the renderer in harness/src/render.rs as the statement of the documented syntax; characters outside the alphabet are assumed to behave like 'a'/'e-acute'.", ref="5/C01"),
 "C08": dict(engine="enum", technique="bounded-exhaustive enumeration of texts with line-locality and planted-error oracles",
   text="Every text up to length 6 (quick) / 8 (thorough) over the syntax alphabet, every short token sequence and every placement of one or two malformed lines among well-formed ones is parsed by the real parser; totality, one-instruction-per-line, line numbering, Empty for blank/comment lines, line-locality and the error kind/line of planted defects are checked on every one.",
   note="Trusted: Rust's catch_unwind for panic detection; the error kind expected for a malformed line is pinned by construction only in the planted-error phase, elsewhere it is differential (line alone vs. line in context).", ref="5/C08"),
 "C02": dict(engine="enum", technique="bounded-exhaustive enumeration of argument templates x variable environments against a one-pass reference substitution",
   text="Every template of up to three pieces (literal, ${name}, undefined, dotted name, escaped \\${name}) and every whole-argument %{name}, in three argument positions, is bound by the real runner under every value of the substituted variable up to length 2 (quick) / 3 (thorough) over a 12-character alphabet plus values that look like ${x} / %{x}; the arguments a capture command receives must equal the reference substitution exactly (count and text). A second family goes through the parser as script text.",
   note="Trusted: the reference substitution (30 lines). Spread values containing '\"' or '#' are only checked for absence of panics because the repository's tests pin shell-like grouping there.", ref="5/C02"),
 "C06": dict(engine="enum", technique="exhaustive enumeration of all sentences of the condition grammar up to a token bound against a recursive-descent reference evaluator",
   text="All sentences of the condition grammar with up to 9 (quick) / 12 (thorough) tokens are evaluated by the real not / if / elseif / while commands and compared with a recursive-descent evaluator of the statement's grammar; the truthiness table is swept exhaustively over all case variants of false/no/true/yes and boundary spellings in six statement frames.",
   note="Trusted: the reference evaluator; marker commands registered by the harness to observe which branch ran.", ref="5/C06"),
 "C16": dict(engine="enum", technique="bounded-exhaustive enumeration of argument values against Rust's own string and number operations",
   text="Every text up to length 3 (quick) / 4 (thorough) over {a b SP e-acute emoji} with every needle up to length 2 and every index pair from -(len+2) to len+2 is run through the real string commands and compared with the plain Rust operation in byte units; substring must give the slice or the error result (never a panic or a wrong value); less_than/greater_than over a 16x16 pool, calc over exactly representable expressions, range over an integer grid.",
   note="Trusted: Rust's str methods as the meaning of 'the plain string operation'; an index equal to the text length is left open as the property allows.", ref="5/C16"),
 "C17": dict(engine="enum", technique="bounded-exhaustive enumeration of texts, integers, JSON documents and maps with round-trip oracles",
   text="Every text up to length 4/5 over an alphabet with multi-byte, 4-byte, NUL and LF characters goes through both byte/base64 round trips; every integer up to 2^16 / 2^20 and the neighbourhood of every power of two up to 2^64 through hex; every JSON document of depth 2 (quick) / 3 (thorough, covering subset) and width 2 through json_parse/json_encode --collection against the documented normalisation; every small map through the properties round trip.",
   note="Trusted: serde_json for reading the produced JSON; the harness reads byte arrays and maps directly from the handle table.", ref="5/C17"),
 "C03": dict(engine="tapemc", technique="stateless exploration of command-result sequences (deviation-bounded choice tape) against the abstract machine of the statement",
   text="Every program of up to 3 (quick) / 4 (thorough) lines over 12 line forms with a scripted command, under every on_error configuration, is executed by the real runner for every sequence of command results (16 result kinds per invocation) with at most 2 / 3 deviations from the default result within a horizon of 6 / 8 invocations; each execution is compared step by step with the abstract machine (invocation log with bound arguments and line, on_error arguments, final variables, success or failing line and source).",
   note="Trusted: the 120-line abstract machine. Failure messages are compared only through on_error's arguments; failures by line and source.", ref="5/C03"),
 "C04": dict(engine="tapemc", technique="stateless exploration of condition/array answers over all small well-nested block trees against a tree-walking interpreter",
   text="Every well-nested forest of if/elseif/else, while and for-in blocks with up to 2 (quick) / 3 (thorough, plus a 4-block subset) blocks and depth 3, with every keyword spelling (full product for single blocks, rotations above), is run on the real runner for every assignment of truth values and array lengths with bounded deviations; the emit trace with loop-variable values and the final variables must equal those of a tree-walking interpreter of the same AST.",
   note="Trusted: the tree-walking interpreter (flow.rs) and the harness commands emit/ans/lst. Loop variables after their loop are masked.", ref="5/C04"),
 "C05": dict(engine="tapemc", technique="stateless exploration of answers over generated programs with functions (returns planted at every position) against a tree-walking interpreter with call semantics",
   text="One- and two-function programs (plain and <scope>) whose bodies are block forests with a return planted at every position, called as statement, assignment, in condition position, nested, recursively and repeatedly, are executed for every answer sequence with bounded deviations and compared with the reference interpreter (arguments, return value, early return from any nesting, repeated calls start afresh, scoped isolation).",
   note="Trusted: the reference interpreter's call semantics; the two corners the property leaves open are masked in code next to a comment.", ref="5/C05"),
 "C11": dict(engine="seqmc", technique="explicit-state breadth-first search to a fixpoint over variable/scope-stack command histories with a map-and-stack reference model compared at every transition",
   text="All reachable (variables, scope stack) states over 3 names x 2 values with stack depth <= 2 (quick, 61k states, 3M transitions) / 3 and a 4-name variant (thorough) are enumerated; from each state every one of 62 operations is executed on the real Context and compared with the model: output, complete variable map, saved maps inside the scope stack, handle table.",
   note="Trusted: the model (BTreeMap + Vec<BTreeMap>); canonical state = the implementation's own variables and state map.", ref="5/C11"),
 "C12": dict(engine="seqmc", technique="explicit-state breadth-first search to a fixpoint over collection command histories with vector/map/set models and whole-handle-table comparison",
   text="All reachable handle tables with <= 2 live collections of length <= 2 are enumerated (quick: 11k states, 2.3M transitions); from each state every collection command is run with every live handle, a released / unknown / look-alike handle, boundary indexes and values, and compared with the model: output and the complete handle table (so a failing operation that changes anything is caught).",
   note="Trusted: the models; unordered listings are compared as multisets and sorted in place; flow-control tables of library scripts are abstracted from the state key (documented in the code and DESIGN).", ref="5/C12"),
 "C07": dict(engine="enum", technique="bounded-exhaustive enumeration of command invocations and short scripts in supervised worker processes (panic / abort / hang detection)",
   text="Every registered library command (minus the blocking and process-leaving ones the statement excludes) is invoked with every argument tuple of arity <= 2 (quick) / 3 (thorough) from an 18-value pool of awkward values (empty, multi-byte, negative, huge, handles of every kind, released handle, flags, line break, 'a=b'), plus two-step histories, every script of <= 3 / 4 lines over 24 awkward lines, and include cycles; each case runs in a worker process under a watchdog so that a panic, an abort or a hang is pinned to the case in flight.",
   note="Trusted: catch_unwind, the per-case watchdog (4 s) and the supervisor's restart logic. Allocation bombs are kept out of the pool on purpose.", ref="5/C07"),
 "C09": dict(engine="enum", technique="bounded-exhaustive enumeration of argument values through every wrapping position with a capture command (direct call as the oracle)",
   text="Every value up to length 2 (quick) / 4 (thorough) over a 14-character syntax alphabet (plus values that look like variable references) is passed, in first and second position, to a capture command invoked directly and through if / elseif / while / not / stored alias / passed alias / user-function predicate; what the command receives through the wrapper must equal what it receives directly.",
   note="Trusted: the capture command; failing cases are classified against a transcription of the former re-serialisation path so that a return of that defect and a new one are told apart.", ref="5/C09"),
 "C10": dict(engine="enum", technique="bounded-exhaustive enumeration of programs built from error sites against the error protocol model",
   text="Every sequence of up to 2 (quick) / 3 (thorough) error sites (8 contexts x 4 error kinds x 0-2 leading blank lines) under 4 exit_on_error schedules and 3 run modes (text, file, including file) is run; output variable, last-error message / line / source after every site, continuation to the last line, and the failure (message, line, source) under exit_on_error are compared with the protocol model.",
   note="Trusted: the protocol model and the line bookkeeping of the program builder.", ref="5/C10"),
 "C13": dict(engine="tapemc", technique="exhaustive placement of the halt-flag store at every command entry (controlled scheduler through command wrappers, second OS thread over a rendezvous channel)",
   text="For 30 hand-written programs (7 non-terminating) and the generated block programs under fixed answers, the flag is raised at every command entry of the unhalted run up to a horizon of 14 (quick) / 40 (thorough) entries, top level or nested, and before the run, by the running command and by a second thread; the halted run must return Ok, complete exactly the top-level instruction in flight, start no further one and return the variables of that boundary.",
   note="Trusted: the equivalence argument of DESIGN 5/C13 (the setter's only visible action is one SeqCst store; placements between the same two runner polls are equivalent).", ref="5/C13"),
 "C14": dict(engine="enum", technique="bounded-exhaustive enumeration of include structures and planted faults against the paste-in-place model",
   text="Every acyclic include structure over four files in nested directories (fan-out 2, directive first/middle/last, one / two / the same file twice, three path styles, two directions) is written to a scratch directory; parse_file must equal parse_text of the pasted text with per-instruction provenance (file and own line), both must run alike, and every planted fault (missing file at every edge, malformed line and runtime error at every file/line) must be reported with the right kind, file and line.",
   note="Trusted: the pasting function of the harness; provenance is compared through canonical paths.", ref="5/C14"),
 "C15": dict(engine="seqmc", technique="explicit-state search to a fixpoint over the Commands API plus exhaustive script-level operation sequences against a name/alias map model",
   text="All reachable registries over 3 names x alias sets of size <= 2 (1.7k states, fixpoint) with all 54 operations from every state are compared with the model (result, unchanged maps after refusal or lookup, every lookup, no dangling alias); every sequence of <= 3 (quick) / 4 (thorough) script-level operations is run as one script on the full library and its outputs and final tables compared with the same model.",
   note="Trusted: the map model (30 lines). unalias bookkeeping of the implementation is mirrored (assumption listed in evidence).", ref="5/C15"),
 "C18": dict(engine="seqmc", technique="explicit-state breadth-first search to a fixpoint over file-command histories on real scratch directories against a file-tree model",
   text="All reachable directory trees with <= 3 (quick) / 4 (thorough) entries over nested, spaced and non-ASCII paths are enumerated; from each tree every file command of the statement is run on a freshly materialised copy and output plus the complete resulting tree are compared with the model (so a failing operation that changes anything is caught).",
   note="Trusted: the tree model; the file system is assumed to have no state beyond the tree (no permissions, symlinks, timestamps).", ref="5/C18"),
 "C19": dict(engine="enum", technique="bounded-exhaustive enumeration of script-implemented command invocations with before/after comparison of variables and handle table",
   text="Every script-implemented library command (discovered at run time) is invoked with every argument tuple of arity <= 2 (quick) / 3 (thorough) from a 15-value pool in 5 contexts with pre-set caller variables (including look-alikes of the command's internal names); variables afterwards must equal variables before apart from the output variable and documented effects, pre-existing collections must be unchanged and the temporary argument array released.",
   note="Trusted: the discovery rule (help text contains the 'Show Source' block).", ref="5/C19"),
 "C20": dict(engine="enum", technique="differential enumeration: duck executable as a subprocess vs. the library run by the harness, over a script pool x invocation forms and the lint grid",
   text="43 scripts x {file, -e, --eval} and a 5x5x5 lint grid x {parsable, unparsable} x {-l, --lint}, plus --version/--help/-h: exit status, stdout and the 'Error:' line of the duck executable built from /repo are compared with the library's own verdict and output.",
   note="Trusted: the library linked into the harness is the reference (a defect shared by CLI and library is invisible here; the other properties cover the library).", ref="5/C20"),
}

NOT_YET = {
}

def main():
    props = [json.loads(l) for l in open(os.path.join(ROOT, "properties.jsonl"))]
    checks = []
    na = []
    for p in props:
        pid = p["id"]
        if pid in CHECKS:
            c = CHECKS[pid]
            checks.append({
                "property_id": pid,
                "quick_cmd": f"./check {pid} quick",
                "thorough_cmd": f"./check {pid} thorough",
                "evidence_file": f"/verif/evidence/{pid}.json",
                "replay_cmd_template": f"./check {pid} --replay {{path}}",
                "engine": c["engine"],
                "level_claimed": {"category": "model_checking", "text": c["text"] + SUFFIX, "design_ref": c["ref"]},
                "level_note": c["note"],
                "technique": c["technique"],
            })
        else:
            na.append({"property_id": pid, "reason": NOT_YET.get(pid, "check not built yet in this revision of /verif (planned in DESIGN.md section 5); nothing is claimed for it")})
    m = {
        "version": 1,
        "setup_cmd": "cd /verif/harness && cp /repo/Cargo.lock Cargo.lock && CARGO_NET_OFFLINE=true CARGO_TARGET_DIR=/verif/harness/target cargo build --release --offline && CARGO_NET_OFFLINE=true CARGO_TARGET_DIR=/verif/harness/target-cli cargo build --manifest-path /repo/Cargo.toml -p duckscript_cli --no-default-features --offline",
        "hooks": {
            "guard": "duckscript_verif",
            "enable": "no source hooks exist: the harness links /repo/duckscript and /repo/duckscript_sdk as path dependencies and uses only their public API",
            "baseline_off_cmd": "cd /repo && cargo test --workspace --no-fail-fast --offline",
            "source_commits": [],
            "add_only": True,
        },
        "engines": [
            {"name": "enum", "path": "harness/src/engine.rs", "serves_properties": [k for k, v in CHECKS.items() if v["engine"] == "enum"],
             "kind_free_text": "bounded-exhaustive enumeration of inputs, sharded over worker processes, each case run on the real code and compared with a reference model"},
            {"name": "tapemc", "path": "harness/src/tape.rs", "serves_properties": [k for k, v in CHECKS.items() if v["engine"] == "tapemc"],
             "kind_free_text": "stateless exploration of environment answers (choice tape, deviation bound) for generated programs against a reference interpreter"},
            {"name": "seqmc", "path": "harness/src/seqmc.rs", "serves_properties": [k for k, v in CHECKS.items() if v["engine"] == "seqmc"],
             "kind_free_text": "explicit-state breadth-first search over operation histories on the real Context with a reference model compared at every transition"},
        ],
        "checks": checks,
        "notes": "All checks rebuild the harness (and with it duckscript + duckscriptsdk) from /repo's working tree through path dependencies. Known findings: /verif/KNOWN_FINDINGS.txt.",
        "not_applicable": na,
    }
    json.dump(m, open(os.path.join(ROOT, "MANIFEST.json"), "w"), indent=1)
    print("wrote MANIFEST.json:", len(checks), "checks,", len(na), "not claimed")

main()
