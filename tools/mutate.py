#!/usr/bin/env python3
"""tools/mutate.py list [seed] [per_file]  -> JSON lines of small mutations of the non-test sources of /repo
   tools/mutate.py apply <worktree> '<json>' -> applies one of them to a worktree
One-token and one-statement changes (comparison, boolean operator, off-by-one, literal, deleted
clean-up statement) at places chosen by a seeded shuffle, a fixed number per file: material for
demonstrating detection, not a way of deciding a property."""
import json, os, random, re, sys

ROOT = "/repo"
# source directories and the quick checks that look at them
AREAS = [
    ("duckscript/src/parser.rs", ["C01", "C08", "C14"]),
    ("duckscript/src/expansion.rs", ["C02", "C09"]),
    ("duckscript/src/runner.rs", ["C03", "C10", "C13"]),
    ("duckscript/src/types/command.rs", ["C15"]),
    ("duckscript/src/preprocessor", ["C14", "C08"]),
    ("duckscript_sdk/src/types/command.rs", ["C19", "C04", "C12"]),
    ("duckscript_sdk/src/types/scope.rs", ["C19", "C11"]),
    ("duckscript_sdk/src/utils/condition.rs", ["C06", "C04"]),
    ("duckscript_sdk/src/utils/eval.rs", ["C09", "C05", "C10"]),
    ("duckscript_sdk/src/utils/scope.rs", ["C11", "C05"]),
    ("duckscript_sdk/src/utils/state.rs", ["C12", "C17", "C11"]),
    ("duckscript_sdk/src/utils/instruction_query.rs", ["C04", "C05"]),
    ("duckscript_sdk/src/sdk/std/flowcontrol/ifelse", ["C04", "C05", "C06"]),
    ("duckscript_sdk/src/sdk/std/flowcontrol/while_mod", ["C04", "C05", "C10"]),
    ("duckscript_sdk/src/sdk/std/flowcontrol/forin", ["C04", "C05", "C10"]),
    ("duckscript_sdk/src/sdk/std/flowcontrol/function", ["C05", "C09"]),
    ("duckscript_sdk/src/sdk/std/flowcontrol/end", ["C04"]),
    ("duckscript_sdk/src/sdk/std/flowcontrol/goto", ["C03", "C13"]),
    ("duckscript_sdk/src/sdk/std/scope", ["C11"]),
    ("duckscript_sdk/src/sdk/std/var", ["C11", "C19"]),
    ("duckscript_sdk/src/sdk/std/collections", ["C12", "C19", "C17"]),
    ("duckscript_sdk/src/sdk/std/string", ["C16", "C17"]),
    ("duckscript_sdk/src/sdk/std/math", ["C16"]),
    ("duckscript_sdk/src/sdk/std/json", ["C17", "C07"]),
    ("duckscript_sdk/src/sdk/std/fs", ["C18"]),
    ("duckscript_sdk/src/sdk/std/on_error", ["C10"]),
    ("duckscript_sdk/src/sdk/std/lib/alias", ["C09", "C15", "C07"]),
    ("duckscript_sdk/src/sdk/std/lib/command", ["C15"]),
    ("duckscript_sdk/src/sdk/std/not", ["C06"]),
    ("duckscript_sdk/src/sdk/std/release", ["C12"]),
    ("duckscript_sdk/src/sdk/std/eval", ["C07", "C09"]),
    ("duckscript_cli/src", ["C20"]),
]

OPS = [
    (r" == ", " != "), (r" != ", " == "), (r" < ", " <= "), (r" > ", " >= "), (r" <= ", " < "), (r" >= ", " > "),
    (r" && ", " || "), (r" \|\| ", " && "), (r" \+ 1\b", " + 0"), (r" - 1\b", " - 0"),
    (r"\btrue\b", "false"), (r"\bfalse\b", "true"),
    (r"\.first\(\)", ".last()"), (r"\.last\(\)", ".first()"),
    (r"\.is_some\(\)", ".is_none()"), (r"\.is_none\(\)", ".is_some()"),
    (r"\bstarts_with\(", "ends_with("),
]
DELETABLE = re.compile(r"^\s*[\w\.\(\)&\*]+\.(remove|clear|pop|push|insert|truncate|extend)\(.*\);\s*$")

def files():
    out = []
    for area, checks in AREAS:
        p = os.path.join(ROOT, area)
        if os.path.isfile(p):
            out.append((area, checks))
        elif os.path.isdir(p):
            for d, _, fs in os.walk(p):
                for f in sorted(fs):
                    if f.endswith(".rs") and not f.endswith("_test.rs") and "test" not in d.split(os.sep):
                        out.append((os.path.relpath(os.path.join(d, f), ROOT), checks))
    return out

def points(rel):
    pts = []
    in_test = False
    lines = open(os.path.join(ROOT, rel), encoding="utf-8").read().split("\n")
    for n, line in enumerate(lines, 1):
        s = line.strip()
        if s.startswith("//") or s.startswith("#[") or "include_str!" in line or s.startswith("use ") or s.startswith("pub(crate) fn name") :
            continue
        if "#[cfg(test)]" in line:
            in_test = True
        if in_test and s.startswith("mod "):
            in_test = False
            continue
        # skip text inside string literals roughly: mutate only outside quotes
        code = re.sub(r'"(?:[^"\\]|\\.)*"', lambda m: '"' + "\x00" * (len(m.group(0)) - 2) + '"', line)
        for pat, rep in OPS:
            for m in re.finditer(pat, code):
                pts.append({"file": rel, "line": n, "col": m.start(), "old": line[m.start():m.end()], "new": rep, "kind": "token"})
        if DELETABLE.match(line):
            pts.append({"file": rel, "line": n, "col": 0, "old": line, "new": "", "kind": "delete"})
    return pts

def main():
    if sys.argv[1] == "list":
        seed = int(sys.argv[2]) if len(sys.argv) > 2 else 1
        per_file = int(sys.argv[3]) if len(sys.argv) > 3 else 2
        rnd = random.Random(seed)
        k = 0
        for rel, checks in files():
            pts = points(rel)
            rnd.shuffle(pts)
            for p in pts[:per_file]:
                p["checks"] = checks
                p["id"] = "m%d_%04d" % (seed, k)
                k += 1
                print(json.dumps(p))
    elif sys.argv[1] == "apply":
        wt, p = sys.argv[2], json.loads(sys.argv[3])
        path = os.path.join(wt, p["file"])
        lines = open(path, encoding="utf-8").read().split("\n")
        line = lines[p["line"] - 1]
        if p["kind"] == "delete":
            assert line == p["old"], "source moved"
            lines[p["line"] - 1] = ""
        else:
            assert line[p["col"]:p["col"] + len(p["old"])] == p["old"], "source moved"
            lines[p["line"] - 1] = line[:p["col"]] + p["new"] + line[p["col"] + len(p["old"]):]
        open(path, "w", encoding="utf-8").write("\n".join(lines))

if __name__ == "__main__":
    main()
