#!/usr/bin/env python3
"""Runs the repository's test suite (guard off: there are no hooks) and checks that every test in
BASELINE.json's stable_pass list passes. Exit 0 iff all of them pass."""
import json, re, subprocess, sys
import os
REPO = sys.argv[1] if len(sys.argv) > 1 else '/repo'
base = json.load(open('/root/.vp/BASELINE.json'))
stable = set(base['stable_pass'])
p = subprocess.run(f'cd {REPO} && cargo test --workspace --no-fail-fast --offline 2>&1', shell=True, capture_output=True, text=True)
crate = None
passed = set(); failed = set()
for line in p.stdout.splitlines():
    m = re.search(r'Running .*\(target/debug/deps/([A-Za-z0-9_]+)-[0-9a-f]+\)', line)
    if m:
        crate = m.group(1)
        continue
    m = re.search(r'test (\S+)(?: - should panic)? \.\.\. .*?(ok|FAILED|ignored)\s*$', line)
    if m and crate:
        name = f'{crate}::{m.group(1)}'
        (passed if m.group(2) == 'ok' else failed).add(name)
missing = sorted(stable - passed)
# output of the tests themselves can garble a result line: re-run what is missing one by one
still = []
for n in missing[:40]:
    crate, _, name = n.partition('::')
    pkg = {'duckscript': 'duckscript', 'duckscriptsdk': 'duckscriptsdk', 'duck': 'duckscript_cli'}.get(crate, crate)
    r = subprocess.run(f'cd {REPO} && cargo test -p {pkg} --offline {name} -- --exact 2>&1', shell=True, capture_output=True, text=True)
    if re.search(r'test result: ok\. 1 passed', r.stdout):
        passed.add(n)
    else:
        still.append(n)
missing = still + missing[40:]
print(f'stable_pass={len(stable)} passed_now={len(passed)} failed_now={len(failed)} stable_missing={len(missing)}')
for n in missing[:20]:
    print('  MISSING', n)
sys.exit(1 if missing else 0)
