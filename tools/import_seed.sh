#!/bin/bash
# tools/import_seed.sh <ID> : copies patch, demonstration and notes of a finished seed agent into /verif/seeded/<ID>/
ID="$1"; SRC=/tmp/wt/$ID/seed; DST=/verif/seeded/$ID
mkdir -p "$DST"
cp "$SRC/patch.diff" "$DST/patch.diff"
[ -f "$SRC/NOTES.md" ] && cp "$SRC/NOTES.md" "$DST/NOTES.agent.md"
# demonstration: scripts, shell files, demo crate sources (no logs, no build output, no lock files)
( cd "$SRC" && find . -type f \( -name '*.ds' -o -name '*.sh' -o -name '*.rs' -o -name 'Cargo.toml' -o -name 'RUN.txt' \) ! -path './logs/*' ! -path '*/target/*' | while read f; do mkdir -p "$DST/demo/$(dirname "$f")"; cp "$f" "$DST/demo/$f"; done )
ls -R "$DST" | head -30
