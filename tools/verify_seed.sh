#!/bin/bash
# tools/verify_seed.sh <worktree> <demo command, run inside the worktree; must exit non-zero when the property is broken>
# Confirms in the scratch worktree: patch applies on the clean tree, repository suite keeps its stable passes with the
# patch, demonstration fails with the patch and passes without it.
set -u
WT="${1:?worktree}"; DEMO="${2:?demo command}"
cd "$WT" || exit 2
export CARGO_TARGET_DIR="$WT/target" CARGO_NET_OFFLINE=true
git checkout -q -- . || exit 2
git reset -q; git clean -fdq -e seed -e target -e ".verify*" -e duck_changed -e "*.log"
git apply --check seed/patch.diff || { echo "VERIFY: patch does not apply"; exit 1; }
git apply seed/patch.diff
echo "--- files changed: $(git diff --stat | tail -1)"
python3 /verif/tools/baseline_check.py "$WT" > "$WT/.verify_base.txt"; base=$?; tail -3 "$WT/.verify_base.txt"
cargo build -q -p duckscript_cli --offline 2>&1 | tail -3
bash -c "$DEMO" >"$WT/.verify_demo_with.txt" 2>&1; with=$?
git checkout -q -- .
git clean -fdq -e seed -e target -e ".verify*" -e duck_changed -e "*.log"
cargo build -q -p duckscript_cli --offline 2>&1 | tail -3
bash -c "$DEMO" >"$WT/.verify_demo_without.txt" 2>&1; without=$?
echo "VERIFY: baseline_exit=$base demo_with_patch_exit=$with demo_without_patch_exit=$without"
tail -2 "$WT/.verify_demo_with.txt" | cut -c1-200
if [ $base -eq 0 ] && [ $with -ne 0 ] && [ $without -eq 0 ]; then echo "VERIFY: CONFIRMED"; else echo "VERIFY: NOT CONFIRMED"; fi
