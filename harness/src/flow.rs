//! Structured programs for C04 / C05 / C13: AST, rendering with keyword spellings, the
//! tree-walking reference interpreter and the rig that runs the rendered script on the real
//! runner with harness commands `emit`, `ans`, `lst` drawing their answers from a choice tape.

use crate::tape::*;
use crate::util::*;
use duckscript::runner;
use duckscript::types::command::{CommandResult, Commands};
use duckscript::types::runtime::Context;
use std::cell::RefCell;
use std::collections::BTreeMap;
use std::rc::Rc;

#[derive(Clone, Debug, PartialEq, Eq, Hash)]
pub struct Cond {
    pub site: u32,
    /// 0: value `${c}`  1: `${c} and ${d}`  2: command `ans s`  3: negated command `not ans s`
    /// 4: `${c} or ${d} and ${e}`
    pub form: u8,
}

#[derive(Clone, Debug, PartialEq, Eq, Hash)]
pub enum Stmt {
    Emit(u32),
    If {
        conds: Vec<Cond>,
        bodies: Vec<Vec<Stmt>>,
        else_body: Option<Vec<Stmt>>,
    },
    While {
        cond: Cond,
        body: Vec<Stmt>,
    },
    For {
        site: u32,
        body: Vec<Stmt>,
    },
    /// `name = set value`
    Set(String, String),
    /// C05: `return` / `return v`
    Return(Option<String>),
    /// C05: call of function `f<idx>`; `out`: output variable; `args`
    Call {
        func: usize,
        out: Option<String>,
        args: Vec<String>,
        /// 0: statement / assignment, 1: condition position `if f a` ... `end` with an emit inside
        position: u8,
        id: u32,
    },
}

#[derive(Clone, Debug, PartialEq, Eq, Hash)]
pub struct Func {
    pub scoped: bool,
    pub body: Vec<Stmt>,
}

#[derive(Clone, Debug, PartialEq, Eq, Hash)]
pub struct Program {
    pub funcs: Vec<Func>,
    pub main: Vec<Stmt>,
}

#[derive(Clone, Copy, Debug, PartialEq, Eq, Hash)]
pub enum Kw {
    If,
    ElseIf,
    Else,
    EndIf,
    While,
    EndWhile,
    For,
    EndFor,
    Fn,
    EndFn,
    Return,
}

pub fn spellings(k: Kw) -> &'static [&'static str] {
    match k {
        Kw::If => &["if", "std::flowcontrol::If"],
        Kw::ElseIf => &["elseif", "elif", "std::flowcontrol::ElseIf"],
        Kw::Else => &["else", "std::flowcontrol::Else"],
        Kw::EndIf => &["end", "end_if", "endif", "fi", "std::flowcontrol::EndIf"],
        Kw::While => &["while", "std::flowcontrol::While"],
        Kw::EndWhile => &["end", "end_while", "endwhile", "std::flowcontrol::EndWhile"],
        Kw::For => &["for", "std::flowcontrol::ForIn"],
        Kw::EndFor => &["end", "end_for", "std::flowcontrol::EndForIn"],
        Kw::Fn => &["fn", "function", "std::flowcontrol::Function"],
        Kw::EndFn => &["end", "end_fn", "end_function", "std::flowcontrol::EndFunction"],
        Kw::Return => &["return", "std::flowcontrol::Return"],
    }
}

/// Chooses a spelling for every keyword occurrence.
pub enum Speller {
    /// occurrence i of a keyword gets spelling (rot + i) mod count
    Rot(usize, usize),
    /// explicit digit per occurrence (radices are recorded on the way)
    Digits(Vec<usize>, usize, Vec<usize>),
}

impl Speller {
    pub fn rot(r: usize) -> Speller {
        Speller::Rot(r, 0)
    }
    pub fn digits(d: Vec<usize>) -> Speller {
        Speller::Digits(d, 0, vec![])
    }
    fn pick(&mut self, k: Kw) -> &'static str {
        let sp = spellings(k);
        match self {
            Speller::Rot(r, n) => {
                let s = sp[(*r + *n) % sp.len()];
                *n += 1;
                s
            }
            Speller::Digits(d, pos, radices) => {
                let i = d.get(*pos).cloned().unwrap_or(0) % sp.len();
                *pos += 1;
                radices.push(sp.len());
                sp[i]
            }
        }
    }
    pub fn radices(&self) -> Vec<usize> {
        match self {
            Speller::Digits(_, _, r) => r.clone(),
            _ => vec![],
        }
    }
}

fn cond_pre(c: &Cond, out: &mut Vec<String>) {
    match c.form {
        0 => out.push(format!("c{} = ans {}", c.site, c.site)),
        1 => {
            out.push(format!("c{} = ans {}", c.site, c.site));
            out.push(format!("d{} = ans {}", c.site, c.site + 500));
        }
        4 => {
            out.push(format!("c{} = ans {}", c.site, c.site));
            out.push(format!("d{} = ans {}", c.site, c.site + 500));
            out.push(format!("e{} = ans {}", c.site, c.site + 1000));
        }
        _ => (),
    }
}

fn cond_text(c: &Cond) -> String {
    match c.form {
        0 => format!("${{c{}}}", c.site),
        1 => format!("${{c{}}} and ${{d{}}}", c.site, c.site),
        2 => format!("ans {}", c.site),
        // an `or` in front of an `and`: ( c or d ) and e
        4 => format!("${{c{}}} or ${{d{}}} and ${{e{}}}", c.site, c.site, c.site),
        _ => format!("not ans {} n", c.site),
    }
}

fn render_body(body: &[Stmt], loop_vars: &[String], sp: &mut Speller, out: &mut Vec<String>) {
    for s in body {
        match s {
            Stmt::Emit(id) => {
                let mut l = format!("emit {}", id);
                for v in loop_vars {
                    l.push_str(&format!(" ${{{}}}", v));
                }
                out.push(l);
            }
            Stmt::If { conds, bodies, else_body } => {
                // value-form conditions of the whole chain are computed in front of the block
                for c in conds {
                    cond_pre(c, out);
                }
                for (i, (c, b)) in conds.iter().zip(bodies.iter()).enumerate() {
                    let kw = if i == 0 { sp.pick(Kw::If) } else { sp.pick(Kw::ElseIf) };
                    out.push(format!("{} {}", kw, cond_text(c)));
                    render_body(b, loop_vars, sp, out);
                }
                if let Some(b) = else_body {
                    out.push(sp.pick(Kw::Else).to_string());
                    render_body(b, loop_vars, sp, out);
                }
                out.push(sp.pick(Kw::EndIf).to_string());
            }
            Stmt::While { cond, body } => {
                cond_pre(cond, out);
                out.push(format!("{} {}", sp.pick(Kw::While), cond_text(cond)));
                render_body(body, loop_vars, sp, out);
                cond_pre(cond, out); // re-evaluated at the end of every iteration
                out.push(sp.pick(Kw::EndWhile).to_string());
            }
            Stmt::For { site, body } => {
                out.push(format!("i{} = lst {}", site, site));
                out.push(format!("h{} = array %{{i{}}}", site, site));
                let var = format!("v{}", site);
                out.push(format!("{} {} in ${{h{}}}", sp.pick(Kw::For), var, site));
                let mut lv = loop_vars.to_vec();
                lv.push(var);
                render_body(body, &lv, sp, out);
                out.push(sp.pick(Kw::EndFor).to_string());
                out.push(format!("release ${{h{}}}", site));
            }
            Stmt::Set(n, v) => out.push(format!("{} = set {}", n, v)),
            Stmt::Return(v) => match v {
                Some(v) => out.push(format!("{} {}", sp.pick(Kw::Return), crate::render::render_arg(v, crate::render::needs_quotes(v, false, true)))),
                None => out.push(sp.pick(Kw::Return).to_string()),
            },
            Stmt::Call { func, out: o, args, position, id } => {
                let mut call = format!("f{}", func);
                for a in args {
                    call.push(' ');
                    call.push_str(&crate::render::render_arg(a, crate::render::needs_quotes(a, false, true)));
                }
                if *position == 1 {
                    out.push(format!("{} {}", sp.pick(Kw::If), call));
                    out.push(format!("emit {} T", id));
                    out.push(sp.pick(Kw::Else).to_string());
                    out.push(format!("emit {} F", id));
                    out.push(sp.pick(Kw::EndIf).to_string());
                } else {
                    match o {
                        Some(o) => out.push(format!("{} = {}", o, call)),
                        None => out.push(call),
                    }
                }
            }
        }
    }
}

pub fn render(p: &Program, sp: &mut Speller) -> String {
    let mut out = vec![];
    for (i, f) in p.funcs.iter().enumerate() {
        let kw = sp.pick(Kw::Fn);
        if f.scoped {
            out.push(format!("{} <scope> f{}", kw, i));
        } else {
            out.push(format!("{} f{}", kw, i));
        }
        render_body(&f.body, &["1".to_string(), "g".to_string()], sp, &mut out);
        out.push(sp.pick(Kw::EndFn).to_string());
    }
    render_body(&p.main, &[], sp, &mut out);
    out.join("\n")
}

// ---------------------------------------------------------------------------------------------
// reference interpreter
// ---------------------------------------------------------------------------------------------

#[derive(Clone, Debug, PartialEq, Eq)]
pub struct Trace {
    pub emits: Vec<Vec<String>>,
    pub vars: BTreeMap<String, String>,
    /// variables whose value the property leaves open (masked in the comparison)
    pub open: Vec<String>,
    pub budget_hit: bool,
}

pub const EMIT_BUDGET: usize = 80;

pub struct RefInterp<'a> {
    pub tape: &'a Tape,
    pub prog: &'a Program,
    pub emits: Vec<Vec<String>>,
    pub vars: BTreeMap<String, String>,
    pub open: Vec<String>,
    pub depth: usize,
    pub budget_hit: bool,
    /// > 0 while a function invoked in condition position is running
    pub in_cond_call: usize,
}

enum Flow {
    Next,
    Return(Option<String>),
    Stop,
}

impl<'a> RefInterp<'a> {
    pub fn run(prog: &'a Program, tape: &'a Tape) -> Trace {
        let mut r = RefInterp {
            tape,
            prog,
            emits: vec![],
            vars: BTreeMap::new(),
            open: vec![],
            depth: 0,
            budget_hit: false,
            in_cond_call: 0,
        };
        let _ = r.body(&prog.main, &[]);
        Trace {
            emits: r.emits,
            vars: r.vars,
            open: r.open,
            budget_hit: r.budget_hit,
        }
    }

    fn ans(&mut self, site: u32, negated_form: bool) -> bool {
        // choice 0 always means "condition false" so that default executions terminate
        let c = self.tape.choose(site, 2);
        let _ = negated_form;
        c == 1
    }

    fn eval(&mut self, c: &Cond) -> bool {
        match c.form {
            0 => self.vars.get(&format!("c{}", c.site)).map(|v| v == "true").unwrap_or(false),
            1 => {
                self.vars.get(&format!("c{}", c.site)).map(|v| v == "true").unwrap_or(false)
                    && self.vars.get(&format!("d{}", c.site)).map(|v| v == "true").unwrap_or(false)
            }
            2 => self.ans(c.site, false),
            4 => {
                let get = |r: &Self, k: &str| r.vars.get(&format!("{}{}", k, c.site)).map(|v| v == "true").unwrap_or(false);
                (get(self, "c") || get(self, "d")) && get(self, "e")
            }
            _ => self.ans(c.site, true),
        }
    }

    fn pre(&mut self, c: &Cond) {
        match c.form {
            0 => {
                let v = self.ans(c.site, false);
                self.vars.insert(format!("c{}", c.site), v.to_string());
            }
            1 => {
                let v = self.ans(c.site, false);
                self.vars.insert(format!("c{}", c.site), v.to_string());
                let w = self.ans(c.site + 500, false);
                self.vars.insert(format!("d{}", c.site), w.to_string());
            }
            4 => {
                let v = self.ans(c.site, false);
                self.vars.insert(format!("c{}", c.site), v.to_string());
                let w = self.ans(c.site + 500, false);
                self.vars.insert(format!("d{}", c.site), w.to_string());
                let x = self.ans(c.site + 1000, false);
                self.vars.insert(format!("e{}", c.site), x.to_string());
            }
            _ => (),
        }
    }

    fn body(&mut self, body: &[Stmt], loop_vars: &[String]) -> Flow {
        for s in body {
            match s {
                Stmt::Emit(id) => {
                    if self.emits.len() >= EMIT_BUDGET {
                        self.budget_hit = true;
                        return Flow::Stop;
                    }
                    let mut e = vec![id.to_string()];
                    for v in loop_vars {
                        e.push(self.vars.get(v).cloned().unwrap_or_default());
                    }
                    self.emits.push(e);
                }
                Stmt::If { conds, bodies, else_body } => {
                    for c in conds {
                        self.pre(c);
                    }
                    let mut taken = false;
                    for (c, b) in conds.iter().zip(bodies.iter()) {
                        if self.eval(c) {
                            taken = true;
                            match self.body(b, loop_vars) {
                                Flow::Next => (),
                                f => return f,
                            }
                            break;
                        }
                    }
                    if !taken {
                        if let Some(b) = else_body {
                            match self.body(b, loop_vars) {
                                Flow::Next => (),
                                f => return f,
                            }
                        }
                    }
                }
                Stmt::While { cond, body } => {
                    self.pre(cond);
                    while self.eval(cond) {
                        match self.body(body, loop_vars) {
                            Flow::Next => (),
                            f => return f,
                        }
                        self.pre(cond);
                    }
                }
                Stmt::For { site, body } => {
                    let n = self.tape.choose(*site, 3) as usize;
                    let items: Vec<String> = (0..n).map(|i| format!("e{}", i)).collect();
                    self.vars.insert(format!("i{}", site), items.join(" "));
                    // the handle variable holds a random name: masked
                    self.vars.insert(format!("h{}", site), "<handle>".into());
                    let var = format!("v{}", site);
                    let mut lv = loop_vars.to_vec();
                    lv.push(var.clone());
                    // what the loop variable holds after the loop is not fixed by the statement
                    if !self.open.contains(&var) {
                        self.open.push(var.clone());
                    }
                    for it in items {
                        self.vars.insert(var.clone(), it);
                        match self.body(body, &lv) {
                            Flow::Next => (),
                            f => return f,
                        }
                    }
                }
                Stmt::Set(n, v) => {
                    self.vars.insert(n.clone(), v.clone());
                }
                Stmt::Return(v) => {
                    if self.depth > 0 {
                        return Flow::Return(v.clone());
                    }
                    // `return` outside a function is a no-op
                }
                Stmt::Call { func, out, args, position, id } => {
                    if *position == 1 {
                        self.in_cond_call += 1;
                    }
                    let pre_existing = out.as_ref().map(|o| self.vars.contains_key(o)).unwrap_or(false);
                    let r = self.call(*func, args);
                    if *position == 1 {
                        self.in_cond_call -= 1;
                    }
                    let value = match r {
                        Ok(v) => v,
                        Err(()) => return Flow::Stop,
                    };
                    if *position == 1 {
                        if self.emits.len() >= EMIT_BUDGET {
                            self.budget_hit = true;
                            return Flow::Stop;
                        }
                        let truthy = crate::props::c06::ref_truthy(value.as_deref());
                        self.emits.push(vec![id.to_string(), if truthy { "T".into() } else { "F".into() }]);
                    } else if let Some(o) = out {
                        match value {
                            Some(v) => {
                                self.vars.insert(o.clone(), v);
                                self.open.retain(|x| x != o);
                            }
                            None => {
                                self.vars.remove(o);
                                // the two corners the property leaves open
                                let scoped = self.prog.funcs[*func].scoped;
                                if (scoped && pre_existing) || self.in_cond_call > 0 {
                                    if !self.open.contains(o) {
                                        self.open.push(o.clone());
                                    }
                                }
                            }
                        }
                    }
                }
            }
        }
        Flow::Next
    }

    fn call(&mut self, func: usize, args: &[String]) -> Result<Option<String>, ()> {
        if self.depth > 6 {
            self.budget_hit = true;
            return Err(());
        }
        let f = &self.prog.funcs[func];
        let saved = if f.scoped { Some(std::mem::take(&mut self.vars)) } else { None };
        for (i, a) in args.iter().enumerate() {
            self.vars.insert((i + 1).to_string(), a.clone());
        }
        self.depth += 1;
        let flow = self.body(&f.body, &["1".to_string(), "g".to_string()]);
        self.depth -= 1;
        let r = match flow {
            Flow::Next => Ok(None),
            Flow::Return(v) => Ok(v),
            Flow::Stop => Err(()),
        };
        if let Some(s) = saved {
            self.vars = s;
        }
        r
    }
}

// ---------------------------------------------------------------------------------------------
// the implementation side
// ---------------------------------------------------------------------------------------------

pub struct FlowRig {
    commands: RefCell<Option<Commands>>,
    pub emits: Rc<RefCell<Vec<Vec<String>>>>,
    pub tape: Rc<RefCell<Tape>>,
    pub budget_hit: Rc<RefCell<bool>>,
}

impl FlowRig {
    pub fn new() -> FlowRig {
        FlowRig::with_cells(
            sdk_context().commands,
            Rc::new(RefCell::new(vec![])),
            Rc::new(RefCell::new(Tape::default())),
            Rc::new(RefCell::new(false)),
        )
    }

    /// Runs the script; Ok((trace, queried keys)) or Err(message) when the run itself failed.
    pub fn run(&self, text: &str, decided: &[(Key, u16)], nfuncs: usize) -> (Result<Trace, String>, Vec<(Key, u16)>) {
        *self.tape.borrow_mut() = Tape::with(decided);
        self.emits.borrow_mut().clear();
        *self.budget_hit.borrow_mut() = false;
        let commands = self.commands.borrow_mut().take().unwrap();
        let ctx = Context {
            variables: Default::default(),
            state: Default::default(),
            commands,
        };
        let (env, _o, _e, _h) = quiet_env();
        let r = runner::run_script(text, ctx, Some(env));
        let q = self.tape.borrow().queried();
        match r {
            Ok(mut c) => {
                for i in 0..nfuncs {
                    c.commands.remove(&format!("f{}", i));
                }
                *self.commands.borrow_mut() = Some(c.commands);
                let mut vars = sorted_vars(&c.variables);
                for (_, v) in vars.iter_mut() {
                    if is_handle_text(v) {
                        *v = "<handle>".into();
                    }
                }
                (
                    Ok(Trace {
                        emits: self.emits.borrow().clone(),
                        vars,
                        open: vec![],
                        budget_hit: *self.budget_hit.borrow(),
                    }),
                    q,
                )
            }
            Err(e) => {
                // the context is gone with the error: rebuild the command table on the same cells
                let again = FlowRig::with_cells(sdk_context().commands, self.emits.clone(), self.tape.clone(), self.budget_hit.clone());
                *self.commands.borrow_mut() = again.commands.borrow_mut().take();
                (Err(e.to_string()), q)
            }
        }
    }

    fn with_cells(
        mut commands: Commands,
        emits: Rc<RefCell<Vec<Vec<String>>>>,
        tape: Rc<RefCell<Tape>>,
        budget_hit: Rc<RefCell<bool>>,
    ) -> FlowRig {
        register_harness_commands(&mut commands, emits.clone(), tape.clone(), budget_hit.clone());
        FlowRig {
            commands: RefCell::new(Some(commands)),
            emits,
            tape,
            budget_hit,
        }
    }
}

/// Registers `emit` (trace), `ans` (truth value from the tape) and `lst` (list text from the tape).
pub fn register_harness_commands(
    commands: &mut Commands,
    emits: Rc<RefCell<Vec<Vec<String>>>>,
    tape: Rc<RefCell<Tape>>,
    budget_hit: Rc<RefCell<bool>>,
) {
    {
        let (e, b) = (emits.clone(), budget_hit.clone());
        commands
            .set(fn_command("emit", move |c| {
                if e.borrow().len() >= EMIT_BUDGET {
                    *b.borrow_mut() = true;
                    // ends the run in the same place as the reference interpreter
                    return CommandResult::Exit(None);
                }
                e.borrow_mut().push(c.arguments.clone());
                CommandResult::Continue(None)
            }))
            .unwrap();
    }
    {
        let t = tape.clone();
        commands
            .set(fn_command("ans", move |c| {
                let site: u32 = c.arguments.first().and_then(|s| s.parse().ok()).unwrap_or(9999);
                let negated = c.arguments.get(1).map(|s| s == "n").unwrap_or(false);
                let choice = t.borrow().choose(site, 2);
                // choice 1 = "the condition holds"; for the negated form the command says the opposite
                let truth = (choice == 1) != negated;
                CommandResult::Continue(Some(truth.to_string()))
            }))
            .unwrap();
    }
    {
        let t = tape.clone();
        commands
            .set(fn_command("lst", move |c| {
                let site: u32 = c.arguments.first().and_then(|s| s.parse().ok()).unwrap_or(9999);
                let n = t.borrow().choose(site, 3) as usize;
                let items: Vec<String> = (0..n).map(|i| format!("e{}", i)).collect();
                CommandResult::Continue(Some(items.join(" ")))
            }))
            .unwrap();
    }
}

/// Compares an implementation trace with the reference; None when they agree.
pub fn compare(got: &Trace, exp: &Trace) -> Option<(&'static str, String)> {
    if got.emits != exp.emits {
        let k = got.emits.iter().zip(exp.emits.iter()).take_while(|(a, b)| a == b).count();
        return Some((
            "trace-differs",
            format!(
                "emit #{}: implementation {:?}, tree walker {:?} (lengths {} / {})",
                k,
                got.emits.get(k),
                exp.emits.get(k),
                got.emits.len(),
                exp.emits.len()
            ),
        ));
    }
    if exp.budget_hit || got.budget_hit {
        return None; // cut by the step budget: final variables are not compared
    }
    let mut a = got.vars.clone();
    let mut b = exp.vars.clone();
    for o in &exp.open {
        a.remove(o);
        b.remove(o);
    }
    if a != b {
        return Some(("final-variables-differ", format!("implementation {:?}, tree walker {:?}", a, b)));
    }
    None
}
