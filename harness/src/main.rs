#![allow(dead_code)]
//! dsmc — bounded exhaustive exploration of duckscript against reference models.
//!   dsmc run <ID> --tier quick|thorough      supervisor: shards, verdict, evidence
//!   dsmc worker <ID> --tier T --shard i/n --from k [--only k]
//!   dsmc replay <ID> <file>                  re-executes one recorded case twice

mod engine;
mod props;
mod render;
mod util;

use engine::*;
use serde_json::{json, Map, Value};
use std::time::{Duration, Instant};

struct PropDef {
    id: &'static str,
    worker: fn(&mut Worker),
    replay: fn(&Value) -> Result<String, String>,
    crash_sig: CrashSig,
    bounds: fn(Tier) -> Value,
    rule: &'static str,
    assumptions: &'static [&'static str],
    /// the enumeration is finite and completely covered when no cap is hit
    exhaustive: bool,
    wall_cap_s: (u64, u64),
}

fn registry() -> Vec<PropDef> {
    vec![
        PropDef {
            id: "C01",
            worker: props::c01::worker,
            replay: props::c01::replay,
            crash_sig: props::c01::crash_sig,
            bounds: props::c01::bounds,
            rule: "enumeration (no duplicates by construction): A) every instruction shape (label x output x command, 27) x every rendering style (quote-when-optional, 1|3 separator spaces, 3 leads, 6 trails incl. comments, 4 '=' spacings) x 15 argument lists; B) every argument string up to the length bound over the 15-character alphabet {a n SP \" \\ # = : $ { % TAB LF CR e-acute}, as 1, 2 and 3 arguments, x 3 shapes x 16 styles; C) every script of up to n lines from a pool of 12 lines x LF/CRLF x final line break. Oracle: parse_text(render(i)) == i. A case is non-trivial when a label or output is present or an argument needs quoting or escaping; states = distinct outcome classes (shape, argument count, character classes per argument), transitions = parse_text calls",
            assumptions: &["characters outside the alphabet behave like 'a' or 'e-acute' (the scanner has no other special characters)", "names are restricted to the listed labels/outputs/commands"],
            exhaustive: true,
            wall_cap_s: (50, 1500),
        },
        PropDef {
            id: "C08",
            worker: props::c08::worker,
            replay: props::c08::replay,
            crash_sig: props::c08::crash_sig,
            bounds: props::c08::bounds,
            rule: "enumeration (no duplicates within a phase): planted malformed line (6 kinds x 4-5 spellings) at every position among every choice of well-formed lines (pool of 10), LF and CRLF; pairs of malformed lines; every sequence of tokens from a pool of 14; every text up to the length bound over {a SP \" \\ # = : ! $ { LF CR} (+TAB, e-acute). Oracle: no panic; Ok => one instruction per line with line numbers 1..n, no source tag, blank/comment lines Empty, each line parses alone to the same instruction; Err(kind,k) => 1<=k<=n and line k alone is rejected with the same kind; planted error => that kind and line. Non-trivial: the text contains one of \" \\ # = : !; states = distinct (verdict, error kind, error line, line count) classes, transitions = parse_text calls on whole texts",
            assumptions: &["no !include_files directive in the texts (C14 covers includes)"],
            exhaustive: true,
            wall_cap_s: (50, 1500),
        },
    ]
}

fn find(id: &str) -> PropDef {
    registry()
        .into_iter()
        .find(|p| p.id.eq_ignore_ascii_case(id))
        .unwrap_or_else(|| {
            eprintln!("unknown property {}", id);
            std::process::exit(2)
        })
}

fn arg_after(args: &[String], key: &str) -> Option<String> {
    args.iter().position(|a| a == key).and_then(|i| args.get(i + 1).cloned())
}

fn main() {
    let args: Vec<String> = std::env::args().collect();
    if args.len() < 3 {
        eprintln!("usage: dsmc run|worker|replay <ID> ...");
        std::process::exit(2);
    }
    let _ = process_start();
    let tier = Tier::parse(
        &arg_after(&args, "--tier")
            .or_else(|| std::env::var("VERIF_TIER").ok())
            .unwrap_or_else(|| "quick".into()),
    );
    match args[1].as_str() {
        "worker" => {
            install_quiet_panic_hook();
            let p = find(&args[2]);
            let shard = arg_after(&args, "--shard").unwrap_or_else(|| "0/1".into());
            let mut it = shard.split('/');
            let i: u64 = it.next().unwrap().parse().unwrap();
            let n: u64 = it.next().unwrap().parse().unwrap();
            let from: u64 = arg_after(&args, "--from").and_then(|s| s.parse().ok()).unwrap_or(0);
            let only: Option<u64> = arg_after(&args, "--only").and_then(|s| s.parse().ok());
            let mut w = Worker::from_args(tier, i, n, from, only);
            (p.worker)(&mut w);
            w.done();
        }
        "run" => {
            let p = find(&args[2]);
            let workers: usize = arg_after(&args, "--workers")
                .and_then(|s| s.parse().ok())
                .unwrap_or_else(|| std::thread::available_parallelism().map(|n| n.get()).unwrap_or(4).min(16));
            let start = Instant::now();
            let mut totals = Totals::default();
            let cap = tier.pick(p.wall_cap_s.0, p.wall_cap_s.1);
            let opts = SuperOpts {
                prop: p.id.to_string(),
                tier,
                workers,
                wall_cap: Duration::from_secs(cap),
                extra: vec![],
            };
            supervise(&opts, p.crash_sig, &mut totals);
            let spec = EvidenceSpec {
                prop: p.id.to_string(),
                tier,
                level: "model_checking",
                rule: p.rule.to_string(),
                bounds: (p.bounds)(tier),
                assumptions: p.assumptions.iter().map(|s| s.to_string()).collect(),
                exhaustive: p.exhaustive,
                extra: Map::new(),
            };
            let code = conclude(spec, &totals, start.elapsed());
            let _ = std::fs::remove_dir_all(scratch_root());
            std::process::exit(code);
        }
        "replay" => {
            install_quiet_panic_hook();
            let p = find(&args[2]);
            let file = args.get(3).cloned().unwrap_or_else(|| {
                eprintln!("replay needs a file");
                std::process::exit(2)
            });
            let doc: Value = serde_json::from_str(&std::fs::read_to_string(&file).expect("read replay")).expect("json");
            let case = if doc.get("case").is_some() { doc["case"].clone() } else { doc.clone() };
            let a = (p.replay)(&case);
            let b = (p.replay)(&case);
            println!("{}", json!({"first": format!("{:?}", a), "second": format!("{:?}", b)}));
            if format!("{:?}", a) != format!("{:?}", b) {
                eprintln!("MACHINERY-ERROR: replay diverged between two executions");
                std::process::exit(2);
            }
            match a {
                Ok(s) => println!("{}", s),
                Err(e) => println!("replay error: {}", e),
            }
        }
        _ => {
            eprintln!("unknown sub-command");
            std::process::exit(2);
        }
    }
}
