#![allow(dead_code)]
//! dsmc — bounded exhaustive exploration of duckscript against reference models.
//!   dsmc run <ID> --tier quick|thorough      supervisor: shards, verdict, evidence
//!   dsmc worker <ID> --tier T --shard i/n --from k [--only k]
//!   dsmc replay <ID> <file>                  re-executes one recorded case twice

mod engine;
mod props;
mod flow;
mod render;
mod seqmc;
mod tape;
mod util;

use engine::*;
use serde_json::{json, Map, Value};
use std::time::{Duration, Instant};

struct PropDef {
    id: &'static str,
    worker: fn(&mut Worker),
    replay: fn(&Value) -> Result<String, String>,
    crash_sig: CrashSig,
    bounds: fn(Tier) -> Value,
    rule: &'static str,
    assumptions: &'static [&'static str],
    /// the enumeration is finite and completely covered when no cap is hit
    exhaustive: bool,
    wall_cap_s: (u64, u64),
    /// explicit-state search run inside the supervisor process (threads) instead of sharded workers
    bfs: Option<fn(Tier, &mut Totals)>,
}

macro_rules! prop {
    ($id:expr, $m:ident) => {
        PropDef {
            id: $id,
            worker: props::$m::worker,
            replay: props::$m::replay,
            crash_sig: props::$m::crash_sig,
            bounds: props::$m::bounds,
            rule: props::$m::RULE,
            assumptions: props::$m::ASSUMPTIONS,
            exhaustive: props::$m::EXHAUSTIVE,
            wall_cap_s: props::$m::WALL_CAP_S,
            bfs: None,
        }
    };
}

fn no_worker(_w: &mut Worker) {}
fn no_crash_sig(_c: &Value, kind: &str) -> String {
    kind.to_string()
}

macro_rules! prop_bfs {
    ($id:expr, $m:ident) => {
        PropDef {
            id: $id,
            worker: no_worker,
            replay: props::$m::replay,
            crash_sig: no_crash_sig,
            bounds: props::$m::bounds,
            rule: props::$m::RULE,
            assumptions: props::$m::ASSUMPTIONS,
            exhaustive: props::$m::EXHAUSTIVE,
            wall_cap_s: props::$m::WALL_CAP_S,
            bfs: Some(props::$m::run),
        }
    };
}

fn registry() -> Vec<PropDef> {
    vec![
        prop!("C01", c01),
        prop!("C02", c02),
        prop!("C03", c03),
        prop!("C04", c04),
        prop!("C05", c05),
        prop!("C06", c06),
        prop!("C07", c07),
        prop!("C08", c08),
        prop!("C09", c09),
        prop!("C10", c10),
        prop_bfs!("C11", c11),
        prop_bfs!("C12", c12),
        prop!("C14", c14),
        prop_bfs!("C15", c15),
        prop_bfs!("C18", c18),
        prop!("C13", c13),
        prop!("C16", c16),
        prop!("C17", c17),
        prop!("C19", c19),
        prop!("C20", c20),
    ]
}

fn find(id: &str) -> PropDef {
    registry()
        .into_iter()
        .find(|p| p.id.eq_ignore_ascii_case(id))
        .unwrap_or_else(|| {
            eprintln!("unknown property {}", id);
            std::process::exit(2)
        })
}

fn arg_after(args: &[String], key: &str) -> Option<String> {
    args.iter().position(|a| a == key).and_then(|i| args.get(i + 1).cloned())
}

fn main() {
    let args: Vec<String> = std::env::args().collect();
    if args.len() < 3 {
        eprintln!("usage: dsmc run|worker|replay <ID> ...");
        std::process::exit(2);
    }
    let _ = process_start();
    let tier = Tier::parse(
        &arg_after(&args, "--tier")
            .or_else(|| std::env::var("VERIF_TIER").ok())
            .unwrap_or_else(|| "quick".into()),
    );
    match args[1].as_str() {
        "worker" => {
            install_quiet_panic_hook();
            let p = find(&args[2]);
            let shard = arg_after(&args, "--shard").unwrap_or_else(|| "0/1".into());
            let mut it = shard.split('/');
            let i: u64 = it.next().unwrap().parse().unwrap();
            let n: u64 = it.next().unwrap().parse().unwrap();
            let from: u64 = arg_after(&args, "--from").and_then(|s| s.parse().ok()).unwrap_or(0);
            let only: Option<u64> = arg_after(&args, "--only").and_then(|s| s.parse().ok());
            let mut w = Worker::from_args(tier, i, n, from, only);
            // every check runs under a watchdog: a case that does not come back within a minute of processor
            // time is reported as a hang (checks with slower or faster cases set limits of their own)
            w.set_case_limit_ms(60_000);
            if std::env::var("DSMC_DESCRIBE").is_ok() {
                // print the description of every case before it runs (used to name a case by its index)
                w.risky = true;
            }
            // a panic outside a guarded call is a defect of the harness: say where, then die
            if std::panic::catch_unwind(std::panic::AssertUnwindSafe(|| (p.worker)(&mut w))).is_err() {
                eprintln!("harness panic in worker {} of {}: {}", shard, p.id, last_panic());
                std::process::exit(101);
            }
            w.done();
        }
        "run" => {
            let p = find(&args[2]);
            // a scratch directory of this run only (concurrent runs must not see each other's files)
            if std::env::var("DSMC_SCRATCH").is_err() {
                let base = if std::path::Path::new("/dev/shm").is_dir() { "/dev/shm".to_string() } else { "/verif/harness/target".to_string() };
                std::env::set_var("DSMC_SCRATCH", format!("{}/dsmc-scratch-{}", base, std::process::id()));
            }
            let workers: usize = arg_after(&args, "--workers")
                .and_then(|s| s.parse().ok())
                .unwrap_or_else(|| std::thread::available_parallelism().map(|n| n.get()).unwrap_or(4).min(16));
            let start = Instant::now();
            let mut totals = Totals::default();
            let cap = tier.pick(p.wall_cap_s.0, p.wall_cap_s.1);
            let opts = SuperOpts {
                prop: p.id.to_string(),
                tier,
                workers,
                wall_cap: Duration::from_secs(cap),
                extra: vec![],
            };
            match p.bfs {
                Some(f) => {
                    install_quiet_panic_hook();
                    f(tier, &mut totals)
                }
                None => supervise(&opts, p.crash_sig, &mut totals),
            }
            let spec = EvidenceSpec {
                prop: p.id.to_string(),
                tier,
                level: "model_checking",
                rule: p.rule.to_string(),
                bounds: (p.bounds)(tier),
                assumptions: p.assumptions.iter().map(|s| s.to_string()).collect(),
                exhaustive: p.exhaustive,
                extra: Map::new(),
            };
            let code = conclude(spec, &totals, start.elapsed());
            let _ = std::fs::remove_dir_all(scratch_root());
            std::process::exit(code);
        }
        "replay" => {
            install_quiet_panic_hook();
            let p = find(&args[2]);
            let file = args.get(3).cloned().unwrap_or_else(|| {
                eprintln!("replay needs a file");
                std::process::exit(2)
            });
            let doc: Value = match std::fs::read_to_string(&file).map_err(|e| e.to_string()).and_then(|t| serde_json::from_str(&t).map_err(|e| e.to_string())) {
                Ok(d) => d,
                Err(e) => {
                    eprintln!("MACHINERY-ERROR: cannot read the replay file {}: {}", file, e);
                    std::process::exit(2)
                }
            };
            let case = if doc.get("case").is_some() { doc["case"].clone() } else { doc.clone() };
            let a = (p.replay)(&case);
            let b = (p.replay)(&case);
            println!("{}", json!({"first": format!("{:?}", a), "second": format!("{:?}", b)}));
            if util::mask_handles(&format!("{:?}", a)) != util::mask_handles(&format!("{:?}", b)) {
                eprintln!("MACHINERY-ERROR: replay diverged between two executions");
                std::process::exit(2);
            }
            match a {
                Ok(s) => println!("{}", s),
                Err(e) => println!("replay error: {}", e),
            }
        }
        "libref" => {
            std::process::exit(props::c20::libref_main(&args[2..]));
        }
        "script-case" => {
            // one script of a fixed-case family, run in a process of its own (so that a run that kills the
            // process is the verdict of that case): the script comes on stdin, the answer goes out as JSON
            let mut text = String::new();
            use std::io::Read;
            std::io::stdin().read_to_string(&mut text).expect("read script");
            engine::install_quiet_panic_hook();
            let out = match util::run_sdk_script(&text) {
                Ok(vars) => serde_json::json!({"ok": vars}),
                Err(e) => serde_json::json!({"err": e}),
            };
            println!("{}", out);
        }
        "script" => {
            // debugging aid: run a script file with the SDK, dump variables and abstract state
            let text = std::fs::read_to_string(&args[2]).expect("read script");
            let ctx = util::sdk_context();
            match duckscript::runner::run_script(&text, ctx, None) {
                Ok(c) => {
                    println!("variables: {:?}", util::sorted_vars(&c.variables));
                    println!("state: {:#?}", util::abstract_state(&c.state));
                }
                Err(e) => println!("error: {}", e),
            }
        }
        _ => {
            eprintln!("unknown sub-command");
            std::process::exit(2);
        }
    }
}
