//! C15 — the command registry is a consistent name/alias map.
//! Part A (engine E1): explicit-state search to a fixpoint over the Rust API of `Commands`.
//! Part B: every sequence of up to 4 script-level operations (alias, unalias, remove_command,
//! is_command_defined, fn definitions, calls) in one script against the same map model.

use crate::engine::*;
use crate::seqmc::*;
use crate::util::*;
use duckscript::runner;
use duckscript::types::command::{Command, CommandInvocationContext, CommandResult, Commands};
use serde_json::{json, Value};
use std::collections::{BTreeMap, BTreeSet};
use std::time::Duration;

// ------------------------------------------------------------------------------------------
// Part A
// ------------------------------------------------------------------------------------------

#[derive(Clone)]
struct Cmd {
    name: String,
    aliases: Vec<String>,
}
impl Command for Cmd {
    fn name(&self) -> String {
        self.name.clone()
    }
    fn aliases(&self) -> Vec<String> {
        self.aliases.clone()
    }
    fn clone_and_box(&self) -> Box<dyn Command> {
        Box::new(self.clone())
    }
    fn run(&self, _c: CommandInvocationContext) -> CommandResult {
        CommandResult::Continue(Some(self.sig()))
    }
    fn help(&self) -> String {
        self.sig()
    }
}
impl Cmd {
    fn sig(&self) -> String {
        format!("{}[{}]", self.name, self.aliases.join(","))
    }
}

#[derive(Clone, Debug, PartialEq, Eq, Hash)]
pub enum Op {
    Set(String, Vec<String>),
    Remove(String),
    Get(String),
    Exists(String),
    GetForUse(String),
    Names,
}

/// name table + alias table consulted first
#[derive(Clone, Debug, Default, PartialEq, Eq)]
pub struct Model {
    /// name -> signature of the registered command
    pub names: BTreeMap<String, String>,
    /// alias -> name
    pub aliases: BTreeMap<String, String>,
}

impl Model {
    pub fn resolve(&self, n: &str) -> Option<&String> {
        let name = self.aliases.get(n).map(|s| s.as_str()).unwrap_or(n);
        self.names.get(name)
    }
    pub fn set(&mut self, name: &str, aliases: &[String], sig: String) -> bool {
        if self.names.contains_key(name) {
            return false;
        }
        if aliases.iter().any(|a| self.aliases.contains_key(a)) {
            return false;
        }
        self.names.insert(name.to_string(), sig);
        // so that the command is reachable under its name (the alias table is consulted first)
        self.aliases.remove(name);
        for a in aliases {
            self.aliases.insert(a.clone(), name.to_string());
        }
        true
    }
    pub fn remove(&mut self, n: &str) -> bool {
        let name = self.aliases.get(n).cloned().unwrap_or_else(|| n.to_string());
        if self.names.remove(&name).is_some() {
            // exactly the aliases that point to the removed command
            self.aliases.retain(|_, v| *v != name);
            true
        } else {
            false
        }
    }
}

pub struct SysA {
    universe: Vec<String>,
    ops: Vec<Op>,
}

impl SysA {
    pub fn new(tier: Tier) -> SysA {
        let names = ["a", "b", "c"];
        let alias_pool: Vec<&str> = match tier {
            Tier::Quick => vec!["a", "b", "x", "y"],
            Tier::Thorough => vec!["a", "b", "c", "x", "y"],
        };
        let mut alias_sets: Vec<Vec<String>> = vec![vec![]];
        for (i, a) in alias_pool.iter().enumerate() {
            alias_sets.push(vec![a.to_string()]);
            for b in alias_pool.iter().skip(i + 1) {
                alias_sets.push(vec![a.to_string(), b.to_string()]);
            }
        }
        let universe: Vec<String> = ["a", "b", "c", "x", "y"].iter().map(|s| s.to_string()).collect();
        let mut ops = vec![];
        for n in names {
            for al in &alias_sets {
                ops.push(Op::Set(n.to_string(), al.clone()));
            }
        }
        for n in &universe {
            ops.push(Op::Remove(n.clone()));
            ops.push(Op::Get(n.clone()));
            ops.push(Op::Exists(n.clone()));
            ops.push(Op::GetForUse(n.clone()));
        }
        ops.push(Op::Names);
        SysA { universe, ops }
    }
}

fn raw(c: &Commands) -> (BTreeMap<String, String>, BTreeMap<String, String>) {
    (
        c.commands.iter().map(|(k, v)| (k.clone(), v.help())).collect(),
        c.aliases.iter().map(|(k, v)| (k.clone(), v.clone())).collect(),
    )
}

fn fail(sig: &str, what: String) -> Fail {
    Fail { sig: sig.into(), what }
}

fn check_lookups(c: &Commands, m: &Model, universe: &[String], ctx: &str) -> Result<(), Fail> {
    for n in universe {
        let got = c.get(n).map(|x| x.help());
        let exp = m.resolve(n).cloned();
        if got != exp {
            return Err(fail("lookup-differs", format!("{}: get({}) = {:?}, model {:?}", ctx, n, got, exp)));
        }
    }
    // no alias ever points to a command that is gone
    for (a, n) in &c.aliases {
        if !c.commands.contains_key(n) {
            return Err(fail("dangling-alias", format!("{}: alias {} -> {} but that command is not registered", ctx, a, n)));
        }
    }
    let mut names: Vec<String> = m.names.keys().cloned().collect();
    names.sort();
    if c.get_all_command_names() != names {
        return Err(fail("names-differ", format!("{}: names {:?}, model {:?}", ctx, c.get_all_command_names(), names)));
    }
    Ok(())
}

impl Sys for SysA {
    type Impl = Commands;
    type Model = Model;
    type Op = Op;
    fn new_impl(&self) -> Commands {
        Commands::new()
    }
    fn clone_impl(&self, s: &Commands) -> Commands {
        s.clone()
    }
    fn init_model(&self) -> Model {
        Model::default()
    }
    fn enabled(&self, _m: &Model) -> Vec<Op> {
        self.ops.clone()
    }
    fn op_json(&self, op: &Op) -> Value {
        json!(format!("{:?}", op))
    }
    fn step(&self, s: &mut Commands, m: &mut Model, op: &Op) -> Result<(), Fail> {
        let before = raw(s);
        let ctx = format!("{:?} on names {:?} aliases {:?}", op, before.0.keys().collect::<Vec<_>>(), before.1);
        match op {
            Op::Set(n, al) => {
                let cmd = Cmd {
                    name: n.clone(),
                    aliases: al.clone(),
                };
                let sig = cmd.sig();
                let got = s.set(Box::new(cmd)).is_ok();
                let exp = m.set(n, al, sig);
                if got != exp {
                    return Err(fail(if exp { "set:refused-but-must-accept" } else { "set:accepted-but-must-refuse" }, ctx));
                }
                if !got && raw(s) != before {
                    return Err(fail("set:refused-registration-changed-the-registry", format!("{} -> {:?}", ctx, raw(s))));
                }
            }
            Op::Remove(n) => {
                let got = s.remove(n);
                let exp = m.remove(n);
                if got != exp {
                    return Err(fail("remove:result-differs", format!("{}: returned {}, model {}", ctx, got, exp)));
                }
                if !got && raw(s) != before {
                    return Err(fail("remove:failed-removal-changed-the-registry", ctx));
                }
            }
            Op::Get(n) => {
                let got = s.get(n).map(|x| x.help());
                if got != m.resolve(n).cloned() {
                    return Err(fail("get:differs", format!("{}: {:?} model {:?}", ctx, got, m.resolve(n))));
                }
            }
            Op::Exists(n) => {
                if s.exists(n) != m.resolve(n).is_some() {
                    return Err(fail("exists:differs", ctx));
                }
            }
            Op::GetForUse(n) => {
                let got = s.get_for_use(n).map(|x| x.help());
                if got != m.resolve(n).cloned() {
                    return Err(fail("get_for_use:differs", format!("{}: {:?} model {:?}", ctx, got, m.resolve(n))));
                }
            }
            Op::Names => (),
        }
        if matches!(op, Op::Get(_) | Op::Exists(_) | Op::GetForUse(_) | Op::Names) && raw(s) != before {
            return Err(fail("lookup-changed-the-registry", ctx));
        }
        let kind = format!("{:?}", op);
        let kind = kind.split('(').next().unwrap_or("").to_lowercase();
        check_lookups(s, m, &self.universe, &ctx).map_err(|f| fail(&format!("{}:{}", kind, f.sig), f.what))
    }
    fn canon(&self, s: &Commands, _m: &Model) -> Vec<u8> {
        format!("{:?}", raw(s)).into_bytes()
    }
}

// ------------------------------------------------------------------------------------------
// Part B: script level
// ------------------------------------------------------------------------------------------

#[derive(Clone, Debug, PartialEq, Eq)]
enum SOp {
    Alias(&'static str, &'static str),
    Unalias(&'static str),
    RemoveCommand(&'static str),
    IsDefined(&'static str),
    Fn(&'static str),
    Call(&'static str),
}

fn sops() -> Vec<SOp> {
    let mut v = vec![];
    for n in ["x", "y", "echo"] {
        v.push(SOp::Alias(n, "A"));
        v.push(SOp::Unalias(n));
        v.push(SOp::RemoveCommand(n));
        v.push(SOp::IsDefined(n));
        v.push(SOp::Fn(n));
        v.push(SOp::Call(n));
    }
    v.push(SOp::Alias("x", "A2"));
    v.push(SOp::RemoveCommand("std::Echo"));
    v.push(SOp::IsDefined("std::Echo"));
    v
}

#[derive(Clone, Debug, PartialEq)]
enum Kind {
    Alias(String),
    Func,
    Sdk(String),
}

struct ScriptModel {
    names: BTreeMap<String, Kind>,
    aliases: BTreeMap<String, String>,
    alias_created: BTreeSet<String>,
    fn_defined: BTreeSet<String>,
}

impl ScriptModel {
    fn resolve(&self, n: &str) -> Option<&Kind> {
        let name = self.aliases.get(n).map(|s| s.as_str()).unwrap_or(n);
        self.names.get(name)
    }
    fn set(&mut self, name: &str, k: Kind) -> bool {
        if self.names.contains_key(name) {
            return false;
        }
        self.names.insert(name.into(), k);
        self.aliases.remove(name);
        true
    }
    fn remove(&mut self, n: &str) -> bool {
        let name = self.aliases.get(n).cloned().unwrap_or_else(|| n.to_string());
        if self.names.remove(&name).is_some() {
            self.aliases.retain(|_, v| *v != name);
            true
        } else {
            false
        }
    }
}

/// Runs one sequence as a single script; Ok(class) or Err((sig, what)).
fn run_sequence(seq: &[SOp]) -> Result<u64, (String, String)> {
    let ctx = sdk_context();
    let mut m = ScriptModel {
        names: ctx.commands.commands.iter().map(|(k, _)| (k.clone(), Kind::Sdk(k.clone()))).collect(),
        aliases: ctx.commands.aliases.iter().map(|(k, v)| (k.clone(), v.clone())).collect(),
        alias_created: BTreeSet::new(),
        fn_defined: BTreeSet::new(),
    };
    let mut lines: Vec<String> = vec![];
    // expected value of r<i> after step i (None = undefined); Skip = not compared
    let mut expect: Vec<(String, Option<Option<String>>)> = vec![];
    let mut expect_fail = false;
    for (i, op) in seq.iter().enumerate() {
        let r = format!("r{}", i);
        match op {
            SOp::Alias(n, v) => {
                lines.push(format!("{} = alias {} set {}", r, n, v));
                let ok = m.set(n, Kind::Alias(v.to_string()));
                if ok {
                    m.alias_created.insert(n.to_string());
                }
                expect.push((r, Some(Some(if ok { "true" } else { "false" }.to_string()))));
            }
            SOp::Unalias(n) => {
                lines.push(format!("{} = unalias {}", r, n));
                let removed = if m.alias_created.contains(*n) {
                    if m.remove(n) {
                        m.alias_created.remove(*n);
                        true
                    } else {
                        false
                    }
                } else if m.aliases.contains_key(*n) {
                    m.aliases.remove(*n);
                    true
                } else {
                    false
                };
                expect.push((r, Some(Some(removed.to_string()))));
            }
            SOp::RemoveCommand(n) => {
                lines.push(format!("{} = remove_command {}", r, n));
                let removed = m.remove(n);
                expect.push((r, Some(Some(removed.to_string()))));
            }
            SOp::IsDefined(n) => {
                lines.push(format!("{} = is_command_defined {}", r, n));
                expect.push((r, Some(Some(m.resolve(n).is_some().to_string()))));
            }
            SOp::Fn(n) => {
                // a second definition of the same function name in one script is refused by the
                // function table itself (documented "already defined"), independent of the registry
                lines.push(format!("fn {}", n));
                lines.push("return F".to_string());
                lines.push("end".to_string());
                if m.fn_defined.contains(*n) {
                    // error result, the run continues (falls into the body; `return` outside a call is a no-op)
                } else if m.set(n, Kind::Func) {
                    m.fn_defined.insert(n.to_string());
                } else {
                    // registration refused: the function table still records the definition
                    m.fn_defined.insert(n.to_string());
                }
            }
            SOp::Call(n) => {
                match m.resolve(n).cloned() {
                    None => {
                        lines.push(format!("{} = {}", r, n));
                        expect_fail = true;
                        break;
                    }
                    Some(Kind::Alias(v)) => {
                        lines.push(format!("{} = {}", r, n));
                        expect.push((r, Some(Some(v))));
                    }
                    Some(Kind::Func) => {
                        lines.push(format!("{} = {}", r, n));
                        expect.push((r, Some(Some("F".into()))));
                    }
                    Some(Kind::Sdk(_)) => {
                        // the real echo: output not compared
                        lines.push(format!("{} = {}", r, n));
                        expect.push((r, None));
                    }
                }
            }
        }
    }
    let text = lines.join("\n");
    let (env, _o, _e, _h) = quiet_env();
    let res = guarded(|| runner::run_script(&text, ctx, Some(env)));
    let desc = || format!("script {:?}", text);
    match res {
        Err(p) => Err(("panic".into(), format!("{}: {}", desc(), p))),
        Ok(Err(e)) => {
            if expect_fail {
                Ok(hash64(&("fail", seq.len())))
            } else {
                Err(("script:run-failed".into(), format!("{}: {}", desc(), e)))
            }
        }
        Ok(Ok(c)) => {
            if expect_fail {
                return Err(("script:unknown-command-did-not-stop-the-run".into(), desc()));
            }
            for (r, e) in &expect {
                if let Some(e) = e {
                    if c.variables.get(r) != e.as_ref() {
                        let idx: usize = r[1..].parse().unwrap_or(0);
                        let opk = format!("{:?}", seq[idx]);
                        let opk = opk.split('(').next().unwrap_or("").to_lowercase();
                        return Err((
                            format!("script:{}:output-differs", opk),
                            format!("{}: {} = {:?}, model {:?}", desc(), r, c.variables.get(r), e),
                        ));
                    }
                }
            }
            // final registry against the model, over the whole real registry
            for n in ["x", "y", "echo", "std::Echo", "set", "std::Set"] {
                let got = c.commands.get(n).map(|x| x.name());
                let exp = m.resolve(n).map(|k| match k {
                    Kind::Sdk(s) => s.clone(),
                    _ => m.aliases.get(n).cloned().unwrap_or_else(|| n.to_string()),
                });
                if got != exp {
                    return Err(("script:lookup-differs".into(), format!("{}: {} resolves to {:?}, model {:?}", desc(), n, got, exp)));
                }
            }
            for (a, n) in &c.commands.aliases {
                if !c.commands.commands.contains_key(n) {
                    return Err(("script:dangling-alias".into(), format!("{}: alias {} -> {} which is gone", desc(), a, n)));
                }
            }
            let ma: BTreeMap<String, String> = c.commands.aliases.iter().map(|(k, v)| (k.clone(), v.clone())).collect();
            if ma != m.aliases {
                let diff: Vec<_> = ma.iter().filter(|(k, v)| m.aliases.get(*k) != Some(*v)).map(|(k, v)| format!("+{}->{}", k, v)).chain(m.aliases.iter().filter(|(k, v)| ma.get(*k) != Some(*v)).map(|(k, v)| format!("-{}->{}", k, v))).collect();
                return Err(("script:alias-table-differs".into(), format!("{}: {:?}", desc(), diff)));
            }
            let mn: BTreeSet<String> = c.commands.commands.keys().cloned().collect();
            let en: BTreeSet<String> = m.names.keys().cloned().collect();
            if mn != en {
                return Err(("script:name-table-differs".into(), format!("{}: {:?}", desc(), mn.symmetric_difference(&en).collect::<Vec<_>>())));
            }
            Ok(hash64(&(seq.len(), m.names.len(), m.aliases.len())))
        }
    }
}

pub fn bounds(tier: Tier) -> Value {
    match tier {
        Tier::Quick => json!({"api": {"names": ["a", "b", "c"], "alias_pool": ["a", "b", "x", "y"], "max_aliases": 2, "search": "fixpoint"}, "script_ops_in_sequence": 3}),
        Tier::Thorough => json!({"api": {"names": ["a", "b", "c"], "alias_pool": ["a", "b", "c", "x", "y"], "max_aliases": 2, "search": "fixpoint"}, "script_ops_in_sequence": 4}),
    }
}

pub fn run(tier: Tier, totals: &mut Totals) {
    // Part A
    let sys = SysA::new(tier);
    let r = bfs(
        &sys,
        &BfsOpts {
            max_depth: 64,
            max_states: 5_000_000,
            wall: Duration::from_secs(tier.pick(50, 1200)),
            threads: 16,
        },
    );
    totals.extra.insert(
        "api_search".into(),
        json!({"ops_in_alphabet": sys.ops.len(), "levels": r.levels, "fixpoint": r.fixpoint, "states": r.states, "transitions": r.transitions}),
    );
    into_totals(&r, totals);
    // Part B
    let ops = sops();
    let depth = tier.pick(3usize, 4usize);
    let idx: Vec<usize> = (0..ops.len()).collect();
    let seqs: Vec<Vec<usize>> = Strings::new(&idx[..], 1, depth).collect();
    let results = par_map(seqs.len(), 16, || (), |_, i| {
        let seq: Vec<SOp> = seqs[i].iter().map(|&k| ops[k].clone()).collect();
        run_sequence(&seq)
    });
    let mut scripts = 0u64;
    for (i, r) in results.into_iter().enumerate() {
        scripts += 1;
        match r {
            Ok(class) => {
                totals.outcomes.insert(class);
            }
            Err((sig, what)) => {
                let e = totals.failures.entry(sig.clone()).or_insert((0, vec![]));
                e.0 += 1;
                if e.1.len() < 1 {
                    e.1.push(json!({"idx": i, "sig": sig, "what": what, "replay": {"script_ops": seqs[i]}}));
                }
            }
        }
    }
    totals.evals += scripts;
    totals.transitions += scripts;
    totals.traces += scripts;
    totals.nontrivial += scripts;
    totals.extra.insert("script_sequences".into(), json!(scripts));
    for n in with_thresholds_usize(tier.pick(vec![300usize, 3000, 12000], vec![300usize, 3000, 12000, 30000, 70000]), tier.pick(1024, 16384)) {
        totals.evals += 1;
        totals.transitions += 1;
        totals.traces += 1;
        totals.nontrivial += 1;
        if let Err((sig, what)) = guarded(|| scale_registry(n)).unwrap_or_else(|p| Err(("scale:panic".to_string(), p))) {
            let e = totals.failures.entry(sig.clone()).or_insert((0, vec![]));
            e.0 += 1;
            e.1.push(json!({"idx": 0, "sig": sig, "what": what, "replay": {"scale_registry": n}}));
        }
    }
    {
        totals.evals += 1;
        totals.transitions += 1;
        totals.traces += 1;
        totals.nontrivial += 1;
        if let Err((sig, what)) = guarded(spelling_registry).unwrap_or_else(|p| Err(("spelling:panic".to_string(), p))) {
            let e = totals.failures.entry(sig.clone()).or_insert((0, vec![]));
            e.0 += 1;
            e.1.push(json!({"idx": 0, "sig": sig, "what": what, "replay": {"spelling_registry": true}}));
        }
    }
    // registry operations issued while functions are running: from a function called by another one,
    // remove / ask about the running function itself, its caller, a function that is not running, an
    // sdk command; the registry follows the operation at once and the running invocations finish
    for target in ["inner", "outer", "other", "echo", "std::Echo"] {
        for place in ["inner", "outer"] {
            for op in ["remove_command", "unalias", "alias"] {
                let (opline, res, defined_after) = match op {
                    "remove_command" => (format!("rm = remove_command {}", target), "true", false),
                    // unalias removes aliases only: a function or a command name is left alone ... except
                    // an alias of an sdk command, which `echo` is
                    "unalias" => (format!("rm = unalias {}", target), if target == "echo" { "true" } else { "false" }, target != "echo"),
                    // a new alias cannot take a command name that is in use; it can take the place of an alias
                    _ => (format!("rm = alias {} set A", target), if target == "echo" { "true" } else { "false" }, true),
                };
                let at = |p: &str| if p == place { format!("{}\nd = is_command_defined {}\n", opline, target) } else { String::new() };
                let text = format!(
                    "fn outer\nri = inner\n{}return O\nend\nfn inner\n{}return I\nend\nfn other\nreturn X\nend\no = outer\nd_after = is_command_defined {}\nlast = set reached",
                    at("outer"),
                    at("inner"),
                    target
                );
                crate::util::scale_case_totals(
                    totals,
                    &format!("while-running {} {} from {}", op, target, place),
                    &text,
                    &[
                        ("rm", Some(res.to_string())),
                        ("d", Some(defined_after.to_string())),
                        ("ri", Some("I".to_string())),
                        ("o", Some("O".to_string())),
                        ("d_after", Some(defined_after.to_string())),
                        ("last", Some("reached".to_string())),
                    ],
                );
            }
        }
    }
    // names that read like something the implementation might keep for itself (a counter, a table, a
    // marker): as an alias and as a function they are names like any other, through unalias reached
    // directly and through an alias of it
    for name in [
        "nesting", "depth", "level", "count", "counter", "stack", "state", "names", "aliases", "ALIAS_STATE", "alias_state", "handles", "scope_stack", "size", "len", "index", "id", "key", "value", "lock", "busy", "running", "current", "last",
        "next", "prev", "top", "list", "cache", "self", "this", "0", "1", "true", "false", "none", "fn_nesting", "call_stack", "call_stack_depth", "instructions", "arguments", "script", "name", "command", "commands",
    ] {
        let text = format!(
            "pre = is_command_defined {n}\nalias {n} set deep\nd1 = is_command_defined {n}\nout1 = {n}\nout2 = {n}\nrm1 = unalias {n}\nd2 = is_command_defined {n}\nrm2 = unalias {n}\nfn {n}\nreturn from_function\nend\nrm3 = unalias {n}\nalias drop unalias\nrm4 = drop {n}\nd3 = is_command_defined {n}\nout3 = {n}\nalias viaalias {n}\nout4 = viaalias\nrm5 = drop viaalias\nd4 = is_command_defined viaalias\nd5 = is_command_defined {n}\nlast = set reached",
            n = name
        );
        crate::util::scale_case_totals(
            totals,
            &format!("name-from-the-dictionary {}", name),
            &text,
            &[
                ("pre", Some("false".to_string())),
                ("d1", Some("true".to_string())),
                ("out1", Some("deep".to_string())),
                ("out2", Some("deep".to_string())),
                ("rm1", Some("true".to_string())),
                ("d2", Some("false".to_string())),
                ("rm2", Some("false".to_string())),
                ("rm3", Some("false".to_string())),
                ("rm4", Some("false".to_string())),
                ("d3", Some("true".to_string())),
                ("out3", Some("from_function".to_string())),
                ("out4", Some("from_function".to_string())),
                ("rm5", Some("true".to_string())),
                ("d4", Some("false".to_string())),
                ("d5", Some("true".to_string())),
                ("last", Some("reached".to_string())),
            ],
        );
    }
    if totals.samples.len() < 8 {
        totals.samples.push(json!({"script_ops": seqs.last().map(|s| s.iter().map(|&k| format!("{:?}", ops[k])).collect::<Vec<_>>())}));
    }
}

/// A registry with n commands of two aliases each: every name and alias resolves to its own command,
/// refused registrations (taken name, taken alias) change nothing, removing every second command by
/// one of its aliases leaves exactly the others.
fn scale_registry(n: usize) -> Result<(), (String, String)> {
    let mut c = Commands::new();
    let cmd = |i: usize| Cmd { name: format!("pkg::Cmd{}", i), aliases: vec![format!("c{}", i), format!("alias_{}", i)] };
    let err = |sig: &str, what: String| Err((format!("scale:{}", sig), what));
    for i in 0..n {
        if c.set(Box::new(cmd(i))).is_err() {
            return err("set-refused", format!("registration {} of {} refused", i, n));
        }
    }
    // refused registrations
    let before = c.get_all_command_names();
    if c.set(Box::new(Cmd { name: "pkg::Cmd7".into(), aliases: vec!["fresh".into()] })).is_ok() {
        return err("taken-name-accepted", "a second pkg::Cmd7 was accepted".into());
    }
    if c.set(Box::new(Cmd { name: "pkg::Other".into(), aliases: vec!["fresh2".into(), format!("c{}", n - 1)] })).is_ok() {
        return err("taken-alias-accepted", format!("a command with the taken alias c{} was accepted", n - 1));
    }
    if c.get_all_command_names() != before || c.exists("fresh") || c.exists("fresh2") || c.exists("pkg::Other") {
        return err("refused-registration-left-a-trace", "the registry changed after refused registrations".into());
    }
    let names = c.get_all_command_names();
    if names.len() != n {
        return err("name-count", format!("{} names listed, {} registered", names.len(), n));
    }
    for i in 0..n {
        for key in [format!("pkg::Cmd{}", i), format!("c{}", i), format!("alias_{}", i)] {
            match c.get(&key) {
                Some(found) if found.name() == format!("pkg::Cmd{}", i) => (),
                other => return err("lookup", format!("{} resolves to {:?}", key, other.map(|x| x.name()))),
            }
        }
    }
    // the model of both tables, kept through everything that follows
    let mut m_names: BTreeSet<String> = (0..n).map(|i| format!("pkg::Cmd{}", i)).collect();
    let mut m_aliases: BTreeMap<String, String> = BTreeMap::new();
    for i in 0..n {
        m_aliases.insert(format!("c{}", i), format!("pkg::Cmd{}", i));
        m_aliases.insert(format!("alias_{}", i), format!("pkg::Cmd{}", i));
    }
    let tables = |c: &Commands, m_names: &BTreeSet<String>, m_aliases: &BTreeMap<String, String>, when: &str| -> Result<(), (String, String)> {
        let names: BTreeSet<String> = c.commands.keys().cloned().collect();
        let aliases: BTreeMap<String, String> = c.aliases.iter().map(|(k, v)| (k.clone(), v.clone())).collect();
        if names != *m_names {
            return Err(("scale:name-table".into(), format!("{}: the name table differs from the model by {:?}", when, names.symmetric_difference(m_names).take(6).collect::<Vec<_>>())));
        }
        if aliases != *m_aliases {
            let extra: Vec<_> = aliases.iter().filter(|(k, v)| m_aliases.get(*k) != Some(*v)).take(4).collect();
            let missing: Vec<_> = m_aliases.iter().filter(|(k, v)| aliases.get(*k) != Some(*v)).take(4).collect();
            return Err(("scale:alias-table".into(), format!("{}: the alias table differs from the model: unexpected {:?}, missing {:?}", when, extra, missing)));
        }
        Ok(())
    };
    tables(&c, &m_names, &m_aliases, "after the registrations")?;
    // an accepted registration whose name is an alias of another command takes that name over: the alias
    // is gone for good, whatever happens to the registry later
    if n > 3 {
        if c.set(Box::new(Cmd { name: "alias_1".into(), aliases: vec!["taker".into()] })).is_err() {
            return err("set-refused", "a command named like the alias alias_1 was refused".into());
        }
        m_names.insert("alias_1".into());
        m_aliases.remove("alias_1");
        m_aliases.insert("taker".into(), "alias_1".into());
        tables(&c, &m_names, &m_aliases, "after a command took the name of an alias")?;
        match c.get("alias_1") {
            Some(found) if found.name() == "alias_1" => (),
            other => return err("lookup", format!("alias_1 resolves to {:?} after a command of that name was registered", other.map(|x| x.name()))),
        }
    }
    for i in (0..n).step_by(2) {
        let key = if i % 4 == 0 { format!("c{}", i) } else { format!("pkg::Cmd{}", i) };
        if !c.remove(&key) {
            return err("remove-refused", format!("remove({}) returned false", key));
        }
        m_names.remove(&format!("pkg::Cmd{}", i));
        m_aliases.retain(|_, v| *v != format!("pkg::Cmd{}", i));
        // the tables are compared after every removal up to 200, then every 97th
        if i < 400 || (i / 2) % 97 == 0 {
            tables(&c, &m_names, &m_aliases, &format!("after {} removals", i / 2 + 1))?;
        }
    }
    tables(&c, &m_names, &m_aliases, "after all removals")?;
    if n > 3 {
        match c.get("alias_1") {
            Some(found) if found.name() == "alias_1" => (),
            other => return err("lookup", format!("alias_1 resolves to {:?} after the removals", other.map(|x| x.name()))),
        }
    }
    for i in 0..n {
        let removed = i % 2 == 0;
        for key in [format!("pkg::Cmd{}", i), format!("c{}", i), format!("alias_{}", i)] {
            if c.exists(&key) == removed {
                return err("after-remove", format!("{} exists = {} after removing every second command", key, !removed));
            }
        }
    }
    let left = n / 2 + if n > 3 { 1 } else { 0 };
    if c.get_all_command_names().len() != left {
        return err("name-count-after-remove", format!("{} names listed after removing {} of {}", c.get_all_command_names().len(), n - n / 2, n));
    }
    Ok(())
}

/// A name is a name: with white space in front of or behind it, in another letter case, or with a look-alike
/// character it is another name - for registering, looking up and removing alike. Every pair (registered
/// spelling, asked spelling) of a small family of spellings.
fn spelling_registry() -> Result<(), (String, String)> {
    let err = |sig: &str, what: String| Err((format!("spelling:{}", sig), what));
    let spellings = ["greet", "greet ", " greet", "greet\t", "greet\r", "greet\n", "greet\r\n", "greet\u{a0}", "Greet", "GREET", "gr\u{435}et", "greet::", "::greet", "gre et"];
    for registered in spellings {
        for as_alias in [false, true] {
            for asked in spellings {
                let mut c = Commands::new();
                let cmd = if as_alias { Cmd { name: "pkg::Thing".into(), aliases: vec![registered.to_string()] } } else { Cmd { name: registered.to_string(), aliases: vec!["other".into()] } };
                let own = cmd.name.clone();
                if c.set(Box::new(cmd)).is_err() {
                    return err("set-refused", format!("registering {:?} was refused", registered));
                }
                let same = asked == registered;
                if c.exists(asked) != same {
                    return err("exists", format!("{:?} registered (as {}): exists({:?}) is {}", registered, if as_alias { "an alias" } else { "a name" }, asked, !same));
                }
                if c.get(asked).map(|x| x.name()) != if same { Some(own.clone()) } else { None } {
                    return err("get", format!("{:?} registered: get({:?}) gives {:?}", registered, asked, c.get(asked).map(|x| x.name())));
                }
                if c.get_for_use(asked).map(|x| x.name()) != if same { Some(own.clone()) } else { None } {
                    return err("get_for_use", format!("{:?} registered: get_for_use({:?}) gives a command", registered, asked));
                }
                // a second command under the asked spelling is accepted iff the spelling is free
                let second = c.set(Box::new(Cmd { name: asked.to_string(), aliases: vec![] }));
                if second.is_ok() == (same && !as_alias) {
                    return err("second-registration", format!("{:?} registered: a second command named {:?} was {}", registered, asked, if second.is_ok() { "accepted" } else { "refused" }));
                }
                if second.is_ok() {
                    c.remove(asked);
                }
                if c.remove(asked) != (same && !(as_alias && second.is_ok())) && !same {
                    return err("remove", format!("{:?} registered: remove({:?}) removed something", registered, asked));
                }
                if !same && !c.exists(registered) {
                    return err("remove", format!("{:?} registered: after remove({:?}) it is gone", registered, asked));
                }
            }
        }
    }
    Ok(())
}

pub fn replay(case: &Value) -> Result<String, String> {
    if case.get("spelling_registry").is_some() {
        return Ok(format!("{:?}", spelling_registry()));
    }
    if let Some(n) = case.get("scale_registry").and_then(|v| v.as_u64()) {
        return Ok(format!("{:?}", scale_registry(n as usize)));
    }
    if let Some(h) = case.get("history") {
        let sys = SysA::new(Tier::Thorough);
        let mut s = sys.new_impl();
        let mut m = sys.init_model();
        let mut out = vec![];
        for e in h.as_array().ok_or("history")? {
            let want = e.as_str().unwrap_or("");
            let op = sys.ops.iter().find(|o| format!("{:?}", o) == want).ok_or("op not in alphabet")?;
            match sys.step(&mut s, &mut m, op) {
                Ok(()) => out.push(format!("{} ok", want)),
                Err(f) => {
                    out.push(format!("{} FAIL [{}] {}", want, f.sig, f.what));
                    break;
                }
            }
        }
        return Ok(out.join("\n"));
    }
    let ops = sops();
    let seq: Vec<SOp> = case["script_ops"]
        .as_array()
        .ok_or("script_ops")?
        .iter()
        .map(|v| ops[v.as_u64().unwrap_or(0) as usize].clone())
        .collect();
    Ok(format!("{:?} -> {:?}", seq, run_sequence(&seq)))
}

pub const RULE: &str = "Part A: explicit-state breadth-first search to a fixpoint from the empty registry over the Rust API: set(c) for every command with name in {a,b,c} and an alias set of size <= 2 from the pool, remove/get/exists/get_for_use for every name of {a,b,c,x,y}, get_all_command_names; every transition is compared with the model (name table + alias table consulted first; an accepted registration drops an alias equal to the new name; removal drops exactly the aliases that point to the removed command): result of the call, refused registrations and lookups leave both public maps identical, every lookup of the universe agrees, no alias points to a missing command. Part B: every sequence of 1..k script-level operations (alias / unalias / remove_command / is_command_defined / fn definition / call, over the names x, y, echo and std::Echo) run as one script on the full standard library; outputs of every step and the final name and alias tables of the whole registry are compared with the same model. evaluations = transitions + scripts. Scale case: a registry of 300/3000 (thorough 30000) commands with two aliases each: every name and alias resolves to its own command, refused registrations leave no trace, removing every second command (by name or alias) leaves exactly the others. While functions run: remove_command / unalias / alias of the running function, its caller, a function that is not running and an sdk command, issued from a function called by another one: the registry follows at once and both invocations finish. The long history keeps a model of both tables (compared after every removal up to 200), with a command registered under the name of an existing alias first; sizes at the thresholds. Spelling registry: every ordered pair of 14 spellings of one name (white space or line ends behind / in front, other case, a Cyrillic look-alike, separators) as a command name and as an alias: exists / get / get_for_use answer for the registered spelling only, a second registration is accepted iff the spelling is free, remove of another spelling removes nothing Dictionary names: 45 names that read like something an implementation keeps for itself (nesting, depth, count, stack, state, ALIAS_STATE, handles, scope_stack, call_stack_depth, ...) as an alias (defined, used twice, removed, removed again) and as a function (unalias directly and through an alias of unalias leaves it; an alias of it runs it and is removed on its own).";
pub const ASSUMPTIONS: &[&str] = &["unalias of a name that was once created with alias removes whatever command that name resolves to now (the implementation's bookkeeping is mirrored)", "a function defined twice in one script is refused by the function table, not the registry"];
pub const EXHAUSTIVE: bool = true;
pub const WALL_CAP_S: (u64, u64) = (55, 1500);
