//! C14 — including files is equivalent to pasting them in place, with provenance kept.
//! Engine E3: every acyclic include structure over four files in nested directories (fan-out <= 2,
//! directive at first/middle/last line, one file / two files / the same file twice, relative and
//! absolute paths), with faults planted at every include edge and every (file, line).

use crate::engine::*;
use crate::util::*;
use duckscript::parser;
use duckscript::runner;
use duckscript::types::command::CommandResult;
use duckscript::types::error::ScriptError;
use duckscript::types::instruction::InstructionType;
use serde_json::{json, Value};
use std::cell::RefCell;
use std::path::{Path, PathBuf};
use std::rc::Rc;

const FILES: [&str; 4] = ["r.ds", "d1/a.ds", "d1/d2/b.ds", "c.ds"];
const BODY_LINES: usize = 5;

#[derive(Clone, Debug, PartialEq, Eq, Hash)]
struct Spec {
    /// included file indexes (0..=2 entries), all listed in one directive
    includes: Vec<usize>,
    /// 0 first, 1 middle, 2 last
    pos: u8,
}

#[derive(Clone, Debug, PartialEq, Eq, Hash)]
struct Tree {
    specs: Vec<Spec>,
    /// 0: ./relative  1: plain relative  2: absolute
    style: u8,
}

#[derive(Clone, Debug, PartialEq)]
enum Fault {
    None,
    /// the k-th include edge (in order of file index, argument index) points to a file that is missing
    Missing(usize, usize),
    Malformed(usize, usize),
    Error(usize, usize),
    /// two faults: the given one (in an included file) and a malformed last body line of the root file;
    /// the parse must report whichever comes first in the pasted text
    AndRootTail(Box<Fault>),
    /// two handled errors: a trigger_error at (file, line) of an included file and one at the last body
    /// line of the root file; the last-error queries at the end speak of whichever ran last
    ErrorAndRootTailError(usize, usize),
}

impl Fault {
    /// the fault that planting is about in file texts (the wrapped one for a pair)
    fn inner(&self) -> &Fault {
        match self {
            Fault::AndRootTail(f) => f,
            f => f,
        }
    }
}

fn rel_path(from_file: usize, to_file: usize, style: u8, root: &Path) -> String {
    let from_dir: Vec<&str> = {
        let mut p: Vec<&str> = FILES[from_file].split('/').collect();
        p.pop();
        p
    };
    let to: Vec<&str> = FILES[to_file].split('/').collect();
    if style == 2 {
        return root.join(FILES[to_file]).to_string_lossy().to_string();
    }
    // common prefix
    let mut k = 0;
    while k < from_dir.len() && k < to.len() - 1 && from_dir[k] == to[k] {
        k += 1;
    }
    let mut parts: Vec<String> = vec![];
    for _ in k..from_dir.len() {
        parts.push("..".into());
    }
    for t in &to[k..] {
        parts.push(t.to_string());
    }
    let p = parts.join("/");
    if style == 0 && !p.starts_with("..") {
        format!("./{}", p)
    } else {
        p
    }
}

/// own lines of a file (1-based numbering = index + 1); the directive, if any, sits at `dir_line`
struct FileText {
    lines: Vec<String>,
    dir_line: Option<usize>,
}

fn file_text(fi: usize, tree: &Tree, fault: &Fault, root: &Path) -> FileText {
    let tag = ["r", "a", "b", "c"][fi];
    let mut lines: Vec<String> = (0..BODY_LINES)
        .map(|n| match n {
            // a jump to the label on the next line: label positions are counted in the spliced instruction
            // list, directives included
            // (in the root file only: an included file may be included twice, and duplicate labels are
            // another subject)
            1 if fi == 0 => format!("goto :l_{}", tag),
            1 => String::new(),
            2 if fi == 0 => format!(":l_{} v_{} = set {}{}", tag, tag, tag, n),
            2 => format!("v_{} = set {}{}", tag, tag, n),
            3 => format!("  # a comment in {}", tag),
            _ => format!("emit {}{}", tag, n),
        })
        .collect();
    let spec = &tree.specs[fi];
    let mut dir_line = None;
    if !spec.includes.is_empty() {
        let args: Vec<String> = spec
            .includes
            .iter()
            .enumerate()
            .map(|(ai, &t)| {
                let mut p = rel_path(fi, t, tree.style, root);
                if *fault.inner() == Fault::Missing(fi, ai) {
                    p = p.replace(".ds", "_missing.ds");
                }
                p
            })
            .collect();
        let d = format!("!include_files {}", args.join(" "));
        let at = match spec.pos {
            0 => 0,
            1 => 3,
            _ => lines.len(),
        };
        lines.insert(at, d);
        dir_line = Some(at);
    }
    if fi == 0 && matches!(fault, Fault::ErrorAndRootTailError(_, _)) {
        let idx = body_index(BODY_LINES - 1, dir_line);
        lines[idx] = "o2 = trigger_error boom2".to_string();
    }
    if let Fault::ErrorAndRootTailError(f, l) = fault {
        if *f == fi {
            let idx = body_index(*l, dir_line);
            lines[idx] = "o = trigger_error boom".to_string();
        }
    }
    if fi == 0 && matches!(fault, Fault::AndRootTail(_)) {
        let idx = body_index(BODY_LINES - 1, dir_line);
        lines[idx] = "emit \"unterminated".to_string();
    }
    match fault.inner() {
        Fault::Malformed(f, l) if *f == fi => {
            let idx = body_index(*l, dir_line);
            lines[idx] = "emit \"unterminated".to_string();
        }
        Fault::Error(f, l) if *f == fi => {
            let idx = body_index(*l, dir_line);
            lines[idx] = "o = trigger_error boom".to_string();
        }
        _ => (),
    }
    FileText { lines, dir_line }
}

/// index in `lines` of the l-th body line (0-based among non-directive lines)
fn body_index(l: usize, dir_line: Option<usize>) -> usize {
    match dir_line {
        Some(d) if l >= d => l + 1,
        _ => l,
    }
}

fn reachable(tree: &Tree) -> Vec<bool> {
    let mut r = vec![false; 4];
    fn go(i: usize, t: &Tree, r: &mut Vec<bool>) {
        if r[i] {
            return;
        }
        r[i] = true;
        for &c in &t.specs[i].includes {
            go(c, t, r);
        }
    }
    go(0, tree, &mut r);
    r
}

/// (text line, file index, 1-based line in that file) of the pasted program, directives removed
fn pasted(fi: usize, texts: &[FileText], tree: &Tree, out: &mut Vec<(String, usize, usize)>) {
    for (i, l) in texts[fi].lines.iter().enumerate() {
        if Some(i) == texts[fi].dir_line {
            for &c in &tree.specs[fi].includes {
                pasted(c, texts, tree, out);
            }
        } else {
            out.push((l.clone(), fi, i + 1));
        }
    }
}

struct Rig {
    ctx: duckscript::types::runtime::Context,
    emits: Rc<RefCell<Vec<String>>>,
}

impl Rig {
    fn new() -> Rig {
        let mut ctx = sdk_context();
        let emits: Rc<RefCell<Vec<String>>> = Rc::new(RefCell::new(vec![]));
        let e = emits.clone();
        ctx.commands
            .set(fn_command("emit", move |c| {
                e.borrow_mut().push(c.arguments.join(" "));
                CommandResult::Continue(None)
            }))
            .unwrap();
        Rig { ctx, emits }
    }
}

fn same_file(a: &str, b: &Path) -> bool {
    match (std::fs::canonicalize(a), std::fs::canonicalize(b)) {
        (Ok(x), Ok(y)) => x == y,
        _ => false,
    }
}

fn check(rig: &Rig, tree: &Tree, fault: &Fault, dir: &Path) -> Result<u64, (String, String)> {
    let _ = std::fs::remove_dir_all(dir);
    std::fs::create_dir_all(dir.join("d1/d2")).map_err(|e| ("harness-io".to_string(), e.to_string()))?;
    let texts: Vec<FileText> = (0..4).map(|i| file_text(i, tree, fault, dir)).collect();
    for (i, t) in texts.iter().enumerate() {
        std::fs::write(dir.join(FILES[i]), t.lines.join("\n")).map_err(|e| ("harness-io".to_string(), e.to_string()))?;
    }
    let root = dir.join(FILES[0]).to_string_lossy().to_string();
    let mut flat = vec![];
    pasted(0, &texts, tree, &mut flat);
    let parsed = guarded(|| parser::parse_file(&root)).map_err(|p| ("panic".to_string(), p))?;
    // of two faults the one that comes first in the pasted text is reported: everything below the
    // root's directive comes before the root's last body line unless the directive is the last line
    let effective = match fault {
        Fault::AndRootTail(inner) => {
            if tree.specs[0].pos == 2 {
                Fault::Malformed(0, BODY_LINES - 1)
            } else {
                (**inner).clone()
            }
        }
        f => f.clone(),
    };
    let fault = &effective;
    match fault {
        Fault::Missing(f, a) => {
            // which file is reported: the first missing edge met in paste order is this one by construction
            let target = tree.specs[*f].includes[*a];
            let missing_name = Path::new(FILES[target]).file_name().unwrap().to_string_lossy().replace(".ds", "_missing.ds");
            return match parsed {
                Err(ScriptError::ErrorReadingFile(file, _)) => {
                    if Path::new(&file).file_name().map(|n| n.to_string_lossy().to_string()) == Some(missing_name.clone()) {
                        Ok(hash64(&("missing", f, a)))
                    } else {
                        Err(("missing-file:wrong-name".into(), format!("ErrorReadingFile names {:?}, expected {:?}", file, missing_name)))
                    }
                }
                Err(e) => Err(("missing-file:wrong-error".into(), format!("{}", e))),
                Ok(_) => Err(("missing-file:accepted".into(), "parse_file succeeded although an included file does not exist".into())),
            };
        }
        Fault::Malformed(f, l) => {
            let line = body_index(*l, texts[*f].dir_line) + 1;
            return match parsed {
                Err(e) => {
                    if err_kind(&e) != "MissingEndQuotes" {
                        return Err(("malformed:wrong-kind".into(), format!("{}", e)));
                    }
                    if err_line(&e) != Some(line) {
                        return Err(("malformed:wrong-line".into(), format!("reported line {:?}, the malformed line is line {} of {}", err_line(&e), line, FILES[*f])));
                    }
                    match err_source(&e) {
                        Some(s) if same_file(&s, &dir.join(FILES[*f])) => Ok(hash64(&("malformed", f, l))),
                        other => Err(("malformed:wrong-file".into(), format!("reported source {:?}, the malformed line is in {}", other, FILES[*f]))),
                    }
                }
                Ok(_) => Err(("malformed:accepted".into(), "parse_file accepted a malformed included line".into())),
            };
        }
        _ => (),
    }
    let instrs = match parsed {
        Ok(v) => v,
        Err(e) => return Err(("parse-failed".into(), format!("parse_file failed: {}", e))),
    };
    // (i) + (ii): instructions minus directives == pasted text, with provenance
    let body: Vec<_> = instrs.iter().filter(|i| !matches!(i.instruction_type, InstructionType::PreProcess(_))).collect();
    let pasted_text = flat.iter().map(|(l, _, _)| l.as_str()).collect::<Vec<_>>().join("\n");
    let reference = parser::parse_text(&pasted_text).map_err(|e| ("harness".to_string(), format!("pasted text does not parse: {}", e)))?;
    if body.len() != reference.len() {
        return Err(("paste:instruction-count".into(), format!("{} instructions from parse_file, {} from the pasted text", body.len(), reference.len())));
    }
    for (k, (a, b)) in body.iter().zip(reference.iter()).enumerate() {
        if plain(a) != plain(b) {
            return Err(("paste:instruction-differs".into(), format!("instruction {}: {} vs pasted {}", k, pi_json(&plain(a)), pi_json(&plain(b)))));
        }
        let (_, fi, line) = &flat[k];
        if a.meta_info.line != Some(*line) {
            return Err(("provenance:line".into(), format!("instruction {} ({}) carries line {:?}, it is line {} of {}", k, flat[k].0, a.meta_info.line, line, FILES[*fi])));
        }
        match &a.meta_info.source {
            Some(s) if same_file(s, &dir.join(FILES[*fi])) => (),
            other => return Err(("provenance:file".into(), format!("instruction {} ({}) carries source {:?}, it comes from {}", k, flat[k].0, other, FILES[*fi]))),
        }
    }
    // the directives themselves stay in place with their own provenance
    for i in instrs.iter().filter(|i| matches!(i.instruction_type, InstructionType::PreProcess(_))) {
        if i.meta_info.source.is_none() || i.meta_info.line.is_none() {
            return Err(("provenance:directive".into(), "a directive instruction without source/line".into()));
        }
    }
    // (iii) running both
    let run = |file: bool| -> Result<(Vec<String>, std::collections::BTreeMap<String, String>, Option<String>), String> {
        rig.emits.borrow_mut().clear();
        let (env, _o, _e, _h) = quiet_env();
        let text = format!("{}\nel = get_last_error_line\nes = get_last_error_source", pasted_text);
        let r = if file {
            // probes appended to the root file
            let mut t = texts[0].lines.join("\n");
            t.push_str("\nel = get_last_error_line\nes = get_last_error_source");
            std::fs::write(dir.join(FILES[0]), t).map_err(|e| e.to_string())?;
            runner::run_script_file(&root, rig.ctx.clone(), Some(env))
        } else {
            runner::run_script(&text, rig.ctx.clone(), Some(env))
        };
        match r {
            Ok(c) => {
                let mut v = sorted_vars(&c.variables);
                let es = v.remove("es");
                let el = v.remove("el");
                if let Some(l) = el {
                    v.insert("el".into(), l);
                }
                Ok((rig.emits.borrow().clone(), v, es))
            }
            Err(e) => Err(e.to_string()),
        }
    };
    let from_file = guarded(|| run(true)).map_err(|p| ("panic".to_string(), p))?.map_err(|e| ("run-file-failed".to_string(), e))?;
    let from_text = guarded(|| run(false)).map_err(|p| ("panic".to_string(), p))?.map_err(|e| ("run-text-failed".to_string(), e))?;
    if from_file.0 != from_text.0 {
        return Err(("run:trace-differs".into(), format!("emits from the file {:?}, from the pasted text {:?}", from_file.0, from_text.0)));
    }
    let mut fv = from_file.1.clone();
    let mut tv = from_text.1.clone();
    let fel = fv.remove("el");
    tv.remove("el");
    if fv != tv {
        return Err(("run:variables-differ".into(), format!("variables from the file {:?}, from the pasted text {:?}", fv, tv)));
    }
    // of two handled errors the later one is the last error: everything below the root's directive runs
    // before the root's last body line unless the directive is the last line
    let last_error = match fault {
        Fault::ErrorAndRootTailError(f, l) => {
            if tree.specs[0].pos == 2 {
                Some(Fault::Error(*f, *l))
            } else {
                Some(Fault::Error(0, BODY_LINES - 1))
            }
        }
        Fault::Error(f, l) => Some(Fault::Error(*f, *l)),
        _ => None,
    };
    if let Some(Fault::Error(f, l)) = &last_error {
        let line = body_index(*l, texts[*f].dir_line) + 1;
        if fel != Some(line.to_string()) {
            return Err(("error:wrong-line".into(), format!("get_last_error_line {:?}, the failing line is line {} of {}", fel, line, FILES[*f])));
        }
        match &from_file.2 {
            Some(s) if same_file(s, &dir.join(FILES[*f])) => (),
            other => return Err(("error:wrong-file".into(), format!("get_last_error_source {:?}, the failing line is in {}", other, FILES[*f]))),
        }
    }
    Ok(hash64(&(reachable(tree).iter().filter(|x| **x).count(), flat.len(), tree.style)))
}

fn specs_for(fi: usize, order: &[usize]) -> Vec<Spec> {
    // a file may include only files later in `order`
    let later: Vec<usize> = order.iter().skip_while(|x| **x != fi).skip(1).cloned().collect();
    let mut v = vec![Spec { includes: vec![], pos: 0 }];
    for pos in 0..3u8 {
        for a in &later {
            v.push(Spec { includes: vec![*a], pos });
            for b in &later {
                v.push(Spec { includes: vec![*a, *b], pos });
            }
        }
    }
    v
}

pub fn bounds(tier: Tier) -> Value {
    match tier {
        Tier::Quick => json!({"files": 4, "directory_depth": 3, "fan_out": 2, "orders": 2, "path_styles": 3, "faults_on_every_nth_tree": 5}),
        Tier::Thorough => json!({"files": 4, "directory_depth": 3, "fan_out": 2, "orders": 2, "path_styles": 3, "faults_on_every_nth_tree": 1}),
    }
}

fn tree_json(t: &Tree, fault: &Fault) -> Value {
    json!({"style": t.style, "specs": t.specs.iter().map(|s| json!({"includes": s.includes, "pos": s.pos})).collect::<Vec<_>>(), "fault": format!("{:?}", fault)})
}


/// Include structures far deeper, wider and longer than the four-file trees: a chain of files each
/// including the next, one directive listing many files, an included file with thousands of lines.
/// `kind`: "chain" | "wide" | "long"; the expected list of (text, file, line) is built alongside the files.
fn scale_check(kind: &str, n: usize, dir: &Path) -> Result<(), (String, String)> {
    let _ = std::fs::remove_dir_all(dir);
    std::fs::create_dir_all(dir.join("sub")).map_err(|e| ("harness-io".to_string(), e.to_string()))?;
    let mut expect: Vec<(String, String, usize)> = vec![];
    let write = |name: &str, text: String| std::fs::write(dir.join(name), text).map_err(|e| ("harness-io".to_string(), e.to_string()));
    match kind {
        "chain" => {
            // f0 includes sub/f1 includes f2 (relative to sub) ...: directories alternate
            let name = |i: usize| if i % 2 == 1 { format!("sub/f{}.ds", i) } else { format!("f{}.ds", i) };
            let rel = |from: usize, to: usize| if from % 2 == 0 { format!("./{}", name(to)) } else { format!("../{}", name(to)) };
            for i in 0..=n {
                let mut lines = vec![format!("emit top{}", i)];
                if i < n {
                    lines.push(format!("!include_files {}", rel(i, i + 1)));
                } else {
                    lines.push("# the end of the chain".into());
                }
                lines.push(format!("emit bottom{}", i));
                write(&name(i), lines.join("\n"))?;
            }
            for i in 0..=n {
                expect.push((format!("top{}", i), name(i), 1));
            }
            for i in (0..=n).rev() {
                expect.push((format!("bottom{}", i), name(i), 3));
            }
        }
        "twins" => {
            // files whose names differ only in letter case are different files (n is ignored)
            let names = ["f0.ds", "sub/Util.ds", "sub/util.ds", "sub/UTIL.ds", "Sub.ds"];
            let rel = ["./sub/Util.ds", "./util.ds", "./UTIL.ds", "../Sub.ds"];
            for i in 0..names.len() {
                let mut lines = vec![format!("emit top{}", i)];
                if i + 1 < names.len() {
                    lines.push(format!("!include_files {}", rel[i]));
                } else {
                    lines.push("# the end".into());
                }
                lines.push(format!("emit bottom{}", i));
                write(names[i], lines.join("\n"))?;
            }
            for (i, nm) in names.iter().enumerate() {
                expect.push((format!("top{}", i), nm.to_string(), 1));
            }
            for (i, nm) in names.iter().enumerate().rev() {
                expect.push((format!("bottom{}", i), nm.to_string(), 3));
            }
        }
        "wide" => {
            let names: Vec<String> = (1..=n).map(|i| format!("sub/w{}.ds", i)).collect();
            write("f0.ds", format!("emit before\n!include_files {}\nemit after", names.iter().map(|x| format!("./{}", x)).collect::<Vec<_>>().join(" ")))?;
            expect.push(("before".into(), "f0.ds".into(), 1));
            for (i, nm) in names.iter().enumerate() {
                let pad = i % 4;
                write(nm, format!("{}emit w{}", "\n".repeat(pad), i + 1))?;
                expect.push((format!("w{}", i + 1), nm.clone(), pad + 1));
            }
            expect.push(("after".into(), "f0.ds".into(), 3));
        }
        "revisit" => {
            // n files included one directive after the other, then again: forwards, backwards, every
            // third one, and from a file in the other directory under another spelling of the path
            let names: Vec<String> = (1..=n).map(|i| format!("sub/r{}.ds", i)).collect();
            for (i, nm) in names.iter().enumerate() {
                write(nm, format!("emit r{}", i + 1))?;
            }
            let mut order: Vec<usize> = (0..n).collect();
            order.extend(0..n);
            order.extend((0..n).rev());
            order.extend((0..n).step_by(3));
            let mut lines = vec!["emit before".to_string()];
            expect.push(("before".into(), "f0.ds".into(), 1));
            for &i in &order {
                lines.push(format!("!include_files ./{}", names[i]));
                expect.push((format!("r{}", i + 1), names[i].clone(), 1));
            }
            lines.push("!include_files ./sub/again.ds".to_string());
            let mut again = vec![];
            for i in 0..n {
                again.push(format!("!include_files ./r{}.ds ../sub/r{}.ds", i + 1, n - i));
                expect.push((format!("r{}", i + 1), names[i].clone(), 1));
                expect.push((format!("r{}", n - i), names[n - i - 1].clone(), 1));
            }
            write("sub/again.ds", again.join("\n"))?;
            lines.push("emit after".to_string());
            expect.push(("after".into(), "f0.ds".into(), lines.len()));
            write("f0.ds", lines.join("\n"))?;
        }
        _ => {
            write("f0.ds", "emit before\n!include_files ./sub/long.ds\nemit after".to_string())?;
            expect.push(("before".into(), "f0.ds".into(), 1));
            let mut lines = vec![];
            for k in 1..=n {
                lines.push(format!("emit L{}", k));
                expect.push((format!("L{}", k), "sub/long.ds".into(), k));
            }
            write("sub/long.ds", lines.join("\n"))?;
            expect.push(("after".into(), "f0.ds".into(), 3));
        }
    }
    let root = dir.join("f0.ds").to_string_lossy().to_string();
    let parsed = guarded(|| parser::parse_file(&root)).map_err(|p| ("scale:panic".to_string(), p))?;
    let instrs = parsed.map_err(|e| (format!("scale:{}:parse-failed", kind), format!("{} {}: parse_file failed: {}", kind, n, e)))?;
    let got: Vec<_> = instrs
        .iter()
        .filter_map(|i| match &i.instruction_type {
            InstructionType::Script(s) if s.command.as_deref() == Some("emit") => Some((s.arguments.clone().unwrap_or_default().join(" "), i.meta_info.source.clone().unwrap_or_default(), i.meta_info.line.unwrap_or(0))),
            _ => None,
        })
        .collect();
    if got.len() != expect.len() {
        return Err((format!("scale:{}:instruction-count", kind), format!("{} {}: {} emit instructions, expected {}", kind, n, got.len(), expect.len())));
    }
    for (k, (g, e)) in got.iter().zip(expect.iter()).enumerate() {
        if g.0 != e.0 || g.2 != e.2 || !same_file(&g.1, &dir.join(&e.1)) {
            return Err((format!("scale:{}:instruction-differs", kind), format!("{} {}: instruction {} is {:?}, expected {:?}", kind, n, k, g, e)));
        }
    }
    Ok(())
}

fn scale(w: &mut Worker) {
    let dir: PathBuf = w.scratch.join("c14-scale");
    let sizes: Vec<(&str, usize)> = w.tier.pick(
        vec![("chain", 12), ("chain", 40), ("chain", 150), ("twins", 5), ("wide", 12), ("wide", 100), ("wide", 1000), ("wide", 3000), ("long", 5000), ("long", 24000), ("revisit", 2), ("revisit", 5), ("revisit", 9), ("revisit", 17), ("revisit", 33), ("revisit", 100), ("revisit", 300)],
        vec![("chain", 12), ("chain", 40), ("chain", 150), ("twins", 5), ("wide", 12), ("wide", 100), ("wide", 1000), ("long", 5000), ("long", 200_000), ("revisit", 2), ("revisit", 5), ("revisit", 9), ("revisit", 17), ("revisit", 33), ("revisit", 100), ("revisit", 300), ("revisit", 1025)],
    );
    for (kind, n) in sizes {
        if !w.take() {
            continue;
        }
        let cj = json!({"kind": "scale", "shape": kind, "n": n});
        w.begin(|| cj.clone());
        w.add_transitions(1);
        match scale_check(kind, n, &dir) {
            Ok(()) => w.pass(true, hash64(&("scale", kind))),
            Err((sig, what)) => w.fail(&sig, &what, cj),
        }
    }
    let _ = std::fs::remove_dir_all(&dir);
}

type PrintShape = (&'static str, Vec<(&'static str, Vec<&'static str>)>);

fn print_shapes() -> Vec<PrintShape> {
    // name -> lines; an entry `>a b` is a directive including those files
    vec![
        ("once", vec![("root", vec!["!print root top", ">lib", "echo root runs"]), ("lib", vec!["!print lib parsed", "echo lib runs"])]),
        ("twice-two-lines", vec![("root", vec![">lib", "!print root middle", ">lib", "echo root runs"]), ("lib", vec!["!print lib parsed", "echo lib runs"])]),
        ("twice-one-line", vec![("root", vec![">lib lib", "echo root runs"]), ("lib", vec!["!print lib parsed", "echo lib runs"])]),
        ("three-times", vec![("root", vec![">lib", ">lib lib", "echo root runs"]), ("lib", vec!["!print lib parsed"])]),
        (
            "diamond",
            vec![("root", vec![">a", ">b", "echo root runs"]), ("a", vec!["!print a parsed", ">common", "echo a runs"]), ("b", vec![">common", "!print b parsed", "echo b runs"]), ("common", vec!["!print common parsed", "echo common runs"])],
        ),
        ("nested-twice", vec![("root", vec![">a a", "echo root runs"]), ("a", vec!["!print a parsed", ">common"]), ("common", vec!["!print common parsed", "echo common runs"])]),
        ("print-below-only", vec![("root", vec![">a", ">a"]), ("a", vec![">common"]), ("common", vec!["!print deep one", "!print deep two"])]),
        ("other-between", vec![("root", vec![">lib", ">other", ">lib"]), ("lib", vec!["!print lib parsed"]), ("other", vec!["!print other parsed", ">lib"])]),
    ]
}

/// writes the files of one shape and the pasted script; returns the pasted lines and both paths
fn write_print_shape(files: &[(&str, Vec<&str>)], style: u8, dir: &Path) -> (Vec<String>, String, String) {
    let _ = std::fs::remove_dir_all(dir);
    let _ = std::fs::create_dir_all(dir);
    let path_of = |n: &str| if style == 0 { format!("./{}.ds", n) } else { dir.join(format!("{}.ds", n)).to_string_lossy().to_string() };
    for (name, lines) in files {
        let text: Vec<String> = lines
            .iter()
            .map(|l| match l.strip_prefix('>') {
        Some(list) => format!("!include_files {}", list.split(' ').map(|n| path_of(n)).collect::<Vec<_>>().join(" ")),
        None => l.to_string(),
            })
            .collect();
        std::fs::write(dir.join(format!("{}.ds", name)), text.join("\n")).expect("write");
    }
    fn paste(name: &str, files: &[(&str, Vec<&str>)], out: &mut Vec<String>) {
        let lines = &files.iter().find(|(n, _)| *n == name).expect("file of the shape").1;
        for l in lines {
            match l.strip_prefix('>') {
        Some(list) => {
            for n in list.split(' ') {
                paste(n, files, out);
            }
        }
        None => out.push(l.to_string()),
            }
        }
    }
    let mut flat = vec![];
    paste("root", files, &mut flat);
    std::fs::write(dir.join("pasted.ds"), flat.join("\n")).expect("write");
    let root = dir.join("root.ds").to_string_lossy().to_string();
    let pasted = dir.join("pasted.ds").to_string_lossy().to_string();
    (flat, root, pasted)
}

/// Blocks that are opened in one file and closed in another: the pasted script is one well-nested
/// program, so the include structure runs like it - whether the directive is the last line of its
/// file or not, whichever side of the directive the block opens on.
fn block_shapes() -> Vec<PrintShape> {
    vec![
        ("if-closed-in-included-directive-last", vec![("root", vec!["a = set 1", "if true", "b = set 2", ">close"]), ("close", vec!["c = set 3", "end", "d = set after"])]),
        ("if-closed-in-included-then-more", vec![("root", vec!["if true", "b = set 2", ">close", "e = set more"]), ("close", vec!["c = set 3", "end"])]),
        ("if-closed-in-included-comment-behind", vec![("root", vec!["if true", "b = set 2", ">close", "# the end"]), ("close", vec!["end", "d = set after"])]),
        ("if-false-closed-in-included", vec![("root", vec!["if false", "b = set never", ">close"]), ("close", vec!["c = set never", "else", "c = set other", "end", "d = set after"])]),
        ("if-opened-in-included", vec![("root", vec![">open", "b = set 2", "end", "d = set after"]), ("open", vec!["a = set 1", "if true"])]),
        ("if-opened-in-one-closed-in-another", vec![("root", vec![">open", "b = set 2", ">close"]), ("open", vec!["if true"]), ("close", vec!["end", "d = set after"])]),
        ("while-closed-in-included", vec![("root", vec!["i = set 0", "while less_than ${i} 3", "i = calc ${i} + 1", ">close"]), ("close", vec!["j = set ${i}", "end", "d = set after"])]),
        ("for-closed-in-included", vec![("root", vec!["arr = array a b c", "t = set \"\"", "for x in ${arr}", ">close"]), ("close", vec!["t = set \"${t}${x}\"", "end", "release ${arr}", "d = set after"])]),
        ("fn-closed-in-included", vec![("root", vec!["fn f", "r = set ${1}!", ">close"]), ("close", vec!["return ${r}", "end", "o = f v", "d = set after"])]),
        ("nested-closed-two-levels-down", vec![("root", vec!["i = set 0", "while less_than ${i} 2", "i = calc ${i} + 1", "if true", ">mid"]), ("mid", vec!["k = set ${i}", ">close"]), ("close", vec!["end", "end", "d = set after"])]),
        // a file that defines a function, reached twice: the pasted script defines it twice (the second
        // definition is refused and its body runs in line), and so does the include structure
        ("fn-in-file-included-twice", vec![("root", vec!["cnt = set 0", ">lib", ">lib", "o = f", "d = set after"]), ("lib", vec!["fn f", "cnt = calc ${cnt} + 1", "return ${cnt}", "end"])]),
        ("fn-in-file-included-twice-one-line", vec![("root", vec!["cnt = set 0", ">lib lib", "o = f", "d = set after"]), ("lib", vec!["fn f", "cnt = calc ${cnt} + 1", "return ${cnt}", "end"])]),
        ("fn-in-diamond", vec![("root", vec!["cnt = set 0", ">lib", ">sub", "o = f", "d = set after"]), ("sub", vec!["s = set 1", ">lib"]), ("lib", vec!["fn f", "cnt = calc ${cnt} + 1", "return ${cnt}", "end"])]),
        ("scoped-fn-in-file-included-twice", vec![("root", vec!["cnt = set 0", ">lib", ">lib", "o = g x", "d = set after"]), ("lib", vec!["fn <scope> g", "t = set ${1}${1}", "return ${t}", "end", "cnt = calc ${cnt} + 1"])]),
        ("alias-in-file-included-twice", vec![("root", vec!["cnt = set 0", ">lib", ">lib", "o = hello", "d = set after"]), ("lib", vec!["r${cnt} = alias hello set hi", "cnt = calc ${cnt} + 1"])]),
        ("label-in-file-included-twice", vec![("root", vec!["cnt = set 0", ">lib", ">lib", "d = set after"]), ("lib", vec!["cnt = calc ${cnt} + 1", "if less_than ${cnt} 5", "goto :again", "end", ":again x = set ${cnt}"])]),
        // files that hold nothing (zero bytes), a blank, only a comment, listed first / between / last in a
        // directive with other files: pasting nothing changes nothing around it
        ("empty-file-first", vec![("root", vec![">empty after", "d = set ${x}"]), ("empty", vec![]), ("after", vec!["x = set included"])]),
        ("empty-file-between", vec![("root", vec![">first empty after", "d = set ${w}${x}"]), ("first", vec!["w = set one"]), ("empty", vec![]), ("after", vec!["x = set two"])]),
        ("empty-file-last", vec![("root", vec![">first empty", "d = set ${w}"]), ("first", vec!["w = set one"]), ("empty", vec![])]),
        ("empty-file-alone-then-directive", vec![("root", vec![">empty", ">after", "d = set ${x}"]), ("empty", vec![]), ("after", vec!["x = set two"])]),
        ("blank-file-between", vec![("root", vec![">first blank after", "d = set ${w}${x}"]), ("first", vec!["w = set one"]), ("blank", vec![" "]), ("after", vec!["x = set two"])]),
        ("comment-file-between", vec![("root", vec![">first note after", "d = set ${w}${x}"]), ("first", vec!["w = set one"]), ("note", vec!["# nothing here"]), ("after", vec!["x = set two"])]),
        ("empty-file-in-nested-directive", vec![("root", vec![">mid", "d = set ${w}${x}"]), ("mid", vec![">empty first", "x = set two"]), ("empty", vec![]), ("first", vec!["w = set one"])]),
        ("else-in-included", vec![("root", vec!["if false", "b = set never", ">mid", "c = set other", "end", "d = set after"]), ("mid", vec!["else"])]),
    ]
}

fn blocks_across_files(w: &mut Worker) {
    let dir: PathBuf = w.scratch.join("c14-blocks");
    for (shape, files) in &block_shapes() {
        for style in 0..2u8 {
            if !w.take() {
                continue;
            }
            let cj = json!({"kind": "blocks-across-files", "shape": shape, "path_style": if style == 0 { "relative" } else { "absolute" }});
            w.begin(|| cj.clone());
            w.add_transitions(2);
            match blocks_case(files, style, &dir) {
                Ok(()) => w.pass(true, hash64(&("blocks-across-files", *shape))),
                Err((sig, what)) => w.fail(&sig, &format!("{}: {}", shape, what), cj),
            }
        }
    }
    let _ = std::fs::remove_dir_all(&dir);
}

fn blocks_case(files: &[(&str, Vec<&str>)], style: u8, dir: &Path) -> Result<(), (String, String)> {
    let (flat, root, _pasted) = write_print_shape(files, style, dir);
    let run = |file: Option<&str>, text: &str| -> Result<std::collections::BTreeMap<String, String>, String> {
        let (env, _o, _e, _h) = quiet_env();
        let r = guarded(|| match file {
            Some(f) => duckscript::runner::run_script_file(f, sdk_context(), Some(env)),
            None => duckscript::runner::run_script(text, sdk_context(), Some(env)),
        });
        match r {
            Err(p) => Err(format!("panic: {}", p)),
            Ok(Err(e)) => Err(format!("failed: {}", e)),
            Ok(Ok(c)) => Ok(c.variables.into_iter().map(|(k, v)| (k, if is_handle_text(&v) { "<handle>".to_string() } else { v })).collect()),
        }
    };
    let pasted = run(None, &flat.join("\n"));
    let structure = run(Some(&root), "");
    match (&pasted, &structure) {
        (Err(e), _) => Err(("harness:blocks-across-files".into(), format!("the pasted script {:?} {}", flat, e))),
        (Ok(p), Ok(s)) if p == s => Ok(()),
        (Ok(p), Ok(s)) => Err(("blocks-across-files:variables-differ".into(), format!("the include structure ends with {:?}, the pasted script with {:?}", s, p))),
        (Ok(_), Err(e)) => Err(("blocks-across-files:run-failed".into(), format!("the pasted script runs, the include structure {}", e))),
    }
}

/// A script started through a RELATIVE path, with includes that climb above the working directory:
/// every relative include is resolved against the directory of the file that holds the directive (files
/// of the same name sit in the working directory and between, with other contents).
fn relative_invocation(w: &mut Worker) {
    let top: PathBuf = w.scratch.join("c14-rel");
    let mk = |rel: &str, text: &str| {
        let p = top.join(rel);
        let _ = std::fs::create_dir_all(p.parent().unwrap());
        std::fs::write(p, text).expect("write");
    };
    let _ = std::fs::remove_dir_all(&top);
    mk("shared.ds", "where = set two_levels_up");
    mk("work/shared.ds", "where = set one_level_up");
    mk("work/run/shared.ds", "where = set working_directory");
    mk("lib/a.ds", "!include_files ../shared.ds\nvia = set lib");
    mk("lib/shared.ds", "where = set lib_directory");
    mk("work/run/sub/deep.ds", "!include_files ../../../shared.ds\nvia = set deep");
    mk("work/run/main.ds", "!include_files ../../shared.ds\ndone = set yes");
    mk("work/run/chain.ds", "!include_files ../../lib/a.ds\ndone = set yes");
    mk("work/run/down_up.ds", "!include_files ./sub/deep.ds\ndone = set yes");
    mk("work/run/one_up.ds", "!include_files ../shared.ds\ndone = set yes");
    mk("work/run/zigzag.ds", "!include_files ../run/../../work/../shared.ds\ndone = set yes");
    let before = std::env::current_dir().ok();
    let cases: [(&str, &str, &str); 12] = [
        ("work/run", "main.ds", "two_levels_up"),
        ("work/run", "./main.ds", "two_levels_up"),
        ("work", "run/main.ds", "two_levels_up"),
        ("work/run", "chain.ds", "two_levels_up"),
        ("work/run", "down_up.ds", "two_levels_up"),
        ("work/run/sub", "../down_up.ds", "two_levels_up"),
        ("work/run", "one_up.ds", "one_level_up"),
        ("work/run", "zigzag.ds", "two_levels_up"),
        ("", "work/run/main.ds", "two_levels_up"),
        ("lib", "../work/run/chain.ds", "two_levels_up"),
        ("work/run/sub", "../../run/main.ds", "two_levels_up"),
        ("work/run", "../run/zigzag.ds", "two_levels_up"),
    ];
    for (cwd, root, expected) in cases {
        if !w.take() {
            continue;
        }
        let cj = json!({"kind": "relative-invocation", "cwd": cwd, "root": root});
        w.begin(|| cj.clone());
        w.add_transitions(1);
        if std::env::set_current_dir(top.join(cwd)).is_err() {
            w.fail("harness:chdir", "cannot enter the working directory", cj);
            continue;
        }
        let (env, _o, _e, _h) = quiet_env();
        let r = guarded(|| duckscript::runner::run_script_file(root, sdk_context(), Some(env)));
        match r {
            Err(p) => w.fail("panic", &p, cj),
            Ok(Err(e)) => w.fail("relative-invocation:run-failed", &format!("{} started in {:?}: {}", root, cwd, e), cj),
            Ok(Ok(c)) => {
                let got = c.variables.get("where").cloned();
                if got.as_deref() == Some(expected) && c.variables.get("done").map(|s| s.as_str()) == Some("yes") {
                    w.pass(true, hash64(&("relative-invocation", root)));
                } else {
                    w.fail("relative-invocation:wrong-file", &format!("{} started in {:?}: the include reached the file that says {:?}, the directive names the one that says {:?}", root, cwd, got, expected), cj);
                }
            }
        }
    }
    // an include that names a file which is NOT there (relative to the including file) fails the parse with
    // that file's name - also when a file of the same relative name can be reached from the working
    // directory, or from the directory of the root script
    mk("miss/main.ds", "!include_files ./lib/a.ds\ndone = set yes");
    mk("miss/lib/a.ds", "!include_files lib/util.ds\nvia = set a");
    mk("miss/lib/util.ds", "where = set decoy_next_to_the_root");
    mk("miss/direct.ds", "!include_files nothere/util.ds\ndone = set yes");
    mk("miss/cwd/nothere/util.ds", "where = set decoy_in_the_working_directory");
    mk("miss/cwd/lib/util.ds", "where = set decoy_in_the_working_directory");
    for (cwd, root, missing) in [
        ("miss", "main.ds", "lib/lib/util.ds"),
        ("miss", "./main.ds", "lib/lib/util.ds"),
        ("", "miss/main.ds", "lib/lib/util.ds"),
        ("miss/cwd", "../main.ds", "lib/lib/util.ds"),
        ("miss/cwd", "../direct.ds", "nothere/util.ds"),
        ("miss", "direct.ds", "nothere/util.ds"),
    ] {
        if !w.take() {
            continue;
        }
        let cj = json!({"kind": "relative-invocation-missing", "cwd": cwd, "root": root});
        w.begin(|| cj.clone());
        w.add_transitions(1);
        if std::env::set_current_dir(top.join(cwd)).is_err() {
            w.fail("harness:chdir", "cannot enter the working directory", cj);
            continue;
        }
        let (env, _o, _e, _h) = quiet_env();
        let r = guarded(|| duckscript::runner::run_script_file(root, sdk_context(), Some(env)));
        match r {
            Err(p) => w.fail("panic", &p, cj),
            Ok(Ok(c)) => w.fail(
                "missing-include:accepted",
                &format!("{} started in {:?} includes a file that does not exist ({}), yet it ran: where = {:?}", root, cwd, missing, c.variables.get("where")),
                cj,
            ),
            Ok(Err(e)) => {
                let m = e.to_string();
                if m.contains("util.ds") {
                    w.pass(true, hash64(&("relative-invocation-missing", root)));
                } else {
                    w.fail("missing-include:error-does-not-name-the-file", &format!("{} started in {:?}: {}", root, cwd, m), cj);
                }
            }
        }
    }
    if let Some(b) = before {
        let _ = std::env::set_current_dir(b);
    }
    let _ = std::fs::remove_dir_all(&top);
}

/// What a script prints while it is being parsed (`!print`) is part of its behaviour too: an include
/// structure prints what the pasted script prints - a file included twice prints twice. Observed on
/// the real standard output of a child process (`dsmc libref file`), structure against pasted text.
fn parse_time_output(w: &mut Worker) {
    let me = match std::env::current_exe() {
        Ok(p) => p,
        Err(_) => return,
    };
    let dir: PathBuf = w.scratch.join("c14-print");
    let shapes = print_shapes();
    for (shape, files) in &shapes {
        for style in 0..2u8 {
            if !w.take() {
                continue;
            }
            let cj = json!({"kind": "parse-time-output", "shape": shape, "path_style": if style == 0 { "relative" } else { "absolute" }});
            w.begin(|| cj.clone());
            let (flat, root, pasted) = write_print_shape(files, style, &dir);
            w.add_transitions(2);
            match (crate::props::c20::run_proc(&me, &["libref", "file", &root], &dir), crate::props::c20::run_proc(&me, &["libref", "file", &pasted], &dir)) {
                (Ok(a), Ok(b)) => {
                    let prints = flat.iter().filter(|l| l.starts_with("!print")).count();
                    if b.code != Some(0) || b.stdout.lines().count() != flat.len() {
                        w.fail("harness:parse-time-output", &format!("{}: the pasted script exits {:?} and prints {:?} ({})", shape, b.code, b.stdout, b.stderr), cj);
                    } else if a.code != b.code || a.stdout != b.stdout {
                        w.fail(
                            "parse-time-output-differs",
                            &format!("{} ({} !print lines in the pasted script): the include structure exits {:?} and prints {:?} ({}), the pasted script prints {:?}", shape, prints, a.code, a.stdout, a.stderr, b.stdout),
                            cj,
                        );
                    } else {
                        w.pass(true, hash64(&("parse-time-output", *shape)));
                    }
                }
                (a, b) => w.fail("harness:spawn", &format!("{:?} {:?}", a.err(), b.err()), cj),
            }
        }
    }
    let _ = std::fs::remove_dir_all(&dir);
}

/// An error raised in included code names the file the failing line is in, and its line there, however the
/// code got to run: a function of one included file that calls a function of another one, called as a
/// plain line, for its value, as the condition of if / elseif / while, under not; and a function whose
/// body holds an include directive.
fn errors_name_their_file(w: &mut Worker) {
    let top: PathBuf = w.scratch.join("c14-errfile");
    let forms: [(&str, &str); 6] = [
        ("plain", "is_ready"),
        ("assigned", "r = is_ready"),
        ("if", "if is_ready\nx = set 1\nend"),
        ("elseif", "if false\nx = set 0\nelseif is_ready\nx = set 1\nend"),
        ("while", "while is_ready\ngoto :out\nend\n:out x = set 1"),
        ("not", "n = not is_ready"),
    ];
    for (fname, call) in forms {
        for layout in ["two-files", "directive-in-body"] {
            if !w.take() {
                continue;
            }
            let cj = json!({"kind": "errors-name-their-file", "form": fname, "layout": layout});
            w.begin(|| cj.clone());
            w.add_transitions(1);
            let _ = std::fs::remove_dir_all(&top);
            let _ = std::fs::create_dir_all(top.join("lib/io"));
            let (failing_file, failing_line) = if layout == "two-files" {
                std::fs::write(top.join("lib/checks.ds"), "# checks built on the helpers\n\nfn is_ready\n    state = probe\n    return ${state}\nend\n").expect("write");
                std::fs::write(top.join("lib/io/probe.ds"), "# low level helper\n\nfn probe\n    calls = calc ${calls} + 1\n    # planted error: line 6 of this file\n    trigger_error \"probe failed\"\n    return true\nend\n").expect("write");
                std::fs::write(top.join("main.ds"), format!("calls = set 0\n!include_files ./lib/checks.ds ./lib/io/probe.ds\ntrigger_error \"in main\"\n{}\nmsg = get_last_error\nsrc = get_last_error_source\nline = get_last_error_line\nafter = set reached\n", call)).expect("write");
                (top.join("lib/io/probe.ds"), "6")
            } else {
                std::fs::write(top.join("lib/io/probe.ds"), "calls = calc ${calls} + 1\n\ntrigger_error \"probe failed\"\n").expect("write");
                std::fs::write(top.join("main.ds"), format!("calls = set 0\nfn is_ready\n    !include_files ./lib/io/probe.ds\n    return true\nend\ntrigger_error \"in main\"\n{}\nmsg = get_last_error\nsrc = get_last_error_source\nline = get_last_error_line\nafter = set reached\n", call)).expect("write");
                (top.join("lib/io/probe.ds"), "3")
            };
            let (env, _o, _e, _h) = quiet_env();
            let root = top.join("main.ds").to_string_lossy().to_string();
            match guarded(|| duckscript::runner::run_script_file(&root, sdk_context(), Some(env))) {
                Err(p) => w.fail("errors-name-their-file:panic", &p, cj),
                Ok(Err(e)) => w.fail("errors-name-their-file:run-failed", &format!("{} / {}: {}", fname, layout, e), cj),
                Ok(Ok(c)) => {
                    let v = |k: &str| c.variables.get(k).cloned().unwrap_or_default();
                    if v("after") != "reached" || v("calls") != "1" || v("msg") != "probe failed" {
                        w.fail("errors-name-their-file:flow", &format!("{} / {}: after={:?} calls={:?} message={:?}", fname, layout, v("after"), v("calls"), v("msg")), cj);
                    } else if !same_file(&v("src"), &failing_file) {
                        w.fail("errors-name-their-file:wrong-file", &format!("{} / {}: get_last_error_source {:?}, the failing line is in {:?}", fname, layout, v("src"), failing_file), cj);
                    } else if v("line") != failing_line {
                        w.fail("errors-name-their-file:wrong-line", &format!("{} / {}: get_last_error_line {:?}, the failing line is line {}", fname, layout, v("line"), failing_line), cj);
                    } else {
                        w.pass(true, hash64(&("errors-name-their-file", fname, layout)));
                    }
                }
            }
        }
    }
    let _ = std::fs::remove_dir_all(&top);
}

pub fn worker(w: &mut Worker) {
    let tier = w.tier;
    scale(w);
    parse_time_output(w);
    errors_name_their_file(w);
    blocks_across_files(w);
    relative_invocation(w);
    let rig = Rig::new();
    let dir: PathBuf = w.scratch.join("c14");
    let every = tier.pick(5usize, 1usize);
    let mut seen = std::collections::HashSet::new();
    let mut tree_no = 0usize;
    for order in [[0usize, 1, 2, 3], [0usize, 3, 2, 1]] {
        let s0 = specs_for(0, &order);
        let s1 = specs_for(1, &order);
        let s2 = specs_for(2, &order);
        let s3 = specs_for(3, &order);
        for a in &s0 {
            for b in &s1 {
                for c in &s2 {
                    for d in &s3 {
                        for style in 0..3u8 {
                            let mut tree = Tree {
                                specs: vec![a.clone(), b.clone(), c.clone(), d.clone()],
                                style,
                            };
                            // normalise unreachable files so that each reachable structure is one case
                            let r = reachable(&tree);
                            for i in 0..4 {
                                if !r[i] {
                                    tree.specs[i] = Spec { includes: vec![], pos: 0 };
                                }
                            }
                            if !seen.insert(tree.clone()) {
                                continue;
                            }
                            tree_no += 1;
                            let mut faults = vec![Fault::None];
                            if tree_no % every == 0 {
                                for fi in 0..4 {
                                    if !r[fi] {
                                        continue;
                                    }
                                    for ai in 0..tree.specs[fi].includes.len() {
                                        // only the first occurrence in paste order is the one reported; keep edges of
                                        // files that are pasted before any other missing edge: every edge qualifies
                                        // because exactly one fault is planted per case
                                        faults.push(Fault::Missing(fi, ai));
                                        if fi > 0 || tree.specs[0].pos != 2 {
                                            faults.push(Fault::AndRootTail(Box::new(Fault::Missing(fi, ai))));
                                        }
                                    }
                                    for l in [0usize, 2, 4] {
                                        // lines 0, 2 and 4 (1 is blank or a goto, 3 a comment)
                                        faults.push(Fault::Malformed(fi, l));
                                        if fi > 0 && l != 2 {
                                            faults.push(Fault::AndRootTail(Box::new(Fault::Malformed(fi, l))));
                                        }
                                        if l != 2 {
                                            faults.push(Fault::Error(fi, l));
                                            if fi > 0 {
                                                faults.push(Fault::ErrorAndRootTailError(fi, l));
                                            }
                                        }
                                    }
                                }
                            }
                            for fault in faults {
                                if !w.take() {
                                    continue;
                                }
                                let cj = tree_json(&tree, &fault);
                                w.begin(|| cj.clone());
                                w.add_transitions(1);
                                match guarded(|| check(&rig, &tree, &fault, &dir)) {
                                    Err(p) => w.fail("panic", &p, cj),
                                    Ok(Ok(class)) => {
                                        if w.want_sample() && fault != Fault::None {
                                            w.sample(cj.clone());
                                        }
                                        w.pass(r.iter().filter(|x| **x).count() > 1, class)
                                    }
                                    Ok(Err((sig, what))) => w.fail(&sig, &what, cj),
                                }
                            }
                        }
                    }
                }
            }
        }
    }
}

pub fn replay(case: &Value) -> Result<String, String> {
    if case["kind"].as_str() == Some("relative-invocation") {
        return Ok("re-run the check: the case needs the directory layout of the run's scratch directory and a change of the working directory".to_string());
    }
    if case["kind"].as_str() == Some("blocks-across-files") {
        let dir = scratch_root().join(format!("replay-c14-blocks-{}", std::process::id()));
        let shape = case["shape"].as_str().unwrap_or("");
        let style = if case["path_style"].as_str() == Some("absolute") { 1 } else { 0 };
        let shapes = block_shapes();
        let files = &shapes.iter().find(|(n, _)| *n == shape).ok_or("unknown shape")?.1;
        let r = blocks_case(files, style, &dir);
        let _ = std::fs::remove_dir_all(&dir);
        return Ok(format!("{:?}", r));
    }
    if case["kind"].as_str() == Some("parse-time-output") {
        let me = std::env::current_exe().map_err(|e| e.to_string())?;
        let dir = scratch_root().join(format!("replay-c14-print-{}", std::process::id()));
        let shape = case["shape"].as_str().unwrap_or("");
        let style = if case["path_style"].as_str() == Some("absolute") { 1 } else { 0 };
        let shapes = print_shapes();
        let files = &shapes.iter().find(|(n, _)| *n == shape).ok_or("unknown shape")?.1;
        let (_flat, root, pasted) = write_print_shape(files, style, &dir);
        let a = crate::props::c20::run_proc(&me, &["libref", "file", &root], &dir)?;
        let b = crate::props::c20::run_proc(&me, &["libref", "file", &pasted], &dir)?;
        let _ = std::fs::remove_dir_all(&dir);
        return Ok(format!("include structure: exit {:?} prints {:?}\npasted script: exit {:?} prints {:?}", a.code, a.stdout, b.code, b.stdout));
    }
    if case["kind"].as_str() == Some("scale") {
        let dir = scratch_root().join(format!("replay-c14-scale-{}", std::process::id()));
        let r = scale_check(case["shape"].as_str().unwrap_or("chain"), case["n"].as_u64().unwrap_or(1) as usize, &dir);
        let _ = std::fs::remove_dir_all(&dir);
        let d = dir.to_string_lossy().to_string();
        return Ok(format!("{:?}", r).replace(&d, "<dir>"));
    }
    let tree = Tree {
        style: case["style"].as_u64().unwrap_or(0) as u8,
        specs: case["specs"]
            .as_array()
            .ok_or("specs")?
            .iter()
            .map(|s| Spec {
                includes: s["includes"].as_array().map(|a| a.iter().map(|x| x.as_u64().unwrap_or(0) as usize).collect()).unwrap_or_default(),
                pos: s["pos"].as_u64().unwrap_or(0) as u8,
            })
            .collect(),
    };
    let f = case["fault"].as_str().unwrap_or("None");
    let nums: Vec<usize> = f.split(|c: char| !c.is_ascii_digit()).filter(|s| !s.is_empty()).map(|s| s.parse().unwrap()).collect();
    let fault = if f.starts_with("AndRootTail(Missing") {
        Fault::AndRootTail(Box::new(Fault::Missing(nums[0], nums[1])))
    } else if f.starts_with("AndRootTail(Malformed") {
        Fault::AndRootTail(Box::new(Fault::Malformed(nums[0], nums[1])))
    } else if f.starts_with("Missing") {
        Fault::Missing(nums[0], nums[1])
    } else if f.starts_with("Malformed") {
        Fault::Malformed(nums[0], nums[1])
    } else if f.starts_with("ErrorAndRootTailError") {
        Fault::ErrorAndRootTailError(nums[0], nums[1])
    } else if f.starts_with("Error") {
        Fault::Error(nums[0], nums[1])
    } else {
        Fault::None
    };
    let dir = scratch_root().join(format!("replay-c14-{}", std::process::id()));
    let rig = Rig::new();
    let r = check(&rig, &tree, &fault, &dir);
    let d = dir.to_string_lossy().to_string();
    let _ = std::fs::remove_dir_all(&dir);
    Ok(format!("{:?}", r).replace(&d, "<dir>"))
}

pub fn crash_sig(_case: &Value, kind: &str) -> String {
    kind.to_string()
}

pub const RULE: &str = "include structures: four files r.ds, d1/a.ds, d1/d2/b.ds, c.ds; every assignment of an include directive (none / one file / two files / the same file twice, listed in one directive, at the first, middle or last line) to each file such that a file only includes files later in the order (two orders: descending into and climbing out of the nested directories), unreachable files normalised away, x path style {./relative, plain relative, absolute}. Faults (on every n-th structure): each include edge pointing to a missing file; a malformed line at every (reachable file, line); a trigger_error at every (reachable file, line); two handled errors in different files (the later one is the last error: its line and its file); pairs of faults (a missing edge or a malformed line in an included file together with a malformed last line of the root file: the one that comes first in the pasted text must be reported). Oracle: parse_file(root) minus directive instructions equals parse_text of the recursively pasted text; every instruction carries the file it came from (compared as canonical paths) and its line in that file; running the file and the pasted text gives the same emit trace and variables; a missing file fails the parse with ErrorReadingFile naming that file; a malformed line fails with its kind, its own line and its own file; get_last_error_line/_source name the included file and line. Scale cases: a chain of 12/40 (thorough 150) files each including the next across two directories, a chain through files whose names differ only in letter case, one directive listing 12/100 (thorough 1000) files, an included file of 5000 (thorough 200000) lines: instruction order, file and line of every instruction. Parse-time output: 8 include shapes with !print lines (a file included once, twice on two lines, twice on one line, three times, a diamond, a nested file twice, prints only below, another file between) x relative / absolute paths, run in a child process against the pasted text run in a child process: same exit status, same standard output. Blocks across files: 11 shapes (if / while / for / fn / nested blocks opened in one file and closed in another, the directive last in its file or not, else in an included file) x relative / absolute paths: final variables of the include structure equal those of the pasted text. Six more shapes: a file defining a function / a scoped function / an alias / a label included twice (two lines, one line, a diamond). Seven shapes with files that hold nothing (zero bytes), a blank or only a comment, first / between / last in a directive and in a nested directive. Relative invocation: 12 cases of (working directory, relative path of the root, includes that climb up to three levels above it), with files of the same name and other contents on the way: the file the directive names is the one that is read Revisit: 2..300 (thorough 1025) files included by relative path one directive after the other, then again forwards, backwards, every third one, and pairwise from a file in the other directory under another spelling of the path. Errors name their file: a function of one included file calls a function of another included file whose line 6 reports an error (and: a function whose body holds an include directive, the error on line 3 of the included file), called as a plain line, for its value, as the condition of if / elseif / while and under not: get_last_error_source is the file the failing line is in, get_last_error_line its line there, the run goes on. Missing relative includes: 6 starts (4 working directories) of scripts whose include names a file that is not there relative to the including file while files of the same relative name lie in the working directory and next to the root script: the parse fails and names the file.";
pub const ASSUMPTIONS: &[&str] = &["cyclic includes are outside the property (C07 probes them)", "the scratch directory is on a local file system without symlinks"];
pub const EXHAUSTIVE: bool = true;
pub const WALL_CAP_S: (u64, u64) = (55, 1500);
