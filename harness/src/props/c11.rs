//! C11 — variable commands and the scope stack behave like a map and a stack of maps.
//! Engine E1: explicit-state search to a fixpoint over all reachable (variables, stack) states
//! within the size bounds, every operation of the alphabet from every state.

use crate::engine::*;
use crate::render;
use crate::seqmc::*;
use crate::util::*;
use duckscript::runner;
use duckscript::types::command::Commands;
use duckscript::types::runtime::{Context, StateValue};
use serde_json::{json, Value};
use std::cell::RefCell;
use std::rc::Rc;
use std::collections::{BTreeMap, HashMap};
use std::time::Duration;

#[derive(Clone, Debug, PartialEq, Eq, Hash)]
pub enum Op {
    Set(String, String),
    Unset(Vec<String>),
    SetByName(String, Option<String>),
    GetByName(String),
    IsDefined(String),
    AllNames,
    UnsetAll,
    UnsetPrefix(String),
    ClearScope(String),
    /// None = no --copy flag
    Push(Option<Vec<String>>),
    Pop(Option<Vec<String>>),
}

#[derive(Clone, Debug, Default, PartialEq, Eq)]
pub struct Model {
    pub vars: BTreeMap<String, String>,
    pub stack: Vec<BTreeMap<String, String>>,
}

pub struct Impl {
    /// one command table per thread, shared by all states (this alphabet never changes it)
    pub commands: Rc<RefCell<Option<Commands>>>,
    pub variables: HashMap<String, String>,
    pub state: HashMap<String, StateValue>,
}

pub struct C11 {
    pub names: Vec<String>,
    pub values: Vec<String>,
    pub max_depth: usize,
    pub ops: Vec<Op>,
}

impl C11 {
    pub fn new(tier: Tier, variant: u8) -> C11 {
        let (names, max_depth): (Vec<&str>, usize) = match (tier, variant) {
            (Tier::Quick, _) => (vec!["a", "b", "p::a"], 2),
            (Tier::Thorough, 0) => (vec!["a", "b", "p::a"], 3),
            (Tier::Thorough, 2) => (vec!["a", "b", "p::a"], 2),
            (Tier::Thorough, _) => (vec!["a", "ab", "p::a", "p"], 2),
        };
        let names: Vec<String> = names.into_iter().map(String::from).collect();
        // the empty text is a value like any other (defined, not undefined); the value with a space goes
        // through the parser in `b = set "x y"` only, to keep the state space small
        let values: Vec<String> = match (tier, variant) {
            (Tier::Thorough, 2) => vec!["1".into(), "".into(), "x y".into()],
            _ => vec!["1".into(), "".into()],
        };
        let mut ops = vec![];
        ops.push(Op::Set(names[1].clone(), "x y".into()));
        for n in &names {
            for v in &values {
                ops.push(Op::Set(n.clone(), v.clone()));
                ops.push(Op::SetByName(n.clone(), Some(v.clone())));
            }
            ops.push(Op::SetByName(n.clone(), None));
            ops.push(Op::GetByName(n.clone()));
            ops.push(Op::IsDefined(n.clone()));
            ops.push(Op::Unset(vec![n.clone()]));
        }
        ops.push(Op::Unset(vec![names[0].clone(), names[1].clone()]));
        ops.push(Op::Unset(vec![names[0].clone(), names[0].clone()]));
        ops.push(Op::Unset(vec![names[1].clone(), names[2].clone()]));
        ops.push(Op::AllNames);
        ops.push(Op::UnsetAll);
        for p in ["p", "a", "p::"] {
            ops.push(Op::UnsetPrefix(p.into()));
        }
        for p in ["p", "a"] {
            ops.push(Op::ClearScope(p.into()));
        }
        let mut lists: Vec<Option<Vec<String>>> = vec![None, Some(vec![])];
        for a in &names {
            lists.push(Some(vec![a.clone()]));
        }
        for a in &names {
            for b in &names {
                lists.push(Some(vec![a.clone(), b.clone()]));
            }
        }
        for l in &lists {
            ops.push(Op::Push(l.clone()));
        }
        for l in &lists {
            ops.push(Op::Pop(l.clone()));
        }
        C11 {
            names,
            values,
            max_depth,
            ops,
        }
    }
}

fn args_of(flag: &Option<Vec<String>>) -> Vec<String> {
    match flag {
        None => vec![],
        Some(l) => {
            let mut v = vec!["--copy".to_string()];
            v.extend(l.iter().cloned());
            v
        }
    }
}

impl Impl {
    fn call(&mut self, cmd: &str, args: &[String]) -> Out {
        let commands = self.commands.borrow_mut().take().unwrap();
        let mut s = Session {
            commands,
            variables: std::mem::take(&mut self.variables),
            state: std::mem::take(&mut self.state),
            out: Buf::default(),
        };
        let a: Vec<&str> = args.iter().map(|x| x.as_str()).collect();
        let r = s.call(cmd, &a);
        self.variables = s.variables;
        self.state = s.state;
        *self.commands.borrow_mut() = Some(s.commands);
        r
    }

    /// `name = set value` as a one-line script through the parser and the runner's own output handling
    fn run_line(&mut self, text: &str) -> Result<(), String> {
        let commands = self.commands.borrow_mut().take().unwrap();
        let ctx = Context {
            variables: std::mem::take(&mut self.variables),
            state: std::mem::take(&mut self.state),
            commands,
        };
        let (env, _o, _e, _h) = quiet_env();
        match runner::run_script(text, ctx, Some(env)) {
            Ok(c) => {
                self.variables = c.variables;
                self.state = c.state;
                *self.commands.borrow_mut() = Some(c.commands);
                Ok(())
            }
            Err(e) => {
                *self.commands.borrow_mut() = Some(sdk_context().commands);
                Err(e.to_string())
            }
        }
    }

    fn scope_stack(&self) -> Result<Vec<BTreeMap<String, String>>, String> {
        match self.state.get("scope_stack") {
            None => Ok(vec![]),
            Some(StateValue::List(l)) => l
                .iter()
                .map(|f| match abstract_state_value(f) {
                    SV::Vars(m) => Ok(m),
                    o => Err(format!("scope stack frame is {:?}", o)),
                })
                .collect(),
            Some(o) => Err(format!("scope_stack is {:?}", abstract_state_value(o))),
        }
    }

    fn handle_count(&self) -> usize {
        match self.state.get("handles") {
            Some(StateValue::SubState(m)) => m.len(),
            _ => 0,
        }
    }
}

fn fail(sig: &str, what: String) -> Fail {
    Fail {
        sig: sig.to_string(),
        what,
    }
}

impl Sys for C11 {
    type Impl = Impl;
    type Model = Model;
    type Op = Op;

    fn new_impl(&self) -> Impl {
        thread_local! {
            static CMDS: Rc<RefCell<Option<Commands>>> = Rc::new(RefCell::new(Some(sdk_context().commands)));
        }
        Impl {
            commands: CMDS.with(|c| c.clone()),
            variables: HashMap::new(),
            state: HashMap::new(),
        }
    }
    fn clone_impl(&self, s: &Impl) -> Impl {
        Impl {
            commands: s.commands.clone(),
            variables: s.variables.clone(),
            state: s.state.clone(),
        }
    }
    fn init_model(&self) -> Model {
        Model::default()
    }
    fn enabled(&self, m: &Model) -> Vec<Op> {
        self.ops
            .iter()
            .filter(|o| !(matches!(o, Op::Push(_)) && m.stack.len() >= self.max_depth))
            .cloned()
            .collect()
    }
    fn op_json(&self, op: &Op) -> Value {
        json!(format!("{:?}", op))
    }

    fn step(&self, s: &mut Impl, m: &mut Model, op: &Op) -> Result<(), Fail> {
        let opname = format!("{:?}", op);
        let kind = opname.split('(').next().unwrap_or("").to_string();
        // names whose value the statement leaves open after this step
        let mut open: Vec<String> = vec![];
        let (got, exp): (Out, Out) = match op {
            Op::Set(n, v) => {
                let line = render::line(Some(n), "set", &[v]);
                if let Err(e) = s.run_line(&line) {
                    return Err(fail("set:run-failed", format!("{:?}: {}", line, e)));
                }
                m.vars.insert(n.clone(), v.clone());
                (Out::Val(None), Out::Val(None))
            }
            Op::Unset(ns) => {
                let r = s.call("unset", ns);
                for n in ns {
                    m.vars.remove(n);
                }
                // unset documents no output
                (if matches!(r, Out::Val(_)) { Out::Val(None) } else { r }, Out::Val(None))
            }
            Op::SetByName(n, v) => {
                let mut a = vec![n.clone()];
                if let Some(v) = v {
                    a.push(v.clone());
                }
                let r = s.call("set_by_name", &a);
                match v {
                    Some(v) => {
                        m.vars.insert(n.clone(), v.clone());
                    }
                    None => {
                        m.vars.remove(n);
                    }
                }
                (r, Out::Val(v.clone()))
            }
            Op::GetByName(n) => (s.call("get_by_name", &[n.clone()]), Out::Val(m.vars.get(n).cloned())),
            Op::IsDefined(n) => (
                s.call("is_defined", &[n.clone()]),
                Out::Val(Some(m.vars.contains_key(n).to_string())),
            ),
            Op::AllNames => {
                let r = s.call("get_all_var_names", &[]);
                let exp: Vec<String> = m.vars.keys().cloned().collect();
                match &r {
                    Out::Val(Some(h)) => {
                        let list = match s.state.get_mut("handles") {
                            Some(StateValue::SubState(hm)) => hm.remove(h),
                            _ => None,
                        };
                        match list.as_ref().map(abstract_state_value) {
                            Some(SV::L(items)) => {
                                let mut names: Vec<String> = items
                                    .iter()
                                    .map(|x| match x {
                                        SV::S(s) => s.clone(),
                                        o => format!("{:?}", o),
                                    })
                                    .collect();
                                names.sort(); // the order of the listing is not documented
                                (Out::Val(Some(names.join(","))), Out::Val(Some(exp.join(","))))
                            }
                            o => (Out::Other(format!("output is not an array handle: {:?}", o)), Out::Val(None)),
                        }
                    }
                    _ => (r, Out::Val(Some(exp.join(",")))),
                }
            }
            Op::UnsetAll => {
                let r = s.call("unset_all_vars", &[]);
                m.vars.clear();
                (r, Out::Val(None))
            }
            Op::UnsetPrefix(p) => {
                let r = s.call("unset_all_vars", &["--prefix".to_string(), p.clone()]);
                m.vars.retain(|k, _| !k.starts_with(p.as_str()));
                (r, Out::Val(None))
            }
            Op::ClearScope(p) => {
                let r = s.call("clear_scope", &[p.clone()]);
                let pre = format!("{}::", p);
                m.vars.retain(|k, _| !k.starts_with(&pre));
                (r, Out::Val(None))
            }
            Op::Push(c) => {
                let r = s.call("scope_push_stack", &args_of(c));
                m.stack.push(m.vars.clone());
                let old = std::mem::take(&mut m.vars);
                if let Some(c) = c {
                    for n in c {
                        if let Some(v) = old.get(n) {
                            m.vars.insert(n.clone(), v.clone());
                        }
                    }
                }
                (r, Out::Val(Some("true".into())))
            }
            Op::Pop(c) => {
                let r = s.call("scope_pop_stack", &args_of(c));
                match m.stack.pop() {
                    None => (
                        // popping an empty stack is an error that changes nothing
                        if r.is_err() { Out::Err(String::new()) } else { r },
                        Out::Err(String::new()),
                    ),
                    Some(saved) => {
                        let cur = std::mem::replace(&mut m.vars, saved);
                        if let Some(c) = c {
                            for n in c {
                                match cur.get(n) {
                                    Some(v) => {
                                        m.vars.insert(n.clone(), v.clone());
                                    }
                                    None => open.push(n.clone()),
                                }
                            }
                        }
                        (r, Out::Val(Some("true".into())))
                    }
                }
            }
        };
        if got != exp {
            let k = match &got {
                Out::Panic(_) => "panic",
                Out::Crash(_) => "crash",
                Out::Err(_) => "unexpected-error",
                _ => "wrong-output",
            };
            return Err(fail(&format!("{}:{}", kind, k), format!("{}: output {:?}, model {:?}", opname, got, exp)));
        }
        // a name that was undefined when copied on pop: the implementation may restore the saved value
        // or leave it undefined; the model follows it (nothing else is tolerated)
        let iv = sorted_vars(&s.variables);
        for n in &open {
            match (iv.get(n), m.vars.get(n)) {
                (None, Some(_)) => {
                    m.vars.remove(n);
                }
                _ => (),
            }
        }
        if iv != m.vars {
            return Err(fail(&format!("{}:variables-differ", kind), format!("{}: variables {:?}, model {:?}", opname, iv, m.vars)));
        }
        // a look at the saved maps themselves finds a wrong snapshot one step before the pop that would
        // restore it. It depends on where and how the library keeps them: when they are not found in
        // the known place and shape the look is skipped (every pop is explored from every state anyway)
        if let (Ok(st), true) = (s.scope_stack(), s.state.contains_key("scope_stack")) {
            if st != m.stack {
                return Err(fail(&format!("{}:stack-differs", kind), format!("{}: saved maps {:?}, model {:?}", opname, st, m.stack)));
            }
        }
        if s.handle_count() != 0 {
            return Err(fail(&format!("{}:handle-left", kind), format!("{}: {} handles left behind", opname, s.handle_count())));
        }
        Ok(())
    }

    fn canon(&self, s: &Impl, m: &Model) -> Vec<u8> {
        // the model is part of the key: where the look into the saved maps is skipped (see `compare`) an
        // implementation that has lost them must not be merged with the state that never had any
        format!("{:?}|{:?}|{:?}|{:?}", sorted_vars(&s.variables), abstract_state(&s.state), m.vars, m.stack).into_bytes()
    }
}

pub fn bounds(tier: Tier) -> Value {
    match tier {
        Tier::Quick => json!({"names": ["a", "b", "p::a"], "values": ["1", "", "x y (only b = set)"], "stack_depth": 2}),
        Tier::Thorough => json!({"run1": {"names": ["a", "b", "p::a"], "stack_depth": 3}, "run2": {"names": ["a", "ab", "p::a", "p"], "stack_depth": 2}, "run3": {"names": ["a", "b", "p::a"], "values": ["1", "", "x y"], "stack_depth": 2}, "values": ["1", "", "x y (only b = set)"]}),
    }
}

pub fn run(tier: Tier, totals: &mut Totals) {
    let variants: &[u8] = match tier {
        Tier::Quick => &[0],
        Tier::Thorough => &[0, 1, 2],
    };
    let mut levels = vec![];
    for v in variants {
        let sys = C11::new(tier, *v);
        let opts = BfsOpts {
            max_depth: 64,
            max_states: tier.pick(2_000_000, 20_000_000),
            wall: Duration::from_secs(tier.pick(55, 3000)),
            threads: 16,
        };
        let r = bfs(&sys, &opts);
        levels.push(json!({"variant": v, "ops_in_alphabet": sys.ops.len(), "levels": r.levels, "fixpoint": r.fixpoint, "states": r.states, "transitions": r.transitions}));
        into_totals(&r, totals);
    }
    totals.extra.insert("search".into(), json!(levels));
    scale(tier, totals);
    prefix_family(totals);
    padded_names(totals);
    look_alike_names(totals);
    word_values(totals);
    output_is_an_input(totals);
    listings_in_a_row(totals);
}

/// Names that are prefixes of one another: every subset of nine look-alike names defined, then one
/// prefix operation (clear_scope / unset_all_vars --prefix with four arguments): exactly the names
/// the operation speaks of are gone.
const PREFIX_NAMES: [&str; 12] = ["p::a", "p::b::c", "p2::a", "pp::a", "p", "px", "q::p::a", "p:a", "P::a", "p::::a", "p::", " p::a"];

fn prefix_family(totals: &mut Totals) {
    let names = PREFIX_NAMES;
    let ops: [(&str, Vec<&str>); 18] = [
        // a scope name is a name: one that ends in the separator, has blanks around it or differs in case
        // is another scope
        ("clear_scope", vec!["p::"]),
        ("clear_scope", vec!["p::b::"]),
        ("clear_scope", vec!["p:"]),
        ("clear_scope", vec!["P"]),
        ("clear_scope", vec![" p"]),
        ("clear_scope", vec!["p "]),
        ("clear_scope", vec!["::p"]),
        ("unset_all_vars", vec!["--prefix", " p"]),
        ("unset_all_vars", vec!["--prefix", "P"]),
        ("unset_all_vars", vec!["--prefix", "p::::"]),
        ("clear_scope", vec!["p"]),
        ("clear_scope", vec!["p2"]),
        ("clear_scope", vec!["q"]),
        ("clear_scope", vec!["p::b"]),
        ("unset_all_vars", vec!["--prefix", "p"]),
        ("unset_all_vars", vec!["--prefix", "p::"]),
        ("unset_all_vars", vec!["--prefix", "p2"]),
        ("unset_all_vars", vec!["--prefix", "q::p"]),
    ];
    for mask in 0u32..(1 << names.len()) {
        for (cmd, args) in &ops {
            totals.evals += 1;
            totals.transitions += 1;
            totals.traces += 1;
            let mut s = Session::new();
            let mut model: BTreeMap<String, String> = BTreeMap::new();
            for (i, n) in names.iter().enumerate() {
                if mask & (1 << i) != 0 {
                    s.variables.insert(n.to_string(), format!("v{}", i));
                    model.insert(n.to_string(), format!("v{}", i));
                }
            }
            let a: Vec<String> = args.iter().map(|x| x.to_string()).collect();
            let r = s.call(cmd, &a.iter().map(|x| x.as_str()).collect::<Vec<_>>());
            if *cmd == "clear_scope" {
                let pre = format!("{}::", args[0]);
                model.retain(|k, _| !k.starts_with(&pre));
            } else {
                model.retain(|k, _| !k.starts_with(args[1]));
            }
            let got = sorted_vars(&s.variables);
            if got != model || matches!(r, Out::Panic(_)) {
                if mask.count_ones() > 1 {
                    totals.nontrivial += 1;
                }
                let sig = format!("prefix:{}:variables-differ", cmd);
                let what = format!("{} {:?} on {:?}: variables afterwards {:?}, model {:?} (result {:?})", cmd, args, names.iter().enumerate().filter(|(i, _)| mask & (1 << i) != 0).map(|(_, n)| *n).collect::<Vec<_>>(), got.keys().collect::<Vec<_>>(), model.keys().collect::<Vec<_>>(), r);
                let e = totals.failures.entry(sig.clone()).or_insert((0, vec![]));
                e.0 += 1;
                if e.1.len() < 2 {
                    e.1.push(json!({"idx": mask, "sig": sig, "what": what, "replay": {"kind": "prefix", "mask": mask, "command": cmd, "args": args}}));
                }
            } else if mask.count_ones() > 1 {
                totals.nontrivial += 1;
            }
        }
    }
}

/// Names that differ only in letter case, in Unicode normalisation form, by a ligature or a look-alike
/// character are different names: all defined at once, each keeps its own value, the list of names has
/// every one of them, and removing one leaves the others.
fn look_alike_names(totals: &mut Totals) {
    let groups: [&[&str]; 7] = [
        &["item", "Item", "ITEM", "iTem"],
        &["\u{130}", "i\u{307}", "i", "I", "\u{131}"],
        &["\u{e9}", "e\u{301}", "E\u{301}", "\u{c9}"],
        &["stra\u{df}e", "strasse", "STRASSE", "stra\u{1e9e}e"],
        &["\u{fb01}n", "fin", "FIN"],
        &["K", "\u{212a}", "k"],
        &["a::b", "A::b", "a::B", "a:\u{a789}b"],
    ];
    for names in groups {
        totals.evals += 1;
        totals.transitions += 1;
        totals.traces += 1;
        totals.nontrivial += 1;
        let mut s = Session::new();
        let mut problems: Vec<String> = vec![];
        for (i, n) in names.iter().enumerate() {
            if s.call("set_by_name", &[n, &format!("v{}", i)]) != Out::Val(Some(format!("v{}", i))) {
                problems.push(format!("set_by_name {:?} did not answer its value", n));
            }
        }
        for (i, n) in names.iter().enumerate() {
            if s.call("get_by_name", &[n]) != Out::Val(Some(format!("v{}", i))) {
                problems.push(format!("get_by_name {:?} is not v{}", n, i));
            }
            if s.call("is_defined", &[n]) != Out::Val(Some("true".to_string())) {
                problems.push(format!("is_defined {:?} is not true", n));
            }
        }
        let listed: Vec<String> = match s.call("get_all_var_names", &[]) {
            Out::Val(Some(h)) => match s.handle(&h) {
                Some(SV::L(items)) => {
                    let mut v: Vec<String> = items.iter().filter_map(|x| if let SV::S(t) = x { Some(t.clone()) } else { None }).collect();
                    v.sort();
                    v
                }
                other => {
                    problems.push(format!("get_all_var_names gave {:?}", other));
                    vec![]
                }
            },
            other => {
                problems.push(format!("get_all_var_names gave {:?}", other));
                vec![]
            }
        };
        let mut expect: Vec<String> = names.iter().map(|x| x.to_string()).collect();
        expect.sort();
        if listed != expect {
            problems.push(format!("get_all_var_names lists {:?}, defined are {:?}", listed, expect));
        }
        // removing the first leaves the others
        s.call("unset", &[names[0]]);
        for (i, n) in names.iter().enumerate().skip(1) {
            if s.call("get_by_name", &[n]) != Out::Val(Some(format!("v{}", i))) {
                problems.push(format!("after unset {:?}: get_by_name {:?} is not v{}", names[0], n, i));
            }
        }
        if s.call("is_defined", &[names[0]]) != Out::Val(Some("false".to_string())) {
            problems.push(format!("after unset {:?} it is still defined", names[0]));
        }
        if !problems.is_empty() {
            let sig = "look-alike-names".to_string();
            let e = totals.failures.entry(sig.clone()).or_insert((0, vec![]));
            e.0 += 1;
            if e.1.len() < 2 {
                e.1.push(json!({"idx": 0, "sig": sig, "what": format!("names {:?}: {}", names, problems.join("; ")), "replay": {"kind": "look-alike-names", "names": names}}));
            }
        }
    }
}

/// A value is stored as it is given, whatever it reads like: the language's own words (or, and, not,
/// the block keywords, the false words), numbers, texts that read like handles, scopes, options or
/// variable names. Stored by set_by_name, read back by get_by_name, carried through a push and a pop
/// with --copy.
fn word_values(totals: &mut Totals) {
    let mut values: Vec<String> = vec![];
    for w in [
        "or", "and", "not", "OR", "And", "true", "false", "no", "0", "1", "-1", "NaN", "null", "none", "nil", "undefined", "if", "else", "elseif", "end", "end_if", "while", "for", "in", "function", "fn", "end_fn",
        "return", "goto", "set", "unset", "=", "==", "!=", "(", ")", "--copy", "--prefix", "--", "-", "handle:1", "scope::x", "std::set", ":label", "!print", "#", "a", "a b", " ", " a ", "or or", "x or y", "true or false", "false or",
    ] {
        values.push(w.to_string());
    }
    for name in ["a", "p::a"] {
        for v in &values {
            totals.evals += 1;
            totals.transitions += 1;
            totals.traces += 1;
            totals.nontrivial += 1;
            let mut s = Session::new();
            let mut problems: Vec<String> = vec![];
            s.variables.insert("other".to_string(), "O".to_string());
            let r = s.call("set_by_name", &[name, v]);
            if r != Out::Val(Some(v.clone())) {
                problems.push(format!("set_by_name answered {:?}", r));
            }
            if s.variables.get(name) != Some(v) {
                problems.push(format!("the variable holds {:?}", s.variables.get(name)));
            }
            let r = s.call("get_by_name", &[name]);
            if r != Out::Val(Some(v.clone())) {
                problems.push(format!("get_by_name answered {:?}", r));
            }
            let r = s.call("is_defined", &[name]);
            if r != Out::Val(Some("true".to_string())) {
                problems.push(format!("is_defined answered {:?}", r));
            }
            s.call("scope_push_stack", &["--copy", name]);
            if s.variables.get(name) != Some(v) || s.variables.len() != 1 {
                problems.push(format!("after push --copy the variables are {:?}", sorted_vars(&s.variables)));
            }
            s.call("scope_pop_stack", &["--copy", name]);
            let mut expect: BTreeMap<String, String> = BTreeMap::new();
            expect.insert("other".to_string(), "O".to_string());
            expect.insert(name.to_string(), v.clone());
            if sorted_vars(&s.variables) != expect {
                problems.push(format!("after pop --copy the variables are {:?}", sorted_vars(&s.variables)));
            }
            // a second value replaces the first one
            let r = s.call("set_by_name", &[name, "second"]);
            if r != Out::Val(Some("second".to_string())) || s.variables.get(name).map(|x| x.as_str()) != Some("second") {
                problems.push(format!("a second set_by_name answered {:?}, the variable holds {:?}", r, s.variables.get(name)));
            }
            if !problems.is_empty() {
                let sig = "word-value".to_string();
                let e = totals.failures.entry(sig.clone()).or_insert((0, vec![]));
                e.0 += 1;
                if e.1.len() < 2 {
                    e.1.push(json!({"idx": 0, "sig": sig, "what": format!("set_by_name {:?} {:?}: {}", name, v, problems.join("; ")), "replay": {"kind": "word-value", "name": name, "value": v}}));
                }
            }
        }
    }
}

/// A variable name is taken as it is given: with blanks (or other white space) around it, it is another
/// name than without.
fn padded_names(totals: &mut Totals) {
    let names = [" a", "a ", "\ta", "a\u{a0}", "\u{2003}a", " a::b ", " ", "A", "a\n", "\u{feff}a", "a\u{feff}", "a\u{200b}", "\u{200d}a", "a\u{ad}", "a\u{0}", "\u{1}a", "a\u{301}", "\u{202e}a", "a\u{85}"];
    for name in names {
        for op in ["set_by_name", "get_by_name", "is_defined", "unset", "set_by_name-remove"] {
            totals.evals += 1;
            totals.transitions += 1;
            totals.traces += 1;
            totals.nontrivial += 1;
            let mut s = Session::new();
            let mut model: BTreeMap<String, String> = BTreeMap::new();
            for (k, v) in [("a", "A"), ("a::b", "B"), ("other", "O")] {
                s.variables.insert(k.to_string(), v.to_string());
                model.insert(k.to_string(), v.to_string());
            }
            let (r, exp): (Out, Option<Out>) = match op {
                "set_by_name" => {
                    model.insert(name.to_string(), "new".to_string());
                    (s.call("set_by_name", &[name, "new"]), Some(Out::Val(Some("new".to_string()))))
                }
                "set_by_name-remove" => {
                    model.remove(name);
                    (s.call("set_by_name", &[name]), Some(Out::Val(None)))
                }
                "get_by_name" => (s.call("get_by_name", &[name]), Some(Out::Val(model.get(name).cloned()))),
                "is_defined" => (s.call("is_defined", &[name]), Some(Out::Val(Some(model.contains_key(name).to_string())))),
                _ => {
                    model.remove(name);
                    (s.call("unset", &[name]), None)
                }
            };
            let got = sorted_vars(&s.variables);
            if got != model || exp.as_ref().map(|e| *e != r).unwrap_or(false) || matches!(r, Out::Panic(_)) {
                let sig = format!("padded-name:{}", op);
                let what = format!("{} {:?} with the variables a, a::b, other defined: result {:?} (expected {:?}), variables afterwards {:?}, model {:?}", op, name, r, exp, got, model);
                let e = totals.failures.entry(sig.clone()).or_insert((0, vec![]));
                e.0 += 1;
                if e.1.len() < 2 {
                    e.1.push(json!({"idx": 0, "sig": sig, "what": what, "replay": {"kind": "padded-name", "name": name, "op": op}}));
                }
            }
        }
    }
}

/// The output variable of a line is a variable like any other while the command runs: a command whose
/// output goes into the very variable it reads (by name, or as one of all names) sees that variable as it
/// was before the line, and the output replaces it afterwards - at the top level, inside a function, under
/// a prefixed name, between a push and a pop that copy it.
fn output_is_an_input(totals: &mut Totals) {
    for name in ["x", "p::x"] {
        for place in ["top", "function"] {
            let body = format!(
                "{n} = set old\n{n} = get_by_name {n}\nr1 = set ${{{n}}}\n{n} = is_defined {n}\nr2 = set ${{{n}}}\n{n} = set old\n{n} = set_by_name {n} new\nr3 = set ${{{n}}}\n{n} = set a\n{n} = set ${{{n}}}b\nr4 = set ${{{n}}}\nunset_all_vars --prefix zz\nnames = get_all_var_names\nn1 = array_length ${{names}}\nnames = get_all_var_names\nn2 = array_length ${{names}}\ngrew = calc ${{n2}} - ${{n1}}\n{n} = set old\nscope_push_stack --copy {n}\n{n} = set new\n{n} = get_by_name {n}\nscope_pop_stack --copy {n}\nr5 = set ${{{n}}}\n{n} = set kept\n{n} = get_by_name nothing_here\nr6 = is_defined {n}",
                n = name
            );
            let text = if place == "top" { body } else { format!("fn work\n{}\nend\nwork", body) };
            crate::util::scale_case_totals(
                totals,
                &format!("output-is-an-input name {} at {}", name, place),
                &text,
                &[
                    ("r1", Some("old".into())),
                    ("r2", Some("true".into())),
                    ("r3", Some("new".into())),
                    ("r4", Some("ab".into())),
                    // between the two listings exactly two variables appeared: names and n1
                    ("grew", Some("2".into())),
                    ("r5", Some("new".into())),
                    ("r6", Some("false".into())),
                ],
            );
        }
    }
}

/// Listings in a row: get_all_var_names lists the names of the moment, every time - also when the earlier
/// listings are still held, and the variables between two listings changed names but not their number
/// (nor the length of their names): one unset and one set, a push that copies one and a set of another.
fn listings_in_a_row(totals: &mut Totals) {
    for (how, change, gone, new) in [
        ("unset-and-set", "unset a\nb = set 2", "a", "b"),
        ("set_by_name", "set_by_name a\nset_by_name b 2", "a", "b"),
        ("push-copy-and-set", "scope_push_stack --copy l\nc = set 3", "a", "c"),
        ("unset_all_vars-prefix", "unset_all_vars --prefix a\nb = set 2", "a", "b"),
    ] {
        for held in [true, false] {
            let release = if held { "" } else { "release ${l}\n" };
            let text = format!(
                "a = set 1\nl = get_all_var_names\n{r}l = get_all_var_names\nn2 = array_length ${{l}}\n{r}{change}\nl = get_all_var_names\nn3 = array_length ${{l}}\nhas_gone = array_contains ${{l}} {gone}\nhas_new = array_contains ${{l}} {new}\nhas_l = array_contains ${{l}} l\nnew_found = not equals ${{has_new}} false\nl_found = not equals ${{has_l}} false",
                r = release,
                change = change,
                gone = gone,
                new = new
            );
            crate::util::scale_case_totals(
                totals,
                &format!("listings-in-a-row {} {}", how, if held { "held" } else { "released" }),
                &text,
                // (after a push the count taken before it is not among the variables any more)
                &[("n2", if how == "push-copy-and-set" { None } else { Some("2".into()) }), ("has_gone", Some("false".into())), ("new_found", Some("true".into())), ("l_found", Some("true".into()))],
            );
        }
    }
}

/// Depth and size far beyond the search bound: a scope stack hundreds of maps deep and a map with
/// hundreds of variables, as scripts whose results are computed here.
fn scale(tier: Tier, totals: &mut Totals) {
    let sizes: Vec<u64> = with_thresholds(tier.pick(vec![10, 70, 300, 6000], vec![10, 70, 300, 1000, 3000, 6000, 50000]), tier.pick(1024, 16384));
    for &d in &sizes {
        // d pushes, each level marks itself; d pops must come back through the marks in reverse order
        let text = format!(
            "sum = set 0\nmark = set 0\ni = set 0\nwhile less_than ${{i}} {d}\ni = calc ${{i}} + 1\nscope_push_stack --copy i sum\nmark = set ${{i}}\nonly${{i}} = set here\nend\nwhile greater_than ${{i}} 0\nsum = calc ${{sum}} + ${{mark}}\ni = calc ${{i}} - 1\nscope_pop_stack --copy i sum\nend\nfinal = set ${{mark}}\nextra = scope_pop_stack",
            d = d
        );
        crate::util::scale_case_totals(
            totals,
            &format!("scope-stack depth {}", d),
            &text,
            &[("sum", Some((d * (d + 1) / 2).to_string())), ("final", Some("0".into())), ("i", Some("0".into())), ("extra", Some("false".into())), ("only1", None)],
        );
        // d variables written and read back by name, then removed by prefix
        let text = format!(
            "i = set 0\nwhile less_than ${{i}} {d}\ni = calc ${{i}} + 1\nset_by_name v${{i}} ${{i}}\nend\nsum = set 0\nj = set 0\nwhile less_than ${{j}} {d}\nj = calc ${{j}} + 1\nx = get_by_name v${{j}}\nsum = calc ${{sum}} + ${{x}}\nend\nfirst = is_defined v1\nlast = is_defined v{d}\nunset_all_vars --prefix v\nfirst_after = is_defined v1\nlast_after = is_defined v{d}\nkept = is_defined sum",
            d = d
        );
        crate::util::scale_case_totals(
            totals,
            &format!("many-variables count {}", d),
            &text,
            &[
                ("sum", Some((d * (d + 1) / 2).to_string())),
                ("first", Some("true".into())),
                ("last", Some("true".into())),
                ("first_after", Some("false".into())),
                ("last_after", Some("false".into())),
                ("kept", Some("true".into())),
            ],
        );
    }
}

pub fn replay(case: &Value) -> Result<String, String> {
    if let Some(r) = crate::util::scale_replay(case) {
        return r;
    }
    if case["kind"].as_str() == Some("prefix") {
        let mask = case["mask"].as_u64().unwrap_or(0) as u32;
        let cmd = case["command"].as_str().unwrap_or("");
        let args: Vec<String> = case["args"].as_array().map(|a| a.iter().map(|x| x.as_str().unwrap_or("").to_string()).collect()).unwrap_or_default();
        let mut s = Session::new();
        for (i, n) in PREFIX_NAMES.iter().enumerate() {
            if mask & (1 << i) != 0 {
                s.variables.insert(n.to_string(), format!("v{}", i));
            }
        }
        let r = s.call(cmd, &args.iter().map(|x| x.as_str()).collect::<Vec<_>>());
        return Ok(format!("result {:?}\nvariables afterwards {:?}", r, sorted_vars(&s.variables)));
    }
    if case["kind"].as_str() == Some("look-alike-names") {
        let names: Vec<String> = case["names"].as_array().map(|a| a.iter().map(|x| x.as_str().unwrap_or("").to_string()).collect()).unwrap_or_default();
        let mut s = Session::new();
        for (i, n) in names.iter().enumerate() {
            s.call("set_by_name", &[n, &format!("v{}", i)]);
        }
        let listed = match s.call("get_all_var_names", &[]) {
            Out::Val(Some(h)) => format!("{:?}", s.handle(&h)),
            o => format!("{:?}", o),
        };
        return Ok(format!("variables {:?}\nget_all_var_names: {}", sorted_vars(&s.variables), listed));
    }
    if case["kind"].as_str() == Some("word-value") {
        let name = case["name"].as_str().unwrap_or("");
        let v = case["value"].as_str().unwrap_or("");
        let mut s = Session::new();
        let r1 = s.call("set_by_name", &[name, v]);
        let r2 = s.call("get_by_name", &[name]);
        return Ok(format!("set_by_name {:?} {:?} answered {:?}\nget_by_name answered {:?}\nvariables {:?}", name, v, r1, r2, sorted_vars(&s.variables)));
    }
    if case["kind"].as_str() == Some("padded-name") {
        let name = case["name"].as_str().unwrap_or("");
        let op = case["op"].as_str().unwrap_or("");
        let mut s = Session::new();
        for (k, v) in [("a", "A"), ("a::b", "B"), ("other", "O")] {
            s.variables.insert(k.to_string(), v.to_string());
        }
        let r = match op {
            "set_by_name" => s.call("set_by_name", &[name, "new"]),
            "set_by_name-remove" => s.call("set_by_name", &[name]),
            "unset" => s.call("unset", &[name]),
            o => s.call(o, &[name]),
        };
        return Ok(format!("result {:?}\nvariables afterwards {:?}", r, sorted_vars(&s.variables)));
    }
    // histories are recorded as debug strings of ops; re-run them through a fresh system by name
    let hist: Vec<String> = case["history"]
        .as_array()
        .ok_or("no history")?
        .iter()
        .map(|v| v.as_str().unwrap_or("").to_string())
        .collect();
    for variant in [0u8, 1u8, 2u8] {
        let sys = C11::new(Tier::Thorough, variant);
        let mut s = sys.new_impl();
        let mut m = sys.init_model();
        let mut out = vec![];
        let mut ok = true;
        for h in &hist {
            match sys.ops.iter().find(|o| format!("{:?}", o) == *h) {
                None => {
                    ok = false;
                    break;
                }
                Some(op) => {
                    let r = guarded(|| sys.step(&mut s, &mut m, op));
                    match r {
                        Ok(Ok(())) => out.push(format!("{} ok", h)),
                        Ok(Err(f)) => {
                            out.push(format!("{} FAIL [{}] {}", h, f.sig, f.what));
                            return Ok(out.join("\n"));
                        }
                        Err(p) => {
                            out.push(format!("{} PANIC {}", h, p));
                            return Ok(out.join("\n"));
                        }
                    }
                }
            }
        }
        if ok {
            return Ok(out.join("\n"));
        }
    }
    Err("history uses operations outside the alphabet".into())
}

pub const RULE: &str = "explicit-state breadth-first search from the empty context: every operation of the alphabet (set via a one-line script; set_by_name with/without value, get_by_name, is_defined, unset with 1-2 names, get_all_var_names, unset_all_vars plain and --prefix, clear_scope, scope_push_stack / scope_pop_stack without --copy and with every --copy list of 0..2 names) is applied to every reachable state; pushes are disabled at the stack-depth bound so the space is finite and searched to a fixpoint. Each transition runs the real command, compares its output, the complete variable map, the saved maps inside the scope stack and the handle table with the model (map + stack of maps). States are de-duplicated on the implementation's own state (variables and the whole state map). evaluations = transitions; distinct_nontrivial = distinct states. Prefix family: every subset of nine look-alike names {p::a, p::b::c, p2::a, pp::a, p, px, q::p::a, p:a, P::a} x clear_scope p / p2 / q / p::b and unset_all_vars --prefix p / p:: / p2 / q::p: exactly the names the operation speaks of are removed. Scale cases (scripts, results computed in Rust): a scope stack 10/70/300 (thorough 1000, 3000) levels deep pushed and popped with --copy, a pop on the emptied stack; 10..300 variables written and read by name and removed by prefix Prefix family: 12 look-alike names (incl. p::::a, p::, ' p::a') x 18 operations (clear_scope and unset_all_vars --prefix with names ending in the separator, with blanks, in another case): exactly the names starting with NAME:: (the prefix) are removed. Padded names: 9 names with white space around them through set_by_name / get_by_name / is_defined / unset: another name than without. Look-alike names: 7 groups of names that differ only in letter case, dotted / dotless i, composed / decomposed form, sharp s, a ligature, the Kelvin sign, a look-alike colon - all defined at once: each keeps its value, the list of names has all, unsetting one leaves the others Word values: 55 values that read like words of the language (or, and, not, block keywords, the false words), numbers, handles, scopes, options, labels, blanks, through set_by_name / get_by_name / is_defined / scope_push_stack --copy / scope_pop_stack --copy / a second set_by_name, under a plain and a prefixed name. Output is an input: lines whose output variable is the variable the command reads (get_by_name, is_defined, set_by_name, set with a reference to itself, get_all_var_names twice into one variable, get_by_name between a push and a pop that copy the variable, a read of an undefined name into a defined variable), under a plain and a prefixed name, at the top level and inside a function. Listings in a row: three get_all_var_names into one variable, the earlier listings held or released, between the last two a change of names that keeps their number and the length of their names (unset + set, set_by_name twice, push --copy + set, unset_all_vars --prefix + set): the last listing has the names of the moment.";
pub const ASSUMPTIONS: &[&str] = &["names from {a,b,p::a} (thorough also {a,ab,p::a,p}), values from {1, empty, 'x y'}", "for a name that is undefined when copied on pop the model follows the implementation between 'restored' and 'undefined'", "operations other than `name = set value` are run through run_instruction (outputs observed directly, no output variable)"];
pub const EXHAUSTIVE: bool = true;
pub const WALL_CAP_S: (u64, u64) = (50, 1500);
