//! C04 — if / elseif / else / while / for-in behave as properly nested structured blocks.
//! Engine E2: every well-nested block tree up to a size, every keyword spelling, every truth value
//! and array length (bounded deviations) against a tree-walking interpreter.

use crate::engine::*;
use crate::flow::*;
use crate::tape::*;
use serde_json::{json, Value};

/// block skeletons: kind + bodies (each a list of nested blocks)
#[derive(Clone, Debug, PartialEq, Eq, Hash)]
pub enum Sk {
    /// number of elseif branches, has else; bodies.len() == 1 + elseifs + else
    If(usize, bool, Vec<Vec<Sk>>),
    While(Vec<Sk>),
    For(Vec<Sk>),
}

fn count(b: &[Sk]) -> usize {
    b.iter()
        .map(|s| {
            1 + match s {
                Sk::If(_, _, bs) => bs.iter().map(|x| count(x)).sum::<usize>(),
                Sk::While(x) | Sk::For(x) => count(x),
            }
        })
        .sum()
}

/// all forests (sequences of blocks) with exactly n blocks and nesting depth <= depth
pub fn forests(n: usize, depth: usize) -> Vec<Vec<Sk>> {
    if n == 0 {
        return vec![vec![]];
    }
    if depth == 0 {
        return vec![];
    }
    let mut out = vec![];
    // first block takes k blocks in total (itself + nested), the rest of the forest n-k
    for k in 1..=n {
        let firsts = blocks(k, depth);
        let rests = forests(n - k, depth);
        for f in &firsts {
            for r in &rests {
                let mut v = vec![f.clone()];
                v.extend(r.iter().cloned());
                out.push(v);
            }
        }
    }
    out
}

/// all single blocks with exactly n blocks in total
fn blocks(n: usize, depth: usize) -> Vec<Sk> {
    let mut out = vec![];
    let inner = n - 1;
    // distribute `inner` nested blocks over the bodies
    for (elseifs, has_else) in [(0, false), (0, true), (1, false), (1, true), (2, false), (2, true)] {
        let nb = 1 + elseifs + has_else as usize;
        for dist in distributions(inner, nb) {
            let mut choices: Vec<Vec<Vec<Sk>>> = vec![];
            for d in &dist {
                choices.push(forests(*d, depth - 1));
            }
            for combo in product(&choices) {
                out.push(Sk::If(elseifs, has_else, combo));
            }
        }
    }
    for body in forests(inner, depth - 1) {
        out.push(Sk::While(body.clone()));
        out.push(Sk::For(body));
    }
    out
}

fn distributions(n: usize, k: usize) -> Vec<Vec<usize>> {
    if k == 1 {
        return vec![vec![n]];
    }
    let mut out = vec![];
    for first in 0..=n {
        for mut rest in distributions(n - first, k - 1) {
            let mut v = vec![first];
            v.append(&mut rest);
            out.push(v);
        }
    }
    out
}

fn product<T: Clone>(choices: &[Vec<T>]) -> Vec<Vec<T>> {
    let mut out: Vec<Vec<T>> = vec![vec![]];
    for c in choices {
        let mut next = vec![];
        for o in &out {
            for x in c {
                let mut v = o.clone();
                v.push(x.clone());
                next.push(v);
            }
        }
        out = next;
    }
    out
}

/// a forest that is one block containing one block containing one block
fn is_chain(f: &[Sk]) -> bool {
    fn nested(b: &Sk) -> Vec<&Sk> {
        match b {
            Sk::If(_, _, bodies) => bodies.iter().flatten().collect(),
            Sk::While(x) | Sk::For(x) => x.iter().collect(),
        }
    }
    if f.len() != 1 {
        return false;
    }
    let l2 = nested(&f[0]);
    if l2.len() != 1 {
        return false;
    }
    let l3 = nested(l2[0]);
    l3.len() == 1 && nested(l3[0]).is_empty()
}

struct Builder {
    next_id: u32,
    next_site: u32,
    /// 0: every body has emits; 1: leaf bodies empty; 2/3: alternate
    emptiness: u8,
    bodies_seen: u32,
    /// 0..3 uniform form; 4..7 rotating
    forms: u8,
}

impl Builder {
    fn emit(&mut self) -> Stmt {
        self.next_id += 1;
        Stmt::Emit(self.next_id)
    }
    fn cond(&mut self) -> Cond {
        self.next_site += 1;
        let form = if self.forms < 4 { self.forms } else if self.forms == 8 { 4 } else { ((self.forms as u32 + self.next_site) % 4) as u8 };
        Cond { site: self.next_site, form }
    }
    fn body(&mut self, blocks: &[Sk], top: bool) -> Vec<Stmt> {
        let mut out = vec![];
        self.bodies_seen += 1;
        if blocks.is_empty() {
            let empty = match self.emptiness {
                0 => false,
                1 => true,
                2 => self.bodies_seen % 2 == 0,
                _ => self.bodies_seen % 2 == 1,
            };
            if !empty || top {
                out.push(self.emit());
            }
            return out;
        }
        out.push(self.emit());
        for b in blocks {
            out.push(self.block(b));
            out.push(self.emit());
        }
        out
    }
    fn block(&mut self, b: &Sk) -> Stmt {
        match b {
            Sk::If(elseifs, has_else, bodies) => {
                let conds: Vec<Cond> = (0..=*elseifs).map(|_| self.cond()).collect();
                let mut bs = vec![];
                for i in 0..=*elseifs {
                    bs.push(self.body(&bodies[i], false));
                }
                let else_body = if *has_else { Some(self.body(&bodies[elseifs + 1], false)) } else { None };
                Stmt::If { conds, bodies: bs, else_body }
            }
            Sk::While(body) => {
                let cond = self.cond();
                let body = self.body(body, false);
                Stmt::While { cond, body }
            }
            Sk::For(body) => {
                self.next_site += 1;
                let site = self.next_site;
                let body = self.body(body, false);
                Stmt::For { site, body }
            }
        }
    }
}

pub fn build(forest: &[Sk], emptiness: u8, forms: u8) -> Program {
    let mut b = Builder {
        next_id: 0,
        next_site: 0,
        emptiness,
        bodies_seen: 0,
        forms,
    };
    let main = b.body(forest, true);
    Program { funcs: vec![], main }
}

pub fn bounds(tier: Tier) -> Value {
    match tier {
        Tier::Quick => json!({"blocks_full_spelling_product": 1, "blocks_rotated_spellings": 2, "three_block_nesting_chains": true, "depth": 3, "deviations": 2, "horizon": 8, "long_run_iterations": [0, 1, 40, 70, 300]}),
        Tier::Thorough => json!({"blocks_full_spelling_product": 1, "blocks_rotated_spellings": 3, "depth": 3, "deviations": 3, "horizon": 12, "four_blocks_subset": true, "long_run_iterations": [0, 1, 40, 70, 300, 1000, 5000]}),
    }
}

pub struct ExploreResult {
    pub runs: u64,
    pub nontrivial: u64,
    pub failure: Option<(String, String, Value)>,
    pub outcomes: Vec<u64>,
    pub sample: Option<Value>,
    pub capped: bool,
}

/// Explores every answer sequence (bounded deviations) of one rendered program.
pub fn explore_program(rig: &FlowRig, prog: &Program, text: &str, devs: usize, horizon: usize, max_runs: u64) -> ExploreResult {
    let mut ex = Explorer {
        max_deviations: devs,
        horizon,
        max_runs,
        runs: 0,
        capped: false,
    };
    let mut res = ExploreResult {
        runs: 0,
        nontrivial: 0,
        failure: None,
        outcomes: vec![],
        sample: None,
        capped: false,
    };
    let nfuncs = prog.funcs.len();
    ex.explore(&mut |decided| {
        let r = guarded(|| rig.run(text, decided, nfuncs));
        let (got, queried) = match r {
            Ok(x) => x,
            Err(p) => {
                res.failure = Some(("panic".into(), format!("panic: {}", p), json!(decided.iter().map(|(k, c)| json!([k.0, k.1, c])).collect::<Vec<_>>())));
                return (vec![], false);
            }
        };
        let tape = Tape::with(decided);
        let exp = RefInterp::run(prog, &tape);
        let dj = json!(decided.iter().map(|(k, c)| json!([k.0, k.1, c])).collect::<Vec<_>>());
        match got {
            Err(e) => {
                let sig = if e.contains("Missing end of structure") || e.contains("end of structure") {
                    "run-failed:block-structure"
                } else {
                    "run-failed"
                };
                res.failure = Some((sig.into(), format!("the run failed: {} (answers {:?})", e.trim(), decided), dj));
                (queried, false)
            }
            Ok(t) => match compare(&t, &exp) {
                Some((sig, what)) => {
                    res.failure = Some((sig.into(), format!("{} (answers {:?})", what, decided), dj));
                    (queried, false)
                }
                None => {
                    let d = decided.iter().filter(|(_, c)| *c != 0).count();
                    if d > 0 {
                        res.nontrivial += 1;
                    }
                    res.outcomes.push(hash64(&(t.emits.len().min(12), d)));
                    if res.sample.is_none() && d >= 2 {
                        res.sample = Some(json!({"script": text, "answers": dj, "emits": t.emits.len()}));
                    }
                    (queried, true)
                }
            },
        }
    });
    res.runs = ex.runs;
    res.capped = ex.capped;
    res
}

fn report(w: &mut Worker, r: ExploreResult, cj: Value, nontrivial_prog: bool, class: u64) {
    w.add_transitions(r.runs);
    w.add_traces(r.runs);
    w.count("executions", r.runs);
    w.count("executions_with_deviation", r.nontrivial);
    if r.capped {
        w.count("programs_capped", 1);
    }
    for o in &r.outcomes {
        w.add_state(*o);
    }
    if let Some(s) = r.sample {
        if w.want_sample() {
            w.sample(s);
        }
    }
    match r.failure {
        None => w.pass(nontrivial_prog, class),
        Some((sig, what, answers)) => {
            let mut cj = cj;
            cj["answers"] = answers;
            w.fail(&sig, &what, cj)
        }
    }
}


// ---------------------------------------------------------------------------------------------
// long-running loops: "the same block executed many times"
// ---------------------------------------------------------------------------------------------

/// a loop nest with fixed iteration counts; every loop counts its iterations in `k<id>`, adds to the
/// global counter `n` and appends `<id>=<iterations>` to the trace variable `t` when it is left.
/// `leaf` is a small if-block executed in every iteration (0: none; 1: `if true` without else;
/// 2: `if false` / `else`; 3: `if false` / `elseif true` as the last branch): its taken branch counts in
/// `m`, its other branches set `bad`.
#[derive(Clone, Debug)]
enum Lp {
    W(u32, usize, u8, Vec<Lp>),
    F(u32, usize, u8, Vec<Lp>),
    /// an if-block around the nested loops, which sit in the branch that is taken; the branches after
    /// it must not run (they set `bad`). 0: `if true` .. `end`; 1: `if true` .. `else` bad; 2: `if false`
    /// bad `else` ..; 3: `if false` bad `elseif true` .. `elseif true` bad `else` bad
    I(u8, Vec<Lp>),
}

fn leaf_render(leaf: u8, generic_end: bool, out: &mut Vec<String>) {
    let end = if generic_end { "end" } else { "end_if" };
    match leaf {
        1 => out.extend(["if true", "m = calc ${m} + 1", end].iter().map(|s| s.to_string())),
        2 => out.extend(["if false", "bad = set leaf", "else", "m = calc ${m} + 1", end].iter().map(|s| s.to_string())),
        3 => out.extend(["if false", "bad = set leaf", "elseif true", "m = calc ${m} + 1", end].iter().map(|s| s.to_string())),
        _ => (),
    }
}

fn lp_render(l: &Lp, generic_end: bool, out: &mut Vec<String>) {
    match l {
        Lp::W(id, n, leaf, inner) => {
            out.push(format!("k{} = set 0", id));
            out.push(format!("while less_than ${{k{}}} {}", id, n));
            out.push(format!("k{id} = calc ${{k{id}}} + 1", id = id));
            out.push("n = calc ${n} + 1".to_string());
            leaf_render(*leaf, generic_end, out);
            for i in inner {
                lp_render(i, generic_end, out);
            }
            out.push(if generic_end { "end".into() } else { "end_while".into() });
            out.push(format!("t = set \"${{t}} {id}=${{k{id}}}\"", id = id));
        }
        Lp::F(id, n, leaf, inner) => {
            out.push(format!("k{} = set 0", id));
            out.push(format!("r{} = range 0 {}", id, n));
            out.push(format!("for x{id} in ${{r{id}}}", id = id));
            out.push(format!("k{id} = calc ${{k{id}}} + 1", id = id));
            out.push("n = calc ${n} + 1".to_string());
            leaf_render(*leaf, generic_end, out);
            for i in inner {
                lp_render(i, generic_end, out);
            }
            out.push(if generic_end { "end".into() } else { "end_for".into() });
            out.push(format!("release ${{r{}}}", id));
            out.push(format!("t = set \"${{t}} {id}=${{k{id}}}\"", id = id));
        }
        Lp::I(kind, inner) => {
            let end = if generic_end { "end" } else { "end_if" };
            match kind {
                0 | 1 => out.push("if true".into()),
                2 => out.extend(["if false", "bad = set then", "else"].iter().map(|s| s.to_string())),
                _ => out.extend(["if false", "bad = set then", "elseif true"].iter().map(|s| s.to_string())),
            }
            for i in inner {
                lp_render(i, generic_end, out);
            }
            out.push("t = set \"${t} |\"".into());
            match kind {
                1 => out.extend(["else", "bad = set else"].iter().map(|s| s.to_string())),
                3 => out.extend(["elseif true", "bad = set elseif", "else", "bad = set else"].iter().map(|s| s.to_string())),
                _ => (),
            }
            out.push(end.into());
        }
    }
}

/// the tree walker for loop nests
fn lp_walk(l: &Lp, n: &mut u64, m: &mut u64, t: &mut String, k: &mut std::collections::BTreeMap<String, String>) {
    match l {
        Lp::W(id, cnt, leaf, inner) | Lp::F(id, cnt, leaf, inner) => {
            for _ in 0..*cnt {
                *n += 1;
                if *leaf > 0 {
                    *m += 1;
                }
                for i in inner {
                    lp_walk(i, n, m, t, k);
                }
            }
            k.insert(format!("k{}", id), cnt.to_string());
            t.push_str(&format!(" {}={}", id, cnt));
        }
        Lp::I(_, inner) => {
            for i in inner {
                lp_walk(i, n, m, t, k);
            }
            t.push_str(" |");
        }
    }
}

fn long_nests(tier: Tier) -> Vec<(String, Vec<Lp>)> {
    let counts: Vec<usize> = crate::util::with_thresholds_usize(tier.pick(vec![0, 1, 40, 70, 300], vec![0, 1, 40, 70, 300, 1000, 5000]), tier.pick(256, 4096));
    let mut out = vec![];
    let mk = |kind: u8, id: u32, n: usize, leaf: u8, inner: Vec<Lp>| if kind == 0 { Lp::W(id, n, leaf, inner) } else { Lp::F(id, n, leaf, inner) };
    for &n in &counts {
        for a in 0..2u8 {
            out.push((format!("single {} x{}", a, n), vec![mk(a, 1, n, 0, vec![])]));
            // an if-block around a long loop whose body runs a small if-block in every iteration
            for wrap in 0..4u8 {
                for leaf in 1..4u8 {
                    out.push((format!("if{} around {} x{} with leaf if{}", wrap, a, n, leaf), vec![Lp::I(wrap, vec![mk(a, 1, n, leaf, vec![])])]));
                }
            }
            for b in 0..2u8 {
                // outer loop due three iterations, inner loop running n times in each of them
                out.push((format!("nest {}{} 3x{}", a, b, n), vec![mk(a, 1, 3, 0, vec![mk(b, 2, n, 0, vec![])])]));
                // the long loop outside
                out.push((format!("nest {}{} {}x2", a, b, n), vec![mk(a, 1, n, 0, vec![mk(b, 2, 2, 0, vec![])])]));
                // two inner loops one after the other
                out.push((format!("nest {}[{}{}] 3x{}", a, b, b, n), vec![mk(a, 1, 3, 0, vec![mk(b, 2, n, 0, vec![]), mk(1 - b, 3, n, 0, vec![])])]));
                // the inner loop inside a branch, with and without branches after it
                for wrap in [0u8, 1, 3] {
                    out.push((format!("nest {}if{}{} 3x{}", a, wrap, b, n), vec![mk(a, 1, 3, 0, vec![Lp::I(wrap, vec![mk(b, 2, n, 1, vec![])])])]));
                }
                // three levels, the long loop in the middle
                out.push((format!("nest {}{}{} 2x{}x2", a, b, a, n), vec![mk(a, 1, 2, 0, vec![mk(b, 2, n, 0, vec![mk(a, 3, 2, 2, vec![])])])]));
            }
        }
    }
    // hundreds of thousands of iterations of a loop inside a loop: whatever the loops keep per iteration
    // must not be walked by recursion when the outer loop comes round
    for n in tier.pick(vec![150_000usize], vec![150_000usize, 600_000]) {
        out.push((format!("nest 00 2x{}", n), vec![mk(0, 1, 2, 0, vec![mk(0, 2, n, 0, vec![])])]));
        out.push((format!("if1 around 0 x{} with leaf if1", n), vec![Lp::I(1, vec![mk(0, 1, n, 1, vec![])])]));
    }
    // three and four loops inside each other, the innermost one making thousands of passes in every
    // round of the ones around it (every combination of while and for/in); and the long loop outermost
    for n in tier.pick(vec![7000usize], vec![7000usize, 20_000, 70_000]) {
        for a in 0..2u8 {
            for b in 0..2u8 {
                for c in 0..2u8 {
                    out.push((format!("nest {}{}{} 2x2x{}", a, b, c, n), vec![mk(a, 1, 2, 0, vec![mk(b, 2, 2, 0, vec![mk(c, 3, n, 0, vec![])])])]));
                    out.push((format!("nest {}{}{} {}x2x2", a, b, c, n), vec![mk(a, 1, n, 0, vec![mk(b, 2, 2, 0, vec![mk(c, 3, 2, 0, vec![])])])]));
                }
            }
            out.push((format!("nest {}000 2x2x2x{}", a, n), vec![mk(a, 1, 2, 0, vec![mk(0, 2, 2, 0, vec![mk(0, 3, 2, 0, vec![mk(0, 4, n, 1, vec![])])])])]));
        }
    }
    out
}

fn long_script(nest: &[Lp], generic_end: bool) -> String {
    let mut lines = vec!["n = set 0".to_string(), "m = set 0".to_string(), "t = set \"\"".to_string()];
    for l in nest {
        lp_render(l, generic_end, &mut lines);
    }
    lines.join("\n")
}

fn long_run_observed(text: &str) -> Result<std::collections::BTreeMap<String, String>, String> {
    let ctx = crate::util::sdk_context();
    let (env, _o, _e, _h) = crate::util::quiet_env();
    match guarded(|| duckscript::runner::run_script(text, ctx, Some(env))) {
        Err(p) => Err(format!("panic: {}", p)),
        Ok(Err(e)) => Err(format!("the run failed: {}", e)),
        Ok(Ok(c)) => Ok(c.variables.iter().filter(|(k, _)| k.as_str() == "n" || k.as_str() == "m" || k.as_str() == "bad" || k.as_str() == "t" || (k.starts_with('k') && k[1..].chars().all(|c| c.is_ascii_digit()))).map(|(k, v)| (k.clone(), v.clone())).collect()),
    }
}

fn long_runs(w: &mut Worker) {
    // a case of this family may kill the process (a stack that overflows): pin it to the case
    w.risky = true;
    // the largest nests take about ten seconds of processor time on an idle machine and several times
    // that on a loaded one (caches and hyper-threads are shared): the watchdog of this family is generous,
    // a loop that really does not end is still cut
    w.set_case_limit_ms(240_000);
    long_runs_inner(w);
    w.set_case_limit_ms(20_000);
    w.risky = false;
}

fn long_runs_inner(w: &mut Worker) {
    for (name, nest) in long_nests(w.tier) {
        for generic_end in [true, false] {
            if !w.take() {
                continue;
            }
            let text = long_script(&nest, generic_end);
            let cj = json!({"kind": "long-run", "name": name, "script": text});
            w.begin(|| cj.clone());
            let mut n = 0u64;
            let mut m = 0u64;
            let mut t = String::new();
            let mut exp = std::collections::BTreeMap::new();
            for l in &nest {
                lp_walk(l, &mut n, &mut m, &mut t, &mut exp);
            }
            exp.insert("n".into(), n.to_string());
            exp.insert("m".into(), m.to_string());
            exp.insert("t".into(), t);
            w.add_transitions(1);
            w.add_traces(1);
            w.count("long_run_loop_iterations", n);
            match long_run_observed(&text) {
                Err(e) => w.fail("long-run:run-failed", &format!("{} ({}): {}", name, if generic_end { "end" } else { "specific end" }, e), cj),
                Ok(got) if got != exp => w.fail(
                    "long-run:final-variables-differ",
                    &format!("{} ({}): implementation {:?}, tree walker {:?}", name, if generic_end { "end" } else { "specific end" }, got, exp),
                    cj,
                ),
                Ok(_) => w.pass(n > 3, hash64(&("long", n.min(400), nest.len()))),
            }
        }
    }
}

/// Pre-process lines (`!print`) inside blocks: they run nothing, wherever they stand - directly behind the
/// line that opens the block, between its lines, in front of its else / end - and the blocks run as
/// without them. One at a time at every place of seven block shapes, and at all places at once.
fn preprocess_lines_in_blocks(w: &mut Worker) {
    let shapes: [(&str, &str); 7] = [
        ("if", "if true\n@x = set 1\n@end"),
        ("else", "if false\n@x = set 0\n@else\n@x = set 1\n@end"),
        ("elseif", "if false\n@x = set 0\n@elseif true\n@x = set 1\n@else\n@x = set 2\n@end"),
        ("while", "i = set 0\nwhile less_than ${i} 2\n@i = calc ${i} + 1\n@end\nx = set 1"),
        ("for", "a = range 0 2\nn = set 0\nfor k in ${a}\n@n = calc ${n} + 1\n@end\nrelease ${a}\nx = set 1"),
        ("fn", "fn f\n@r = set 1\n@return ${r}\n@end\nx = f"),
        ("nested", "if true\n@while false\n@y = set 0\n@end\n@if true\n@x = set 1\n@end\n@end"),
    ];
    for (kind, shape) in shapes {
        let places = shape.matches('@').count();
        for directive in ["!print -", "!print", "!print a b c"] {
            for at in 0..=places {
                // `at == places`: every place at once
                let mut k = 0usize;
                let mut text = String::new();
                for part in shape.split('@') {
                    if k > 0 && (at == places || at == k - 1) {
                        text.push_str(directive);
                        text.push('\n');
                    }
                    text.push_str(part);
                    k += 1;
                }
                text.push_str("\nafter = set reached");
                crate::util::scale_case(w, &format!("preprocess-line-in-block {} {:?} at {}", kind, directive, at), &text, &[("x", Some("1".into())), ("after", Some("reached".into()))]);
            }
        }
    }
}

/// Blocks whose bodies call library commands that are themselves scripts with blocks (concat,
/// join_path, array_contains, array_join, map_contains_value, set_from_array, array_concat): the
/// called script runs on line numbers of its own, inside the same run. The block is moved down the
/// script line by line, so that its `end` (and `else`) lines fall on every line index the called
/// scripts use for theirs; closed by the generic `end` and by the specific end command.
fn library_calls_in_bodies(w: &mut Worker) {
    let calls: [(&str, &str, Option<&str>); 12] = [
        ("concat a b", "", Some("ab")),
        ("join_path a b", "", Some("a/b")),
        ("array_contains ${arr} b", "", Some("1")),
        ("array_join ${arr} ,", "", Some("a,b,c")),
        ("map_contains_value ${m} v", "", Some("true")),
        ("map_contains_value ${m} nothing", "", Some("false")),
        ("set_from_array ${arr}", "r = set_size ${r}", Some("3")),
        ("array_concat ${arr} ${arr}", "r = array_length ${r}", Some("6")),
        ("array_contains ${arr} nothing", "", Some("false")),
        // library scripts that stop with an error: the caller's blocks go on as written
        ("array_join nohandle ,", "", Some("false")),
        ("set_from_array nohandle", "", Some("false")),
        ("array_concat ${arr} nohandle", "", Some("false")),
    ];
    let max_pad = w.tier.pick(20usize, 60usize);
    for (call, post, value) in calls {
        for kind in ["while", "for", "if", "else", "elseif", "fn", "nested"] {
            for generic_end in [true, false] {
                for pad in 0..=max_pad {
                    let e = |specific: &str| if generic_end { "end".to_string() } else { specific.to_string() };
                    let body = if post.is_empty() { format!("r = {}", call) } else { format!("r = {}\n{}", call, post) };
                    let (block, expect): (String, Vec<(&str, Option<String>)>) = match kind {
                        "while" => (format!("i = set 0\nwhile less_than ${{i}} 3\ni = calc ${{i}} + 1\n{}\n{}", body, e("end_while")), vec![("i", Some("3".into()))]),
                        "for" => (format!("n = set 0\nfor x in ${{arr}}\nn = calc ${{n}} + 1\n{}\n{}", body, e("end_for")), vec![("n", Some("3".into())), ("x", Some("c".into()))]),
                        "if" => (format!("if true\n{}\nt = set then\nelse\nt = set else\n{}", body, e("end_if")), vec![("t", Some("then".into()))]),
                        "else" => (format!("if false\nt = set then\nelse\n{}\nt = set else\n{}", body, e("end_if")), vec![("t", Some("else".into()))]),
                        "elseif" => (format!("if false\nt = set then\nelseif true\n{}\nt = set elseif\nelse\nt = set else\n{}", body, e("end_if")), vec![("t", Some("elseif".into()))]),
                        "fn" => (format!("fn f\n{}\nreturn ${{r}}\n{}\no = f", body, e("end_fn")), vec![("o", value.map(String::from))]),
                        _ => (
                            format!("i = set 0\nk = set 0\nwhile less_than ${{i}} 2\ni = calc ${{i}} + 1\nfor x in ${{arr}}\nif true\n{}\nk = calc ${{k}} + 1\n{}\n{}\n{}", body, e("end_if"), e("end_for"), e("end_while")),
                            vec![("i", Some("2".into())), ("k", Some("6".into()))],
                        ),
                    };
                    let pads: String = (0..pad).map(|k| format!("p{} = set x\n", k % 3)).collect();
                    let text = format!("{}arr = array a b c\nm = map\nmap_put ${{m}} k v\n{}\ndone = set yes", pads, block);
                    let mut expect = expect;
                    expect.push(("r", value.map(String::from)));
                    expect.push(("done", Some("yes".into())));
                    crate::util::scale_case(w, &format!("library-call-in-body {} around {:?} moved down {} ({})", kind, call, pad, if generic_end { "end" } else { "specific end" }), &text, &expect);
                }
            }
        }
    }
}

pub fn worker(w: &mut Worker) {
    let tier = w.tier;
    // the small fixed cases first, under a short limit: a block that does not come back shows within
    // seconds, before the long-running families use up the time
    w.set_case_limit_ms(4_000);
    preprocess_lines_in_blocks(w);
    w.set_case_limit_ms(20_000);
    long_runs(w);
    library_calls_in_bodies(w);
    let rig = FlowRig::new();
    let (devs, horizon) = tier.pick((2usize, 8usize), (3usize, 12usize));

    // single-block programs: full product of keyword spellings
    for forest in forests(1, 3) {
        for emptiness in 0..2u8 {
            for forms in [0u8, 1, 2, 3, 8] {
                let prog = build(&forest, emptiness, forms);
                // discover the radices
                let mut sp = Speller::digits(vec![]);
                let _ = render(&prog, &mut sp);
                let radices = sp.radices();
                let total: usize = radices.iter().product();
                for n in 0..total {
                    if !w.take() {
                        continue;
                    }
                    let mut digits = vec![];
                    let mut x = n;
                    for r in &radices {
                        digits.push(x % r);
                        x /= r;
                    }
                    let text = render(&prog, &mut Speller::digits(digits.clone()));
                    let cj = json!({"script": text, "blocks": 1});
                    w.begin(|| cj.clone());
                    let r = explore_program(&rig, &prog, &text, devs + 1, horizon, 200_000);
                    report(w, r, cj, true, hash64(&(1, format!("{:?}", forest).len(), forms)));
                }
            }
        }
    }
    // 2..N blocks: rotated spellings
    let nmax = tier.pick(2usize, 3usize);
    for n in 2..=nmax {
        for forest in forests(n, 3) {
            for emptiness in 0..4u8 {
                for forms in 0..9u8 {
                    // rotations: every keyword occurrence meets every one of its spellings
                    for rot in 0..5usize {
                        if n >= 3 && !(rot == 0 || (rot == 1 && forms % 2 == 0)) {
                            continue;
                        }
                        if !w.take() {
                            continue;
                        }
                        let prog = build(&forest, emptiness, forms);
                        let text = render(&prog, &mut Speller::rot(rot));
                        let cj = json!({"script": text, "blocks": n});
                        w.begin(|| cj.clone());
                        // two blocks: one more deviation than the tier's default, so that a loop can run
                        // twice *and* two conditions inside it can deviate (the same block executed again)
                        let d = if n == 2 { devs.max(3) } else { devs };
                        let r = explore_program(&rig, &prog, &text, d, horizon, 200_000);
                        report(w, r, cj, true, hash64(&(n, count(&forest), forms, rot)));
                    }
                }
            }
        }
    }
    if tier == Tier::Quick {
        // three blocks nested in one another (depth 3 chains): block boundary discovery across
        // alternating block kinds needs three levels to go wrong
        for forest in forests(3, 3) {
            if !is_chain(&forest) {
                continue;
            }
            for (forms, rot) in [(2u8, 0usize), (0u8, 0usize), (2u8, 1usize), (7u8, 2usize)] {
                if !w.take() {
                    continue;
                }
                let prog = build(&forest, 0, forms);
                let text = render(&prog, &mut Speller::rot(rot));
                let cj = json!({"script": text, "blocks": 3});
                w.begin(|| cj.clone());
                let r = explore_program(&rig, &prog, &text, devs, horizon, 100_000);
                report(w, r, cj, true, hash64(&(3, "chain", forms, rot)));
            }
        }
    }
    if tier == Tier::Thorough {
        // four blocks: plain aliases with the generic `end`, uniform command-form conditions
        for forest in forests(4, 3) {
            for forms in [0u8, 2u8] {
                if !w.take() {
                    continue;
                }
                let prog = build(&forest, 0, forms);
                let text = render(&prog, &mut Speller::rot(0));
                let cj = json!({"script": text, "blocks": 4});
                w.begin(|| cj.clone());
                let r = explore_program(&rig, &prog, &text, 2, 10, 50_000);
                report(w, r, cj, true, hash64(&(4, forms)));
            }
        }
    }
}

pub fn replay(case: &Value) -> Result<String, String> {
    if let Some(r) = crate::util::scale_replay(case) {
        return r;
    }
    let text = case["script"].as_str().ok_or("no script")?;
    if case["kind"].as_str() == Some("long-run") {
        return Ok(match long_run_observed(text) {
            Ok(v) => format!("variables: {:?}", v),
            Err(e) => e,
        });
    }
    let decided: Vec<(Key, u16)> = case["answers"]
        .as_array()
        .map(|a| {
            a.iter()
                .map(|e| ((e[0].as_u64().unwrap_or(0) as u32, e[1].as_u64().unwrap_or(0) as u32), e[2].as_u64().unwrap_or(0) as u16))
                .collect()
        })
        .unwrap_or_default();
    let rig = FlowRig::new();
    let (got, _) = rig.run(text, &decided, 4);
    Ok(match got {
        Ok(t) => format!("emits: {:?}\nvariables: {:?}", t.emits, t.vars),
        Err(e) => format!("run failed: {}", e),
    })
}

pub fn crash_sig(_case: &Value, kind: &str) -> String {
    kind.to_string()
}

pub const RULE: &str = "programs: every well-nested forest of blocks {if with 0-2 elseif and optional else, while, for-in} with 1..N blocks and depth <= 3, an emit before / inside / after every block, leaf bodies with and without an emit, condition forms {value ${c}, ${c} and ${d}, ${c} or ${d} and ${e}, command `ans`, negated command `not ans`} uniform and rotating; single-block programs with the full product of every spelling of every keyword (alias, block-specific end, generic end, full command name), larger ones with rotated spellings so that every keyword occurrence meets each of its spellings; for every program every assignment of truth values to condition evaluations and of lengths {0,1,2} to for-in arrays with a bounded number of deviations from the default (false / empty) within a horizon of choice points. Plus long-running loop nests (while / for-in, single, nested two and three deep, two inner loops in sequence, an inner loop inside a branch with and without branches after it, a small if-block (no else / else taken / last elseif taken) in every iteration of a long loop that sits in a branch of an if / if-else / elseif chain whose later branches must not run; iteration counts {0,1,40,70,300} quick, up to 5000 thorough, plus a 150000-iteration (thorough 600000) loop inside a loop and inside an if with an else; generic and block-specific end) whose counters and exit trace are compared with the same nest walked in Rust. Every execution on the real runner is compared with a tree-walking interpreter of the same AST run on the same answers: emit trace with loop-variable values and final variables (loop variables after their loop and handle names masked). evaluations = rendered programs; transitions = executions; states = distinct (trace length, deviations) classes Library calls in bodies: while / for / if / else / elseif / function / three nested blocks around each of 9 calls of library commands that are scripts with blocks of their own, the block moved down the script by 0..20 (thorough 60) lines so that its end lines meet every line index, closed by `end` and by the specific end command: iteration counts, branch taken, result of the call The library calls include three that end with an error (array_join / set_from_array / array_concat on something that is no array) Nests of three and four loops inside each other (every combination of while and for/in) whose innermost loop makes 7000 (thorough 20000, 70000) passes in every round of the loops around it, and the same with the long loop outermost. Pre-process lines in blocks: a `!print` line (3 spellings) at every place inside seven block shapes (if, else, elseif, while, for, fn, nested), one at a time and at all places at once: the blocks run as without it.";
pub const ASSUMPTIONS: &[&str] = &["ill-nested programs, arrays modified while iterated and jumps into blocks are outside the property", "value-form conditions of an if/elseif chain are computed in front of the block"];
pub const EXHAUSTIVE: bool = true;
pub const WALL_CAP_S: (u64, u64) = (55, 1500);
