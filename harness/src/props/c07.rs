//! C07 — no script can panic, abort or hang the embedding process.
//! Engine E3 + supervisor: every registered command (minus the blocking / process-leaving ones)
//! x every argument tuple up to an arity from a value pool; two-step histories; every short
//! script over a pool of awkward lines; the include cycle. Each case runs in a worker process under
//! a watchdog: a panic is caught, an abort or a hang kills the worker and is pinned to the case.

use crate::engine::*;
use crate::util::*;
use duckscript::runner;
use duckscript::types::command::{Command, CommandInvocationContext, CommandResult, Commands};
use duckscript::types::runtime::Context;
use serde_json::{json, Value};
use std::cell::Cell;
use std::rc::Rc;

const DENY: [&str; 12] = [
    "std::ReadUserInput",
    "std::thread::Sleep",
    "std::process::Execute",
    "std::process::Spawn",
    "std::process::Exit",
    "std::process::Watchdog",
    "std::net::",
    "std::test::TestDirectory",
    "std::test::TestFile",
    "std::env::SetCurrentDirectory",
    "std::fs::TempDirectory",
    "std::fs::TempFile",
];

fn denied(name: &str) -> bool {
    DENY.iter().any(|d| if d.ends_with("::") { name.starts_with(d) } else { name == *d })
}

/// value pool; `@array` etc. are replaced by live handles of a prepared session
const POOL: [&str; 28] = [
    "9223372036854775807", "-9223372036854775808", "\n", "aé😀日", "NaN", "@badbytes", "@selfarray", "@selfmap", "@outercycle", "j", "a=b", "", "a", "a b", "é😀", "-1", "0", "1", "2.5", "99999999999999999999", "@array", "@map", "@set", "@bytes", "@released", "-r", "a\nb", "--FLAG",
];
/// every option flag a command of the library (outside the excluded ones) knows
const FLAGS: [&str; 18] = ["--copy", "--prefix", "--collection", "--file", "--handle", "--type", "--style", "--color", "--recursive", "--path", "--include-hidden", "--content", "--append", "--algo", "--base", "--silent", "-s", "-c"];

struct Prepared {
    s: Session,
    array: String,
    map: String,
    set: String,
    bytes: String,
    released: String,
    /// an array that contains its own handle, and a map whose child array points back to the map
    selfarray: String,
    selfmap: String,
    /// an array holding a map that holds itself: a cycle that does not pass through the root
    outercycle: String,
    /// bytes that are not UTF-8: a multi-byte character cut off at the end
    badbytes: String,
}

fn prepare() -> Prepared {
    let mut s = Session::new();
    let get = |o: Out| match o {
        Out::Val(Some(h)) => h,
        other => panic!("harness: could not prepare a handle: {:?}", other),
    };
    let array = get(s.call("array", &["x", "y"]));
    let map = get(s.call("map", &[]));
    s.call("map_put", &[&map, "k", "v"]);
    // keys and values that are awkward as names elsewhere (environment variables, properties, paths)
    s.call("map_put", &[&map, "a=b", "v=w"]);
    s.call("map_put", &[&map, "", ""]);
    s.call("map_put", &[&map, "k é\n", "é\n"]);
    let set = get(s.call("set_new", &["x"]));
    let bytes = get(s.call("string_to_bytes", &["xyz"]));
    let badbytes = get(s.call("base64_decode", &["YWLigg=="]));
    let released = get(s.call("array", &["gone"]));
    s.call("release", &[&released]);
    let selfarray = get(s.call("array", &["first"]));
    s.call("array_push", &[&selfarray, &selfarray]);
    let selfmap = get(s.call("map", &[]));
    let child = get(s.call("array", &[&selfmap]));
    s.call("map_put", &[&selfmap, "children", &child]);
    let inner = get(s.call("map", &[]));
    s.call("map_put", &[&inner, "self", &inner]);
    let outercycle = get(s.call("array", &[&inner]));
    s.variables.insert("a".into(), "value".into());
    s.variables.insert("scope::x".into(), "1".into());
    // `j` names a decoded JSON array (the variable layout of json_decode) whose length is huge
    s.variables.insert("j.length".into(), "99999999999".into());
    s.variables.insert("j[0]".into(), "first".into());
    Prepared { s, array, map, set, bytes, released, selfarray, selfmap, outercycle, badbytes }
}

/// The working directory of every command case: emptied and given the same small tree {file `a`,
/// file `0`, directory `1` holding the file `inner`}, so that path-like pool values name existing
/// files and directories and no case sees what an earlier case left behind.
fn reset_work(work: &std::path::Path) {
    if let Ok(rd) = std::fs::read_dir(work) {
        for e in rd.flatten() {
            let p = e.path();
            let is_dir = e.file_type().map(|t| t.is_dir()).unwrap_or(false);
            let r = if is_dir { std::fs::remove_dir_all(&p) } else { std::fs::remove_file(&p) };
            if r.is_err() {
                // a case may have taken permissions away
                use std::os::unix::fs::PermissionsExt;
                let _ = std::fs::set_permissions(&p, std::fs::Permissions::from_mode(0o700));
                let _ = if is_dir { std::fs::remove_dir_all(&p) } else { std::fs::remove_file(&p) };
            }
        }
    }
    let _ = std::fs::write(work.join("a"), "content of a\n");
    let _ = std::fs::write(work.join("0"), "");
    let _ = std::fs::create_dir(work.join("1"));
    let _ = std::fs::write(work.join("1").join("inner"), "inner\n");
}

fn resolve(p: &Prepared, v: &str, flag: &str) -> String {
    match v {
        "@array" => p.array.clone(),
        "@map" => p.map.clone(),
        "@set" => p.set.clone(),
        "@bytes" => p.bytes.clone(),
        "@released" => p.released.clone(),
        "@selfarray" => p.selfarray.clone(),
        "@selfmap" => p.selfmap.clone(),
        "@outercycle" => p.outercycle.clone(),
        "@badbytes" => p.badbytes.clone(),
        "--FLAG" => flag.to_string(),
        o => o.to_string(),
    }
}

fn class_of_arg(v: &str) -> &'static str {
    match v {
        "" => "empty",
        "a\nb" => "line-break",
        "\n" => "only-a-line-break",
        "a=b" => "contains-equals",
        "é😀" => "multi-byte",
        "aé😀日" => "multi-byte-misaligned",
        "-1" => "negative",
        "99999999999999999999" | "9223372036854775807" => "huge-number",
        "-9223372036854775808" => "most-negative-number",
        "2.5" => "decimal",
        "NaN" => "not-a-number",
        "@selfarray" | "@selfmap" | "@outercycle" => "self-containing-collection",
        "j" => "name-of-huge-json-array",
        x if x.starts_with('@') => "handle",
        x if x.starts_with('-') => "flag",
        "0" | "1" => "small-number",
        _ => "text",
    }
}

pub fn bounds(tier: Tier) -> Value {
    match tier {
        Tier::Quick => json!({"arity": 2, "pool": POOL.len(), "flag_passes": 18, "script_lines": 3, "script_line_pool": SCRIPT_LINES.len()}),
        Tier::Thorough => json!({"arity": 3, "pool": POOL.len(), "flag_passes": 18, "script_lines": 4, "script_line_pool": SCRIPT_LINES.len()}),
    }
}

const SCRIPT_LINES: [&str; 24] = [
    "end",
    "else",
    "elseif true",
    "return",
    "return x",
    "fn",
    "fn f",
    "end_fn",
    "for x in",
    "for x in nohandle",
    "for x in ${arr}",
    "arr = array a b",
    "while true",
    "if true",
    "if",
    "goto :nowhere",
    "goto :l",
    ":l",
    "f",
    "x = f a",
    "scope_pop_stack",
    "unset",
    "release ${arr}",
    "on_error",
];

#[derive(Clone)]
struct Counted {
    inner: Box<dyn Command>,
    steps: Rc<Cell<usize>>,
}

impl Command for Counted {
    fn name(&self) -> String {
        self.inner.name()
    }
    fn aliases(&self) -> Vec<String> {
        self.inner.aliases()
    }
    fn help(&self) -> String {
        self.inner.help()
    }
    fn clone_and_box(&self) -> Box<dyn Command> {
        Box::new(self.clone())
    }
    fn run(&self, context: CommandInvocationContext) -> CommandResult {
        let n = self.steps.get() + 1;
        self.steps.set(n);
        if n > 400 {
            // loops are allowed to run: the embedder's own way to end them is the halt flag
            context.env.halt.store(true, std::sync::atomic::Ordering::SeqCst);
        }
        if n > 5000 {
            // a nested loop does not poll the flag: end it through the error path
            return CommandResult::Crash("step budget".into());
        }
        self.inner.run(context)
    }
}

fn counted_commands() -> (Commands, Rc<Cell<usize>>) {
    let mut commands = sdk_context().commands;
    let steps = Rc::new(Cell::new(0usize));
    for name in commands.get_all_command_names() {
        let inner = commands.get(&name).unwrap().clone();
        commands.remove(&name);
        commands.set(Box::new(Counted { inner, steps: steps.clone() })).unwrap();
    }
    (commands, steps)
}

pub fn worker(w: &mut Worker) {
    let tier = w.tier;
    w.risky = true;
    w.set_case_limit_ms(4_000);
    let _ = std::fs::create_dir_all(&w.scratch);
    let work = w.scratch.join("c07-cwd");
    let _ = std::fs::create_dir_all(&work);
    std::env::set_current_dir(&work).expect("chdir to scratch");
    std::env::set_var("TMPDIR", &work);

    let names: Vec<String> = sdk_context().commands.get_all_command_names().into_iter().filter(|n| !denied(n)).collect();
    let arity = tier.pick(2usize, 3usize);
    let flag_passes = FLAGS.len();

    // (b) two-step histories on one state
    let pairs: Vec<(&str, Vec<&str>, &str, Vec<&str>)> = vec![
        ("release", vec!["@array"], "array_push", vec!["@array", "x"]),
        ("release", vec!["@array"], "array_join", vec!["@array", ","]),
        ("release", vec!["@map"], "map_to_properties", vec!["@map"]),
        ("release", vec!["@set"], "set_to_array", vec!["@set"]),
        ("release", vec!["@bytes"], "bytes_to_string", vec!["@bytes"]),
        ("scope_push_stack", vec!["--copy", "a", "nosuch"], "scope_pop_stack", vec!["--copy", "nosuch", "a", "a"]),
        ("scope_pop_stack", vec![], "scope_pop_stack", vec!["--copy", "a"]),
        ("unset_all_vars", vec![], "scope_pop_stack", vec!["--copy", "a"]),
        ("array_clear", vec!["@array"], "array_pop", vec!["@array"]),
        ("array_clear", vec!["@array"], "array_join", vec!["@array", ""]),
        ("remove_command", vec!["set"], "concat", vec!["a", "b"]),
        ("remove_command", vec!["end"], "array_contains", vec!["@array", "x"]),
        ("remove_command", vec!["for"], "unset", vec!["a"]),
        ("alias", vec!["set", "nosuchcommand"], "concat", vec!["a", "b"]),
        ("set_by_name", vec!["scope::unset::arguments", "x"], "unset", vec!["a"]),
    ];
    for (c1, a1, c2, a2) in &pairs {
        if !w.take() {
            continue;
        }
        let cj = json!({"kind": "pair", "first": [c1, a1], "second": [c2, a2]});
        w.begin(|| cj.clone());
        reset_work(&work);
        let mut p = prepare();
        let r1: Vec<String> = a1.iter().map(|v| resolve(&p, v, "")).collect();
        let r2: Vec<String> = a2.iter().map(|v| resolve(&p, v, "")).collect();
        let o1 = p.s.call(c1, &r1.iter().map(|s| s.as_str()).collect::<Vec<_>>());
        let o2 = p.s.call(c2, &r2.iter().map(|s| s.as_str()).collect::<Vec<_>>());
        w.add_transitions(2);
        let bad = [o1, o2].into_iter().find(|o| matches!(o, Out::Panic(_)));
        match bad {
            Some(Out::Panic(m)) => w.fail(&format!("panic:{}-then-{}", c1, c2), &format!("{} {:?}; {} {:?}: panic {}", c1, a1, c2, a2, m), cj),
            _ => w.pass(true, hash64(&("pair", c1, c2))),
        }
    }

    // (c) scripts over awkward lines
    let (commands, steps) = counted_commands();
    let nl = tier.pick(3usize, 4usize);
    let idx: Vec<usize> = (0..SCRIPT_LINES.len()).collect();
    for seq in Strings::new(&idx[..], 1, nl) {
        if !w.take() {
            continue;
        }
        let text = seq.iter().map(|&i| SCRIPT_LINES[i]).collect::<Vec<_>>().join("\n");
        let cj = json!({"kind": "script", "script": text});
        w.begin(|| cj.clone());
        steps.set(0);
        let mut ctx = Context::new();
        ctx.commands = commands.clone();
        let (env, _o, _e, h) = quiet_env();
        *w.watch_slot().halt.lock().unwrap() = Some(h);
        let r = guarded(|| runner::run_script(&text, ctx, Some(env)));
        w.add_transitions(1);
        match r {
            Err(p) => {
                let first = seq.iter().map(|&i| SCRIPT_LINES[i].split(' ').next().unwrap_or("")).collect::<Vec<_>>().join("+");
                w.fail(&format!("panic:script:{}", first), &format!("script {:?}: panic {}", text, p), cj)
            }
            Ok(res) => w.pass(seq.len() > 1, hash64(&("script", res.is_ok(), steps.get().min(10)))),
        }
    }

    // (e) a collection changed while a loop iterates over it
    let mutators = [
        "array_clear ${arr}",
        "array_pop ${arr}",
        "array_remove ${arr} 0",
        "release ${arr}",
        "array_push ${arr} more",
        "array_set ${arr} 0 changed",
        "arr = array other",
        "unset arr",
        "x = array_pop ${arr}\narray_pop ${arr}",
    ];
    for m in mutators {
        for size in 0..4usize {
            for wrap in 0..3usize {
                if !w.take() {
                    continue;
                }
                let items: Vec<String> = (0..size).map(|i| format!("v{}", i)).collect();
                let body = match wrap {
                    0 => m.to_string(),
                    1 => format!("if true\n{}\nend", m),
                    _ => format!("echo ${{x}}\n{}\necho after", m),
                };
                let text = format!("arr = array {}\nfor x in ${{arr}}\n{}\nend\necho done", items.join(" "), body);
                let cj = json!({"kind": "script", "script": text});
                w.begin(|| cj.clone());
                steps.set(0);
                let mut ctx = Context::new();
                ctx.commands = commands.clone();
                let (env, _o, _e, h) = quiet_env();
                *w.watch_slot().halt.lock().unwrap() = Some(h);
                let r = guarded(|| runner::run_script(&text, ctx, Some(env)));
                w.add_transitions(1);
                match r {
                    Err(p) => w.fail(&format!("panic:loop-mutation:{}", m.split(' ').next().unwrap_or("")), &format!("script {:?}: panic {}", text, p), cj),
                    Ok(res) => w.pass(true, hash64(&("loop-mutation", res.is_ok(), size))),
                }
            }
        }
    }

    // (f) a user function (and an alias of it) as the condition of if / elseif / while / not, for every
    // way the function can end
    for body in ["", "return", "return true", "return false", "x = set 1", "x = set 1\nreturn", "if true\nreturn true\nend"] {
        for (ci, consumer) in ["if C\necho yes\nend", "if false\nelseif C\necho yes\nend", "n = set 0\nwhile C\nn = calc ${n} + 1\nif greater_than ${n} 2\ngoto :out\nend\nend\n:out", "r = not C", "r = C", "C"].iter().enumerate() {
            for (ai, call) in ["f a", "al a", "al"].iter().enumerate() {
                if !w.take() {
                    continue;
                }
                let text = format!("alias al f\nfn f\n{}\nend\n{}\necho done", body, consumer.replace('C', call));
                let cj = json!({"kind": "script", "script": text, "plain_commands": true});
                w.begin(|| cj.clone());
                // the plain library, without the command counter that halts runaway scripts: these scripts
                // end by themselves, and a run that does not is cut by the watchdog and reported
                let ctx = sdk_context();
                let (env, _o, _e, _h) = quiet_env();
                let r = guarded(|| runner::run_script(&text, ctx, Some(env)));
                w.add_transitions(1);
                match r {
                    Err(p) => w.fail("panic:function-as-condition", &format!("script {:?}: panic {}", text, p), cj),
                    Ok(res) => w.pass(true, hash64(&("function-as-condition", res.is_ok(), ci, ai))),
                }
            }
        }
    }

    // (h) a function that calls itself without end from condition position; (g) aliases that stand for themselves, directly and through one another
    for text in ["alias a a\na\necho done", "alias a a x\nr = a y\necho done", "alias a b\nalias b a\nr = a x\necho done", "alias a b\nalias b c\nalias c a\nif a x\nend\necho done", "alias a not a\nr = a\necho done", "fn f\nend\neval f\necho done", "fn f\nreturn v\nend\nx = eval f a\necho done", "fn f\nend\nalias al f\nr = eval al\necho done"] {
        if !w.take() {
            continue;
        }
        let cj = json!({"kind": "script", "script": text, "plain_commands": true});
        w.begin(|| cj.clone());
        let (env, _o, _e, _h) = quiet_env();
        let r = guarded(|| runner::run_script(text, sdk_context(), Some(env)));
        w.add_transitions(1);
        match r {
            Err(p) => w.fail("panic:self-alias", &format!("script {:?}: panic {}", text, p), cj),
            Ok(res) => w.pass(true, hash64(&("self-alias", res.is_ok()))),
        }
    }

    // (j) functions in condition position whose body does not get to its return: an unknown command (a
    // crash, turned into an error of the condition), an error, an exit - directly, one call down, inside a
    // loop, in a scoped function; then the script goes on and calls them again
    {
        let stops = ["no_such_command_here", "trigger_error oops", "array_pop nohandle", "x = array_join nohandle ,", "goto :nowhere"];
        let shapes = [
            "fn broken\nSTOP\nreturn true\nend\nif broken\nx = set 1\nend\nr = not broken\necho done",
            "fn broken\nSTOP\nreturn true\nend\nfn f\nif broken\nx = set 1\nend\nreturn fine\nend\nif f\nr = set then\nelse\nr = set else\nend\nif f\nend\necho done",
            "fn <scope> broken\nSTOP\nreturn true\nend\nfn <scope> f\nr = not broken\nreturn ${r}\nend\nlist = array a b c\nfor item in ${list}\nif f ${item}\nend\nwhile f ${item}\ngoto :out${item}\nend\n:out${item}\nend\necho done",
            "fn broken\nSTOP\nreturn true\nend\nfn f\nv = broken\nreturn ${v}\nend\nn = set 0\nwhile less_than ${n} 3\nn = calc ${n} + 1\nif f\nend\nr = not f\nend\necho done",
        ];
        for stop in stops {
            for shape in shapes {
                if !w.take() {
                    continue;
                }
                let text = shape.replace("STOP", stop);
                let cj = json!({"kind": "script", "script": text, "plain_commands": true});
                w.begin(|| cj.clone());
                let (env, _o, _e, _h) = quiet_env();
                let r = guarded(|| runner::run_script(&text, sdk_context(), Some(env)));
                w.add_transitions(1);
                match r {
                    Err(p) => w.fail("panic:function-stopped-in-condition", &format!("script {:?}: panic {}", text, p), cj),
                    Ok(res) => w.pass(true, hash64(&("function-stopped-in-condition", res.is_ok()))),
                }
            }
        }
    }

    // (h) a function that calls itself without end from condition position. Plain calls are jumps and such
    // a script just never ends; a call in condition position is evaluated by a nested interpreter, so
    // this one uses the native stack up (recorded as a known finding, see KNOWN_FINDINGS.txt)
    for text in ["fn f\nif f\nend\nend\nf\necho done", "fn f\nr = not f\nend\nf\necho done"] {
        if !w.take() {
            continue;
        }
        let cj = json!({"kind": "self-recursion", "script": text, "plain_commands": true});
        w.begin(|| cj.clone());
        let (env, _o, _e, _h) = quiet_env();
        let r = guarded(|| runner::run_script(text, sdk_context(), Some(env)));
        w.add_transitions(1);
        match r {
            Err(p) => w.fail("panic:self-recursion", &format!("script {:?}: panic {}", text, p), cj),
            Ok(res) => w.pass(true, hash64(&("self-recursion", res.is_ok()))),
        }
    }

    // (i) a command that writes a family of variables under its output name (json_parse in variable
    // form, read_properties, the for loop's variable ...) run when variables of that family are already
    // there with awkward values: sizes and indexes left by "an earlier result" are data of the script
    {
        let stale_values = ["18446744073709551615", "9223372036854775807", "99999999999999", "-1", "-9223372036854775808", "0", "2.5", "NaN", "", "x", "1e18", "4294967296"];
        let stale_names = ["d.length", "d[0]", "d[1]", "d.items.length", "d.items[0]", "d.items", "d", "d.a", "d.a.length", "d.length.length"];
        let writers = [
            "d = json_parse [1,2]",
            "d = json_parse {\"items\":[1,2]}",
            "d = json_parse {\"a\":{\"length\":3}}",
            "d = json_parse {\"length\":7}",
            "d = json_parse []",
            "d = json_parse \"text\"",
            "e = json_encode d",
            "e = json_encode --collection d",
            "c = read_properties --prefix d \"length=5\\nitems.length=6\"",
            "unset_all_vars --prefix d",
            "n = get_all_var_names",
        ];
        for writer in writers {
            for name in stale_names {
                for value in stale_values {
                    if !w.take() {
                        continue;
                    }
                    let text = format!("{}\n{}\n{}\necho done", crate::render::line(Some(name), "set", &[value]), writer, writer);
                    let cj = json!({"kind": "script", "script": text, "plain_commands": true});
                    w.begin(|| cj.clone());
                    let (env, _o, _e, _h) = quiet_env();
                    let r = guarded(|| runner::run_script(&text, sdk_context(), Some(env)));
                    w.add_transitions(1);
                    match r {
                        Err(p) => w.fail("panic:stale-variables", &format!("script {:?}: panic {}", text, p), cj),
                        Ok(res) => w.pass(true, hash64(&("stale-variables", res.is_ok()))),
                    }
                }
            }
        }
        // the same through a first result whose keys spell such names
        for first in ["{\"items.length\": 18446744073709551615}", "{\"length\": 18446744073709551615}", "{\"items\":{\"length\": 99999999999999}}", "[18446744073709551615]"] {
            for second in ["{\"items\":[1,2]}", "[1,2]", "{\"items\":[]}", "7"] {
                if !w.take() {
                    continue;
                }
                let text = format!("d = json_parse {}\nd = json_parse {}\ne = json_encode d\necho done", first, second);
                let cj = json!({"kind": "script", "script": text, "plain_commands": true});
                w.begin(|| cj.clone());
                let (env, _o, _e, _h) = quiet_env();
                let r = guarded(|| runner::run_script(&text, sdk_context(), Some(env)));
                w.add_transitions(1);
                match r {
                    Err(p) => w.fail("panic:stale-variables", &format!("script {:?}: panic {}", text, p), cj),
                    Ok(res) => w.pass(true, hash64(&("stale-variables-2", res.is_ok()))),
                }
            }
        }
    }

    // (d) include cycles: 1..3 files in a ring x the spellings of the directive the parser accepts (blanks
    // and a tab behind the bang) x the ways to write the path of the next file (./name, bare name,
    // absolute, through a sub directory and back, a different way at every hop) x what else the files
    // hold (plain text, a byte that is not UTF-8 in a comment, a byte order mark, CRLF line ends, the
    // directive as the last line without a line end): parse_file comes back, with instructions or an error
    {
        let spellings = ["!include_files", "! include_files", "!  include_files", "!\tinclude_files"];
        let contents: [(&str, &[u8], &[u8]); 5] = [("plain", b"x = set 1\n", b"\ny = set 2\n"), ("not-utf8", b"# caf\xe9\nx = set 1\n", b"\ny = set 2\n"), ("bom", b"\xef\xbb\xbfx = set 1\n", b"\n"), ("crlf", b"x = set 1\r\n", b"\r\ny = set 2\r\n"), ("last-line", b"x = set 1\n", b"")];
        for ring in 1..=3usize {
            for (si, spelling) in spellings.iter().enumerate() {
                for path_form in 0..5usize {
                    for (cname, head, tail) in contents.iter() {
                        if !w.take() {
                            continue;
                        }
                        let cj = json!({"kind": "include-cycle", "files": ring, "spelling": spelling, "path_form": path_form, "content": cname});
                        w.begin(|| cj.clone());
                        let d = work.join("cycle");
                        let _ = std::fs::remove_dir_all(&d);
                        let _ = std::fs::create_dir_all(d.join("sub"));
                        for k in 0..ring {
                            let next = format!("f{}.ds", (k + 1) % ring);
                            let form = if path_form == 4 { (k + si) % 4 } else { path_form };
                            let path = match form {
                                0 => format!("./{}", next),
                                1 => next.clone(),
                                2 => d.join(&next).to_string_lossy().to_string(),
                                _ => format!("./sub/../{}", next),
                            };
                            let mut bytes: Vec<u8> = head.to_vec();
                            bytes.extend_from_slice(format!("{} {}", spelling, path).as_bytes());
                            bytes.extend_from_slice(tail);
                            std::fs::write(d.join(format!("f{}.ds", k)), bytes).unwrap();
                        }
                        // entered at a file of the ring, and through a plain file in front of it
                        std::fs::write(d.join("entry.ds"), "e = set 1\n!include_files ./f0.ds\n").unwrap();
                        let path = d.join("f0.ds").to_string_lossy().to_string();
                        let entry = d.join("entry.ds").to_string_lossy().to_string();
                        let r = guarded(|| {
                            let _ = duckscript::parser::parse_file(&path);
                            duckscript::parser::parse_file(&entry)
                        });
                        w.add_transitions(2);
                        match r {
                            Err(p) => w.fail("panic:include-cycle", &p, cj),
                            Ok(_) => w.pass(true, hash64(&("cycle", ring, *cname))),
                        }
                    }
                }
            }
        }
    }
    // the two big sweeps come last: when a loaded machine reaches the wall cap, the small families
    // above have all run
    // (a) every command x every argument tuple
    for name in &names {
        let pool_idx: Vec<usize> = (0..POOL.len()).collect();
        for tuple in Strings::new(&pool_idx[..], 0, arity) {
            let uses_flag = tuple.iter().any(|&i| POOL[i] == "--FLAG");
            for fp in 0..flag_passes {
                if fp > 0 && !uses_flag {
                    continue;
                }
                if !w.take() {
                    continue;
                }
                let flag = FLAGS[fp];
                let shown: Vec<&str> = tuple.iter().map(|&i| if POOL[i] == "--FLAG" { flag } else { POOL[i] }).collect();
                let cj = json!({"kind": "command", "command": name, "args": shown});
                w.begin(|| cj.clone());
                reset_work(&work);
                let mut p = prepare();
                let args: Vec<String> = tuple.iter().map(|&i| resolve(&p, POOL[i], flag)).collect();
                let a: Vec<&str> = args.iter().map(|s| s.as_str()).collect();
                let out = p.s.call_out(name, &a, Some("out"));
                w.add_transitions(1);
                finish(w, out, &cj, name, &shown);
            }
        }
    }

    // (a2) quick tier: option flag followed by two operands (the thorough tier has every triple)
    if tier == Tier::Quick {
        for name in &names {
            for flag in FLAGS.iter().take(4).chain(["-r"].iter()) {
                for i in 0..POOL.len() {
                    for j in 0..POOL.len() {
                        if POOL[i] == "--FLAG" || POOL[j] == "--FLAG" {
                            continue;
                        }
                        if !w.take() {
                            continue;
                        }
                        let shown: Vec<&str> = vec![flag, POOL[i], POOL[j]];
                        let cj = json!({"kind": "command", "command": name, "args": shown});
                        w.begin(|| cj.clone());
                        reset_work(&work);
                        let mut p = prepare();
                        let args: Vec<String> = shown.iter().map(|v| resolve(&p, v, flag)).collect();
                        let a: Vec<&str> = args.iter().map(|s| s.as_str()).collect();
                        let out = p.s.call_out(name, &a, Some("out"));
                        w.add_transitions(1);
                        finish(w, out, &cj, name, &shown);
                    }
                }
            }
        }
    }

}

fn finish(w: &mut Worker, out: Out, cj: &Value, name: &str, shown: &[&str]) {
    match out {
        Out::Panic(m) => {
            // identified by the command and the place that panicked
            let loc = m.rsplit(" at ").next().unwrap_or("").rsplit('/').next().unwrap_or("").to_string();
            w.fail(&format!("panic:{}:{}", name, loc), &format!("{} {:?}: panic {}", name, shown, m), cj.clone())
        }
        o => {
            if w.want_sample() && shown.len() == 2 && w.idx() % 13 == 0 {
                w.sample(cj.clone());
            }
            w.pass(!shown.is_empty(), hash64(&(name, o.kind())))
        }
    }
}

pub fn replay(case: &Value) -> Result<String, String> {
    match case["kind"].as_str().unwrap_or("") {
        "command" => {
            let mut p = prepare();
            let args: Vec<String> = case["args"]
                .as_array()
                .ok_or("args")?
                .iter()
                .map(|v| {
                    let s = v.as_str().unwrap_or("");
                    resolve(&p, s, s)
                })
                .collect();
            let a: Vec<&str> = args.iter().map(|s| s.as_str()).collect();
            let dir = scratch_root().join(format!("replay-c07-{}", std::process::id()));
            let _ = std::fs::create_dir_all(&dir);
            let _ = std::env::set_current_dir(&dir);
            reset_work(&dir);
            let o = p.s.call_out(case["command"].as_str().unwrap_or(""), &a, Some("out"));
            Ok(format!("{:?}", o))
        }
        "script" => {
            let (commands, _steps) = counted_commands();
            let mut ctx = Context::new();
            ctx.commands = commands;
            let (env, _o, _e, _h) = quiet_env();
            let r = guarded(|| runner::run_script(case["script"].as_str().unwrap_or(""), ctx, Some(env)).map(|_| ()));
            Ok(format!("{:?}", r.map(|x| x.map_err(|e| e.to_string()))))
        }
        other => Ok(format!("replay of kind {:?}: run the check (the case kills the process when it fails)", other)),
    }
}

pub fn crash_sig(case: &Value, kind: &str) -> String {
    match case["kind"].as_str().unwrap_or("") {
        "command" => {
            // identified by the command and the class of its first argument
            let first = case["args"].as_array().and_then(|a| a.first()).map(|v| class_of_arg(v.as_str().unwrap_or(""))).unwrap_or("no-arguments");
            format!("{}:{}:{}", kind, case["command"].as_str().unwrap_or("?"), first)
        }
        "include-cycle" => format!("{}:include-cycle", kind),
        "script" => format!("{}:script", kind),
        "self-recursion" => format!("{}:self-recursive-function-in-condition-position", kind),
        _ => kind.to_string(),
    }
}

pub const RULE: &str = "(a) every registered command of the standard library (discovered at run time; excluded: read, sleep, exec, spawn, exit, watchdog, everything under std::net, test_directory/test_file, cd, temp_file/temp_dir) x every argument tuple up to the arity bound from a 28-value pool {empty, NaN, a byte array that is not UTF-8 (a character cut off at its end), a map whose keys include 'a=b', the empty key and a key with a line break, a lone line break, multi-byte text at two byte alignments, a, 'a b', j (the name of a decoded JSON array variable set whose length entry is 99999999999), multi-byte, -1, 0, 1, 2.5, 20-digit number, i64::MAX, i64::MIN, live array/map/set/byte-array handle, an array containing its own handle, a map whose child array points back to it, an array holding a map that holds itself (a cycle not through the root), released handle, -r, text with a line break, a flag (each of the 18 option flags the library's commands know)}, each on a freshly prepared context in a scratch working directory that is reset before every case to the tree {file a, file 0, directory 1 with a file} (the quick tier adds every 'flag operand operand' triple); (b) 15 two-step histories (use after release, push/pop --copy of undefined and repeated names, removed or shadowed commands used by library scripts); (c) every script of up to n lines over 24 awkward lines (unmatched end/else/elseif/return, fn without name or end, for without array, goto to a missing label, goto loops, calls of undefined functions, ...) run with every command counted and the halt flag raised after 400 command entries; (f) a user function and an alias of it as the condition of if / elseif / while / not (and called plainly) for seven ways the function can end; (g) aliases that stand for themselves directly and through one another, and user functions invoked through eval; (d) a file that includes itself and a two-file include cycle; (e) for-in loops whose body clears, pops, removes from, releases, grows, replaces or unsets the array being iterated (sizes 0..3, three body shapes). Oracle: control returns with Ok or Err; a panic is caught and reported; an abort (stack overflow) or a hang (more than 4 s of CPU time, or 40 s of wall time, without returning) kills the worker process, is pinned to the case in flight by the supervisor and reported. (i) eleven commands that write or read a family of variables under a name (json_parse, json_encode, read_properties, unset_all_vars --prefix ...) run twice after one of ten members of that family was set to one of twelve awkward values (sizes near 2^64, negative, fractional, NaN, empty), and json_parse after a json_parse whose keys spell such names. (j) functions in condition position whose body does not get to its return (unknown command, three failing commands, goto to a missing label) directly, one call down, scoped inside loops, called again afterwards Include cycles by rule: rings of 1..3 files x 4 spellings of the directive (blanks and a tab behind the bang) x 5 ways to write the path of the next file x 5 kinds of file content (plain, a byte that is not UTF-8, byte order mark, CRLF, directive on a last line without line end), entered at a file of the ring and through a plain file in front of it: parse_file comes back.";
pub const ASSUMPTIONS: &[&str] = &["values that would request huge allocations are not in the pool (allocation failure aborts by design of Rust)", "loop constructs are allowed to loop: they are ended through the halt flag, which is the embedder's documented way"];
pub const EXHAUSTIVE: bool = true;
pub const WALL_CAP_S: (u64, u64) = (58, 1700);
