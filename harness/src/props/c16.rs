//! C16 — text, comparison and arithmetic commands compute the documented function.
//! Engine E3: all strings up to a length over {a b SP e-acute emoji}, all needles up to 2, all
//! index pairs in and around [0,len]; number pools; small calc expressions; range grid.

use crate::engine::*;
use crate::util::*;
use duckscript::runner;
use duckscript::types::command::{CommandResult, Commands};
use duckscript::types::instruction::{Instruction, InstructionMetaInfo, InstructionType, ScriptInstruction};
use duckscript::types::runtime::StateValue;
use serde_json::{json, Value};
use std::collections::HashMap;

#[derive(Clone, Debug, PartialEq)]
pub enum Obs {
    Val(Option<String>),
    List(Vec<String>),
    Err,
    Crash(String),
    Panic(String),
    Other(String),
}

pub struct Rig {
    pub commands: Commands,
}

impl Rig {
    pub fn new() -> Rig {
        Rig {
            commands: sdk_context().commands,
        }
    }

    /// Runs one command with already-bound arguments. Arguments must not contain `$`/`%`/`\`.
    pub fn call(&mut self, cmd: &str, args: &[String], list_result: bool) -> Obs {
        let mut si = ScriptInstruction::new();
        si.command = Some(cmd.into());
        si.arguments = Some(args.to_vec());
        si.output = Some("out".into());
        let ins = Instruction {
            meta_info: InstructionMetaInfo::new(),
            instruction_type: InstructionType::Script(si),
        };
        let mut vars: HashMap<String, String> = HashMap::new();
        let mut state: HashMap<String, StateValue> = HashMap::new();
        let (mut e, _o, _e2, _h) = quiet_env();
        let commands = &mut self.commands;
        let r = guarded(|| runner::run_instruction(commands, &mut vars, &mut state, &vec![], ins, 0, &mut e));
        match r {
            Err(p) => Obs::Panic(p),
            Ok((CommandResult::Continue(v), _)) => {
                if list_result {
                    match &v {
                        Some(h) => match state.get("handles") {
                            Some(StateValue::SubState(m)) => match m.get(h) {
                                Some(StateValue::List(l)) => Obs::List(
                                    l.iter()
                                        .map(|x| match abstract_state_value(x) {
                                            SV::S(s) => s,
                                            SV::N(n) => n.to_string(),
                                            o => format!("{:?}", o),
                                        })
                                        .collect(),
                                ),
                                _ => Obs::Other(format!("output {:?} is not an array handle", h)),
                            },
                            _ => Obs::Other("no handle table".into()),
                        },
                        None => Obs::Val(None),
                    }
                } else {
                    Obs::Val(v)
                }
            }
            Ok((CommandResult::Error(_), _)) => Obs::Err,
            Ok((CommandResult::Crash(m), _)) => Obs::Crash(m),
            Ok((o, _)) => Obs::Other(format!("{}", result_json(&o))),
        }
    }
}

fn b2(v: bool) -> Obs {
    b(v)
}

fn b(v: bool) -> Obs {
    Obs::Val(Some(v.to_string()))
}
fn s(v: impl Into<String>) -> Obs {
    Obs::Val(Some(v.into()))
}

/// acceptable observations for `substring` according to the documentation, in byte units
fn substring_ref(text: &str, idx: &[&str]) -> Vec<Obs> {
    let len = text.len() as i64;
    let num = |x: &str| x.parse::<i64>().ok();
    let slice = |a: i64, z: i64| -> Vec<Obs> {
        // in range and on character boundaries => the slice, otherwise the error result
        if a < 0 || z < a || z > len {
            return vec![Obs::Err];
        }
        let (a, z) = (a as usize, z as usize);
        if !text.is_char_boundary(a) || !text.is_char_boundary(z) {
            return vec![Obs::Err];
        }
        vec![s(&text[a..z])]
    };
    match idx.len() {
        0 => vec![s(text)],
        1 => match num(idx[0]) {
            None => vec![Obs::Err],
            Some(n) if n >= 0 => {
                if n >= len {
                    // start == len (empty tail) is left open; beyond it is out of domain
                    if n == len {
                        vec![Obs::Err, s("")]
                    } else {
                        vec![Obs::Err]
                    }
                } else {
                    slice(n, len)
                }
            }
            Some(n) => {
                if -n > len {
                    vec![Obs::Err]
                } else {
                    slice(0, len + n)
                }
            }
        },
        _ => match (num(idx[0]), num(idx[1])) {
            (Some(a), Some(z)) => {
                if z == len || a == len {
                    // an end (or start) exactly at the text length is left open by the property
                    let mut v = slice(a, z);
                    if !v.contains(&Obs::Err) {
                        v.push(Obs::Err);
                    }
                    v
                } else {
                    slice(a, z)
                }
            }
            _ => vec![Obs::Err],
        },
    }
}

fn numeric(x: &str) -> Option<f64> {
    // the plain decimal forms the documentation speaks of
    let t = x.strip_prefix('-').unwrap_or(x);
    if t.is_empty() || !t.chars().all(|c| c.is_ascii_digit() || c == '.') || t.matches('.').count() > 1 || t == "." {
        return None;
    }
    x.parse::<f64>().ok()
}

pub fn bounds(tier: Tier) -> Value {
    match tier {
        Tier::Quick => json!({"text_len": 3, "needle_len": 2, "alphabet": ["a", "b", " ", "é", "😀"], "range_grid": [-3, 3]}),
        Tier::Thorough => json!({"text_len": 7, "needle_len": 2, "alphabet": ["a", "b", " ", "é", "😀"], "range_grid": [-6, 6]}),
    }
}

const SIG: [&str; 5] = ["a", "b", " ", "é", "😀"];

struct Run<'a> {
    w: &'a mut Worker,
    rig: Rig,
}

impl<'a> Run<'a> {
    fn case(&mut self, cmd: &str, args: Vec<String>, list: bool, accept: Vec<Obs>, nontrivial: bool) {
        if !self.w.take() {
            return;
        }
        let cj = json!({"command": cmd, "args": args, "list": list});
        self.w.begin(|| cj.clone());
        let got = self.rig.call(cmd, &args, list);
        self.w.add_transitions(1);
        if accept.contains(&got) {
            if nontrivial && self.w.want_sample() && args.iter().any(|a| a.len() > 2) {
                self.w.sample(json!({"command": cmd, "args": args, "observed": format!("{:?}", got)}));
            }
            let class = match &got {
                Obs::Val(None) => 0,
                Obs::Val(Some(_)) => 1,
                Obs::List(_) => 2,
                Obs::Err => 3,
                _ => 4,
            };
            self.w.pass(nontrivial, hash64(&(cmd, class, args.len())));
        } else {
            let kind = match &got {
                Obs::Panic(_) => "panic",
                Obs::Crash(_) => "crash",
                Obs::Err => "unexpected-error",
                Obs::Val(_) | Obs::List(_) => "wrong-value",
                Obs::Other(_) => "other",
            };
            self.w.fail(
                &format!("{}:{}", cmd, kind),
                &format!("{} {:?}: observed {:?}, acceptable {:?}", cmd, args, got, accept),
                cj,
            );
        }
    }
}


/// Long texts (tens of thousands of bytes, a megabyte in the thorough tier) and large numbers: positions,
/// lengths and results computed here.
fn scale(w: &mut Worker) {
    let sizes: Vec<usize> = w.tier.pick(vec![300, 70_000], vec![300, 70_000, 1_000_000]);
    for &n in &sizes {
        for (unit, ub) in [("ab", 2usize), ("aé", 3usize)] {
            // l = byte length of the doubled block once it reaches n
            let mut l = ub;
            while l < n {
                l *= 2;
            }
            let text = format!(
                "s = set {unit}\nlen = length ${{s}}\nwhile less_than ${{len}} {n}\ns = set ${{s}}${{s}}\nlen = length ${{s}}\nend\nt = set ${{s}}XYZ${{s}}\ntl = length ${{t}}\ni = indexof ${{t}} XYZ\nj = last_indexof ${{t}} XYZ\nk = last_indexof ${{t}} {unit}\nnone = indexof ${{t}} ZYX\nc1 = contains ${{t}} Z{first}\nc2 = contains ${{t}} ZZ\nst = starts_with ${{t}} {unit}{unit}\nen = ends_with ${{t}} {unit}\nsub = substring ${{t}} {l} {l3}\ntail = substring ${{t}} {l3}\ntaill = length ${{tail}}\nhead = substring ${{t}} -{l3}\nheadl = length ${{head}}\nr = replace ${{t}} XYZ \"\"\nrl = length ${{r}}\nparts = split ${{t}} XYZ\npn = array_length ${{parts}}\np0 = array_get ${{parts}} 0\np0l = length ${{p0}}\nrelease ${{parts}}\nup = uppercase ${{t}}\nupl = length ${{up}}\ntr = trim \"  ${{t}}  \"\ntrl = length ${{tr}}\ns = set done\nt = set done\nr = set done\np0 = set done\nup = set done\ntr = set done\ntail = set done\nhead = set done",
                unit = unit,
                n = n,
                first = &unit[..1],
                l = l,
                l3 = l + 3
            );
            let upl = if unit == "ab" { 2 * l + 3 } else { 2 * l + 3 };
            scale_case(
                w,
                &format!("long-text bytes {} unit {}", n, unit),
                &text,
                &[
                    ("tl", Some((2 * l + 3).to_string())),
                    ("i", Some(l.to_string())),
                    ("j", Some(l.to_string())),
                    ("k", Some((2 * l + 3 - ub).to_string())),
                    ("none", None),
                    ("c1", Some("true".into())),
                    ("c2", Some("false".into())),
                    ("st", Some("true".into())),
                    ("en", Some("true".into())),
                    ("sub", Some("XYZ".into())),
                    ("taill", Some(l.to_string())),
                    ("headl", Some(l.to_string())),
                    ("rl", Some((2 * l).to_string())),
                    ("pn", Some("2".into())),
                    ("p0l", Some(l.to_string())),
                    ("upl", Some(upl.to_string())),
                    ("trl", Some((2 * l + 3).to_string())),
                ],
            );
        }
    }
    // arithmetic and comparison on large magnitudes (within the 2^53 range that the floating point
    // arithmetic of calc and of the comparisons represents exactly)
    let text = "a = calc 4503599627370495 + 4503599627370496\nb = calc 94906265 * 94906265\nc = calc 9007199254740991 - 9007199254740990\nd = calc -9007199254740991 + 9007199254740990\nl1 = less_than 9007199254740990 9007199254740991\nl2 = less_than -9007199254740991 -9007199254740990\nl3 = less_than 9007199254740991 9007199254740990\ng1 = greater_than 9007199254740991 9007199254740990\ng2 = greater_than -9007199254740991 -9007199254740990\ne1 = equals 9007199254740991 9007199254740991";
    scale_case(
        w,
        "large-numbers",
        text,
        &[
            ("a", Some("9007199254740991".into())),
            ("b", Some("9007199136250225".into())),
            ("c", Some("1".into())),
            ("d", Some("-1".into())),
            ("l1", Some("true".into())),
            ("l2", Some("true".into())),
            ("l3", Some("false".into())),
            ("g1", Some("true".into())),
            ("g2", Some("false".into())),
            ("e1", Some("true".into())),
        ],
    );
}

pub fn worker(w: &mut Worker) {
    let tier = w.tier;
    scale(w);
    let tl = tier.pick(3usize, 7usize);
    let texts: Vec<String> = Strings::new(&SIG[..], 0, tl).map(|v| v.concat()).collect();
    let needles: Vec<String> = Strings::new(&SIG[..], 0, 2).map(|v| v.concat()).collect();
    // texts whose case mapping is not character by character (final sigma, sharp s, dotted capital I,
    // ligature, title-case digraph), combining marks, and white space other than the blank
    let mut texts = texts;
    for t in ["ΟΔΟΣ", "ΟΔΟΣ ΣΟΦΙΑ", "Σ", "aΣ b", "straße", "İstanbul", "ﬁn", "ǅ", "e\u{301}", "\u{a0}a\u{a0}", "\ta\n", "\u{3000}x\u{2003}", "ÀÉÎ", "ǆ"] {
        texts.push(t.to_string());
    }
    // the wide one-character alphabet (util::wide_chars): alone, between letters, doubled
    for c in wide_chars() {
        for t in [c.to_string(), format!("a{}b", c), format!("{}{}", c, c)] {
            if !texts.contains(&t) {
                texts.push(t);
            }
        }
    }
    let mut r = Run { w, rig: Rig::new() };
    let multi = |x: &str| !x.is_ascii();

    for t in &texts {
        let nt = multi(t);
        r.case("length", vec![t.clone()], false, vec![s(t.len().to_string())], nt);
        r.case("strlen", vec![t.clone()], false, vec![s(t.len().to_string())], nt);
        r.case("is_empty", vec![t.clone()], false, vec![b(t.is_empty())], t.is_empty());
        r.case("trim", vec![t.clone()], false, vec![s(t.trim())], t.trim() != t);
        r.case("trim_start", vec![t.clone()], false, vec![s(t.trim_start())], t.trim_start() != t);
        r.case("trim_end", vec![t.clone()], false, vec![s(t.trim_end())], t.trim_end() != t);
        r.case("uppercase", vec![t.clone()], false, vec![s(t.to_uppercase())], nt);
        r.case("lowercase", vec![t.to_uppercase()], false, vec![s(t.to_uppercase().to_lowercase())], nt);
        r.case("substring", vec![t.clone()], false, substring_ref(t, &[]), false);
        // index arguments -2 .. len+2 and junk
        let len = t.len() as i64;
        let mut idx: Vec<String> = (-(len + 2)..=(len + 2)).map(|i| i.to_string()).collect();
        for j in ["x", "", "1.5", "99999999999999999999"] {
            idx.push(j.to_string());
        }
        for a in &idx {
            let acc = substring_ref(t, &[a]);
            r.case("substring", vec![t.clone(), a.clone()], false, acc, nt || a.starts_with('-') || a.parse::<i64>().is_err());
        }
        for a in &idx {
            for z in &idx {
                let acc = substring_ref(t, &[a, z]);
                r.case(
                    "substring",
                    vec![t.clone(), a.clone(), z.clone()],
                    false,
                    acc,
                    nt || a.starts_with('-') || z.starts_with('-'),
                );
            }
        }
        for n in &needles {
            let nt2 = nt || multi(n) || n.len() > t.len();
            r.case("indexof", vec![t.clone(), n.clone()], false, vec![Obs::Val(t.find(n.as_str()).map(|i| i.to_string()))], nt2);
            r.case("last_indexof", vec![t.clone(), n.clone()], false, vec![Obs::Val(t.rfind(n.as_str()).map(|i| i.to_string()))], nt2);
            r.case("contains", vec![t.clone(), n.clone()], false, vec![b(t.contains(n.as_str()))], nt2);
            r.case("starts_with", vec![t.clone(), n.clone()], false, vec![b(t.starts_with(n.as_str()))], nt2);
            r.case("ends_with", vec![t.clone(), n.clone()], false, vec![b(t.ends_with(n.as_str()))], nt2);
            r.case("equals", vec![t.clone(), n.clone()], false, vec![b(t == n)], nt2);
            r.case("eq", vec![n.clone(), t.clone()], false, vec![b(t == n)], nt2);
            r.case("concat", vec![t.clone(), n.clone()], false, vec![s(format!("{}{}", t, n))], nt2);
            // relation: substring(s, 0, indexof(s, t)) + t is a prefix of s (positions in one unit)
            if let Some(i) = t.find(n.as_str()) {
                if i < t.len() {
                    r.case(
                        "substring",
                        vec![t.clone(), "0".into(), i.to_string()],
                        false,
                        vec![s(&t[..i])],
                        true,
                    );
                }
            }
            // split: pieces joined by the separator give back the text; for a non-empty separator the
            // pieces are the maximal ones
            if !n.is_empty() {
                let pieces: Vec<String> = t.split(n.as_str()).map(|x| x.to_string()).collect();
                r.case("split", vec![t.clone(), n.clone()], true, vec![Obs::List(pieces)], nt2);
            }
            for to in ["", "b", "é"] {
                if n.is_empty() {
                    continue; // replacing the empty pattern is not a documented use
                }
                r.case("replace", vec![t.clone(), n.clone(), to.to_string()], false, vec![s(t.replace(n.as_str(), to))], nt2);
            }
        }
    }
    // long periodic texts of every threshold size, with periods (7, 11, 13 bytes, one with multi-byte
    // characters) that do not divide any power of two or ten: occurrences of the needle lie across
    // every position a block-wise implementation might cut at
    {
        let sizes: Vec<usize> = crate::util::with_thresholds_usize(tier.pick(vec![300, 6000, 12_000, 24_000, 70_000], vec![300, 6000, 12_000, 24_000, 70_000, 300_000]), tier.pick(65_536, 262_144));
        for &n in &sizes {
            for unit in ["abcdefg", "abcdefghijk", "aébcdéfghij", "ab"] {
                let mut t = String::new();
                while t.len() < n {
                    t.push_str(unit);
                }
                let chars: Vec<char> = unit.chars().collect();
                let straddle: String = format!("{}{}", chars[chars.len() - 1], chars[0]);
                let mid: String = chars[1..chars.len().min(4)].iter().collect();
                for needle in [unit.to_string(), straddle, mid] {
                    for to in ["", "X", "<->"] {
                        r.case("replace", vec![t.clone(), needle.clone(), to.to_string()], false, vec![s(t.replace(needle.as_str(), to))], true);
                    }
                    r.case("indexof", vec![t.clone(), needle.clone()], false, vec![Obs::Val(t.find(needle.as_str()).map(|i| i.to_string()))], true);
                    r.case("last_indexof", vec![t.clone(), needle.clone()], false, vec![Obs::Val(t.rfind(needle.as_str()).map(|i| i.to_string()))], true);
                    r.case("contains", vec![t.clone(), needle.clone()], false, vec![b(true)], true);
                    r.case("ends_with", vec![t.clone(), needle.clone()], false, vec![b(t.ends_with(needle.as_str()))], true);
                    let pieces: Vec<String> = t.split(needle.as_str()).map(|x| x.to_string()).collect();
                    r.case("split", vec![t.clone(), needle.clone()], true, vec![Obs::List(pieces)], true);
                }
                r.case("length", vec![t.clone()], false, vec![s(t.len().to_string())], true);
                r.case("uppercase", vec![t.clone()], false, vec![s(t.to_uppercase())], true);
                r.case("concat", vec![t.clone(), t.clone()], false, vec![s(format!("{}{}", t, t))], true);
                let half = {
                    let mut h = t.len() / 2;
                    while !t.is_char_boundary(h) {
                        h -= 1;
                    }
                    h
                };
                r.case("substring", vec![t.clone(), half.to_string()], false, vec![s(&t[half..])], true);
                r.case("substring", vec![t.clone(), "0".into(), half.to_string()], false, vec![s(&t[..half])], true);
            }
        }
    }
    // concat with 0..3 arguments
    for a in &needles {
        for bb in &needles {
            r.case("concat", vec![a.clone(), bb.clone(), "x".into()], false, vec![s(format!("{}{}x", a, bb))], true);
        }
    }

    // results that read as "false" to a condition are texts like any other: every way of arriving at
    // one through concat (every split point), trim, case mapping, substring and replace
    for fw in ["0", "false", "no", "FALSE", "No", "NO", "False", "and", "or", "not", "(", ")", "true"] {
        for cut in 0..=fw.len() {
            r.case("concat", vec![fw[..cut].to_string(), fw[cut..].to_string()], false, vec![s(fw)], true);
            r.case("concat", vec![fw[..cut].to_string(), String::new(), fw[cut..].to_string()], false, vec![s(fw)], true);
        }
        r.case("concat", vec![fw.to_string()], false, vec![s(fw)], true);
        r.case("trim", vec![format!(" {} ", fw)], false, vec![s(fw)], true);
        r.case("trim_start", vec![format!("  {}", fw)], false, vec![s(fw)], true);
        r.case("trim_end", vec![format!("{}  ", fw)], false, vec![s(fw)], true);
        r.case("lowercase", vec![fw.to_uppercase()], false, vec![s(fw.to_lowercase())], true);
        r.case("uppercase", vec![fw.to_lowercase()], false, vec![s(fw.to_uppercase())], true);
        r.case("substring", vec![format!("x{}", fw), "1".into()], false, vec![s(fw)], true);
        r.case("substring", vec![format!("x{}y", fw), "1".into(), (1 + fw.len()).to_string()], false, vec![s(fw)], true);
        r.case("replace", vec![format!("x{}", fw), "x".into(), String::new()], false, vec![s(fw)], true);
        r.case("replace", vec!["x".into(), "x".into(), fw.to_string()], false, vec![s(fw)], true);
    }

    // calc gives a number or the error result: an expression whose value is not a number (a comparison,
    // a boolean, a tuple, an assignment, nothing at all, a text) is out of its domain
    for e in [
        "1 < 2", "2 == 2", "1 != 2", "2 >= 1", "true", "false", "true && false", "1 < 2 || 2 < 1", "!true", "2 , 5", "(2, 5)", "1, 2, 3", "x = 4", "x = 4; x", "1 + 2 ;", ";", "", " ", "()", "\"text\"", "\"1\"",
        "\"1\" + \"2\"", "1 +", "+", "* 2", "1 2", "abc", "1 + abc", "1 / 0", "1 % 0", "min(1)", "len(\"abc\")", "str::to_uppercase(\"a\")", "if(true, 1, 2)", "typeof(1)", "1 = 1",
    ] {
        for split in [false, true] {
            let args: Vec<String> = if split { e.split(' ').filter(|x| !x.is_empty()).map(String::from).collect() } else { vec![e.to_string()] };
            if !r.w.take() {
                continue;
            }
            let cj = json!({"command": "calc", "args": args, "list": false});
            r.w.begin(|| cj.clone());
            let got = r.rig.call("calc", &args, false);
            r.w.add_transitions(1);
            let numeric_text = |t: &str| t.parse::<f64>().is_ok();
            match &got {
                Obs::Err => r.w.pass(true, hash64(&("calc-domain", "err"))),
                Obs::Val(Some(t)) if numeric_text(t) => r.w.pass(true, hash64(&("calc-domain", "number"))),
                other => r.w.fail("calc:not-a-number", &format!("calc {:?}: observed {:?}: neither a number nor the error result", args, other), cj),
            }
        }
    }

    // every command again after hundreds (thousands) of other inputs: a text command keeps no memory of
    // what it was given before. n distinct inputs in a first pass, the same n in a second and third pass
    for n in tier.pick(vec![300usize, 5000], vec![300usize, 5000, 70000]) {
        for pass in 0..3 {
            for i in 0..n {
                if pass > 0 && i % 7 != 0 && n > 300 {
                    continue; // the later passes revisit every seventh input of the large runs
                }
                let a = (i * 7 + 3) as i64;
                let b = (i % 13) as i64 + 1;
                r.case("calc", vec![format!("{} + {} * 2", a, b)], false, vec![s((a + b * 2).to_string())], true);
                r.case("calc", vec![a.to_string(), "-".into(), b.to_string()], false, vec![s((a - b).to_string())], true);
                r.case("less_than", vec![a.to_string(), (a + 1 - (i % 3) as i64).to_string()], false, vec![b2(i % 3 == 0)], true);
                r.case("uppercase", vec![format!("word{}x", i)], false, vec![s(format!("WORD{}X", i))], true);
                r.case("replace", vec![format!("a{}b{}", i, i), i.to_string(), "-".into()], false, vec![s(format!("a{}b{}", i, i).replace(&i.to_string(), "-"))], true);
                r.case("concat", vec![format!("p{}", i), "q".into()], false, vec![s(format!("p{}q", i))], true);
                r.case("substring", vec![format!("abc{}", i), "3".into()], false, vec![s(i.to_string())], true);
            }
        }
    }

    // numeric comparison
    let nums = ["-2", "-1", "0", "1", "1.5", "2", "10", "-1.5", "0.5", "100", "abc", "", "1e3", " 1", "0x10", "1,5", "-0", "-0.0", "0.0", "00", "1.0"];
    for a in nums {
        for z in nums {
            let (x, y) = (numeric(a), numeric(z));
            let loose = |v: &str| numeric(v).is_none() && v.trim().parse::<f64>().is_ok();
            for (cmd, f) in [("less_than", (|p: f64, q: f64| p < q) as fn(f64, f64) -> bool), ("greater_than", |p, q| p > q)] {
                let acc = match (x, y) {
                    (Some(p), Some(q)) => vec![b(f(p, q))],
                    _ => {
                        if (loose(a) || x.is_some()) && (loose(z) || y.is_some()) {
                            // spellings such as `1e3` or ` 1` may be accepted as numbers or rejected, but a
                            // wrong ordering is never acceptable
                            let p = a.trim().parse::<f64>().unwrap();
                            let q = z.trim().parse::<f64>().unwrap();
                            vec![Obs::Err, b(f(p, q))]
                        } else {
                            vec![Obs::Err]
                        }
                    }
                };
                r.case(cmd, vec![a.to_string(), z.to_string()], false, acc, x.is_none() || y.is_none() || a.contains('.') || a.starts_with('-'));
            }
        }
    }

    // calc: n op m and ( n op m ) op k with exact results
    let operands = ["0", "1", "2", "3", "7", "10", "-2", "1.5", "2.5"];
    let ops = ["+", "-", "*", "/"];
    let eval = |a: f64, op: &str, c: f64| -> Option<f64> {
        match op {
            "+" => Some(a + c),
            "-" => Some(a - c),
            "*" => Some(a * c),
            _ => None,
        }
    };
    let is_int = |x: &str| !x.contains('.');
    let close = |v: f64| -> Vec<Obs> {
        // the result printed as Rust prints an f64 (3 -> "3", 1.5 -> "1.5")
        if v == 0.0 {
            vec![s("0"), s("-0")]
        } else {
            vec![s(v.to_string())]
        }
    };
    for a in operands {
        for op in ops {
            for c in operands {
                let (x, y): (f64, f64) = (a.parse().unwrap(), c.parse().unwrap());
                let acc = if op == "/" {
                    if y == 0.0 {
                        continue; // division by zero: not an "ordinary arithmetic" expression
                    }
                    if is_int(a) && is_int(c) && (x as i64) % (y as i64) != 0 {
                        continue; // integer division with remainder: rounding rule is not documented
                    }
                    close(x / y)
                } else {
                    close(eval(x, op, y).unwrap())
                };
                r.case("calc", vec![a.to_string(), op.to_string(), c.to_string()], false, acc.clone(), true);
                // the same expression as a single argument
                r.case("calc", vec![format!("{} {} {}", a, op, c)], false, acc, true);
                for op2 in ["+", "-", "*"] {
                    for k in ["2", "-2", "1.5"] {
                        let first = if op == "/" { x / y } else { eval(x, op, y).unwrap() };
                        let kk: f64 = k.parse().unwrap();
                        let v = eval(first, op2, kk).unwrap();
                        r.case(
                            "calc",
                            vec!["(".into(), a.to_string(), op.to_string(), c.to_string(), ")".into(), op2.to_string(), k.to_string()],
                            false,
                            close(v),
                            true,
                        );
                    }
                }
            }
        }
    }

    // calc without parentheses: ordinary precedence (* and / bind tighter than + and -)
    for a in ["1", "2", "7", "-2", "1.5"] {
        for c in ["2", "3", "10", "2.5"] {
            for k in ["2", "4", "-1"] {
                for (o1, o2) in [("+", "*"), ("-", "*"), ("*", "+"), ("*", "-"), ("+", "-"), ("-", "+"), ("-", "-")] {
                    let (x, y, z): (f64, f64, f64) = (a.parse().unwrap(), c.parse().unwrap(), k.parse().unwrap());
                    let ev = |p: f64, o: &str, q: f64| match o {
                        "+" => p + q,
                        "-" => p - q,
                        _ => p * q,
                    };
                    let v = if o2 == "*" && o1 != "*" { ev(x, o1, ev(y, o2, z)) } else { ev(ev(x, o1, y), o2, z) };
                    r.case("calc", vec![a.to_string(), o1.to_string(), c.to_string(), o2.to_string(), k.to_string()], false, close(v), true);
                }
            }
        }
    }

    // range: half-open integer interval
    let g = tier.pick(3i64, 6i64);
    for a in -g..=g {
        for z in -g..=g {
            let acc = if a > z {
                vec![Obs::Err]
            } else {
                vec![Obs::List((a..z).map(|i| i.to_string()).collect())]
            };
            r.case("range", vec![a.to_string(), z.to_string()], true, acc, a < 0 || a >= z);
        }
    }
    for (a, z) in [("x", "1"), ("1", "x"), ("", "1"), ("1.5", "3"), ("1", ""), ("a", "b")] {
        r.case("range", vec![a.into(), z.into()], true, vec![Obs::Err], true);
    }
}

pub fn replay(case: &Value) -> Result<String, String> {
    if let Some(r) = scale_replay(case) {
        return r;
    }
    let cmd = case["command"].as_str().ok_or("no command")?;
    let args: Vec<String> = case["args"]
        .as_array()
        .ok_or("no args")?
        .iter()
        .map(|v| v.as_str().unwrap_or("").to_string())
        .collect();
    let mut rig = Rig::new();
    Ok(format!("{:?}", rig.call(cmd, &args, case["list"].as_bool().unwrap_or(false))))
}

pub fn crash_sig(_case: &Value, kind: &str) -> String {
    kind.to_string()
}

pub const RULE: &str = "every text up to the length bound over {a b SP e-acute emoji} x every needle up to length 2 through length/strlen/is_empty/trim*/uppercase/lowercase/indexof/last_indexof/contains/starts_with/ends_with/equals/eq/concat/replace/split; substring with every index and index pair from -(len+2) to len+2 plus non-numeric junk; less_than/greater_than over a 21x21 number pool (incl. -0, -0.0, 0.0, 00, 1.0); calc over n op m, the same as one argument, and ( n op m ) op2 k with exactly representable results; range over the grid and non-numeric arguments. Oracle: Rust's own string operations in byte units, documented substring semantics (error result for out-of-range, non-boundary or non-numeric indexes; an index equal to the text length is left open), numeric order, exact arithmetic. Non-trivial: multi-byte text, negative/out-of-range/non-numeric index, non-integer number. states = distinct (command, result class, arity); transitions = real command invocations; 14 further texts whose case mapping or trimming is not character by character (final sigma, sharp s, dotted capital I, ligature, digraphs, combining mark, no-break / ideographic / em space, TAB and LF). Scale cases: texts of 300/70000 (thorough 1000000) bytes built from a one- and a multi-byte block around a marker: length, indexof, last_indexof, contains, starts/ends_with, substring forms, replace, split, uppercase, trim; calc / less_than / greater_than / equals at the edge of the exactly representable integers (2^53). Results that a condition would read as false (0, false, no, their capitals) or as syntax (and, or, not, parentheses) arrived at through concat at every split point, trim*, case mapping, substring and replace. calc domain: 36 expressions that are no arithmetic (comparisons, booleans, tuples, assignments, empty, texts, dangling operators, unknown names, division by zero, function calls), each as one argument and split at blanks: the result is a number or the error result. Three passes over 300 / 5000 (thorough 70000) distinct inputs of calc (two forms), less_than, uppercase, replace, concat and substring: the later passes give what the first gave Periodic long texts: periods of 7, 11 and 13 bytes (one with multi-byte characters) and 2, every threshold size up to 70000 (thorough 300000) bytes, three needles each (the period, the two characters across its seam, three from its middle) through replace (3 replacements), indexof, last_indexof, contains, ends_with, split, and length, uppercase, concat, substring at the middle: against the plain string operation.";
pub const ASSUMPTIONS: &[&str] = &["arguments are handed to the commands as already-bound values (run_instruction), so the parser is not in the loop", "division is only generated where the quotient is exact; number spellings such as 1e3 or ' 1' may be rejected or accepted but never mis-ordered"];
pub const EXHAUSTIVE: bool = true;
pub const WALL_CAP_S: (u64, u64) = (50, 1500);
