//! C18 — file commands behave like operations on a simple file tree.
//! Engine E1: explicit-state search over file-command histories; the state is a directory tree.
//! Every transition materialises the tree in a fresh scratch directory, runs the real command
//! there, snapshots the directory and compares output and tree with the reference model.

use crate::engine::*;
use crate::seqmc::*;
use crate::util::*;
use serde_json::{json, Value};
use std::collections::BTreeMap;
use std::path::{Path, PathBuf};
use std::time::Duration;

#[derive(Clone, Debug, PartialEq, Eq, Hash, PartialOrd, Ord)]
pub enum Node {
    File(Vec<u8>),
    Dir,
}

pub type Tree = BTreeMap<String, Node>;

#[derive(Clone, Debug, PartialEq, Eq, Hash)]
pub enum Op {
    Write(String, String),
    Append(String, String),
    WriteBin(String, String),
    Read(String),
    ReadBin(String),
    Touch(String),
    Mkdir(String),
    Cp(String, String),
    Mv(String, String),
    Rm(String),
    RmR(String),
    Rmdir(String),
    Exists(String),
    IsFile(String),
    IsDir(String),
    Size(String),
    Glob,
}

#[derive(Debug, PartialEq)]
enum Exp {
    Val(String),
    Err,
    /// the output is not constrained, only the tree
    Open,
    /// not in the property's domain in this state: the operation is not generated
    Skip,
}

fn parent(p: &str) -> Option<&str> {
    p.rfind('/').map(|i| &p[..i])
}

fn base(p: &str) -> &str {
    p.rfind('/').map(|i| &p[i + 1..]).unwrap_or(p)
}

/// creates the missing parent directories of `p`; false when a file is in the way
fn ensure_parents(t: &mut Tree, p: &str) -> bool {
    let mut cur = String::new();
    let comps: Vec<&str> = p.split('/').collect();
    for c in &comps[..comps.len() - 1] {
        if !cur.is_empty() {
            cur.push('/');
        }
        cur.push_str(c);
        match t.get(&cur) {
            Some(Node::File(_)) => return false,
            Some(Node::Dir) => (),
            None => {
                t.insert(cur.clone(), Node::Dir);
            }
        }
    }
    true
}

fn blocked(t: &Tree, p: &str) -> bool {
    let mut c = t.clone();
    !ensure_parents(&mut c, p)
}

fn has_children(t: &Tree, p: &str) -> bool {
    let pre = format!("{}/", p);
    t.keys().any(|k| k.starts_with(&pre))
}

fn remove_rec(t: &mut Tree, p: &str) {
    let pre = format!("{}/", p);
    t.retain(|k, _| k != p && !k.starts_with(&pre));
}

fn tr() -> Exp {
    Exp::Val("true".into())
}
fn fa() -> Exp {
    Exp::Val("false".into())
}

/// the reference model
fn model(t: &mut Tree, op: &Op) -> Exp {
    match op {
        Op::Write(p, c) | Op::Append(p, c) | Op::WriteBin(p, c) => {
            let append = matches!(op, Op::Append(_, _));
            match t.get(p) {
                Some(Node::Dir) => fa(),
                _ => {
                    if blocked(t, p) {
                        return fa();
                    }
                    ensure_parents(t, p);
                    let mut data = match (append, t.get(p)) {
                        (true, Some(Node::File(d))) => d.clone(),
                        _ => vec![],
                    };
                    if c == "@ff00" {
                        data.extend_from_slice(&[0xff, 0x00]);
                    } else {
                        data.extend_from_slice(c.as_bytes());
                    }
                    t.insert(p.clone(), Node::File(data));
                    tr()
                }
            }
        }
        Op::Read(p) => match t.get(p) {
            Some(Node::File(d)) => match String::from_utf8(d.clone()) {
                Ok(s) => Exp::Val(s),
                Err(_) => Exp::Err,
            },
            _ => Exp::Err,
        },
        Op::ReadBin(p) => match t.get(p) {
            Some(Node::File(d)) => Exp::Val(format!("{:?}", d)),
            _ => Exp::Err,
        },
        Op::Touch(p) => match t.get(p) {
            Some(Node::File(_)) => tr(),
            Some(Node::Dir) => Exp::Skip, // touching a directory: the documentation speaks of files only
            None => {
                if blocked(t, p) {
                    return fa();
                }
                ensure_parents(t, p);
                t.insert(p.clone(), Node::File(vec![]));
                tr()
            }
        },
        Op::Mkdir(p) => match t.get(p) {
            Some(Node::Dir) => tr(),
            Some(Node::File(_)) => Exp::Err,
            None => {
                if blocked(t, p) {
                    return Exp::Err;
                }
                ensure_parents(t, p);
                t.insert(p.clone(), Node::Dir);
                tr()
            }
        },
        Op::Cp(p, q) => match t.get(p).cloned() {
            None => Exp::Err,
            Some(Node::Dir) => Exp::Skip, // directory sources are outside the domain
            Some(Node::File(d)) => {
                if p == q {
                    return Exp::Open; // the source is left intact (tree unchanged); the output is not documented
                }
                match t.get(q) {
                    Some(Node::Dir) => Exp::Err,
                    _ => {
                        if blocked(t, q) {
                            return Exp::Err;
                        }
                        ensure_parents(t, q);
                        t.insert(q.clone(), Node::File(d));
                        tr()
                    }
                }
            }
        },
        Op::Mv(p, q) => match t.get(p).cloned() {
            None => Exp::Err,
            Some(Node::Dir) => Exp::Skip,
            Some(Node::File(d)) => {
                if p == q {
                    return Exp::Open; // a file moved onto itself is still there (tree unchanged); the output is not documented
                }
                match t.get(q) {
                    Some(Node::File(_)) => {
                        t.insert(q.clone(), Node::File(d));
                        t.remove(p);
                        tr()
                    }
                    Some(Node::Dir) => {
                        // into the target when that is an existing directory
                        let inside = format!("{}/{}", q, base(p));
                        if inside == *p || t.contains_key(&inside) {
                            return Exp::Skip; // overwriting inside the directory is not documented
                        }
                        t.insert(inside, Node::File(d));
                        t.remove(p);
                        tr()
                    }
                    None => {
                        if !base(q).contains('.') {
                            return Exp::Skip; // a missing path without extension is taken as a directory (mv help)
                        }
                        if blocked(t, q) {
                            return Exp::Err;
                        }
                        ensure_parents(t, q);
                        t.insert(q.clone(), Node::File(d));
                        t.remove(p);
                        tr()
                    }
                }
            }
        },
        Op::Rm(p) => match t.get(p) {
            None => Exp::Open,
            Some(Node::File(_)) => {
                t.remove(p);
                tr()
            }
            Some(Node::Dir) => {
                if has_children(t, p) {
                    Exp::Err
                } else {
                    t.remove(p);
                    tr()
                }
            }
        },
        Op::RmR(p) => match t.get(p) {
            None => Exp::Open,
            Some(_) => {
                remove_rec(t, p);
                tr()
            }
        },
        Op::Rmdir(p) => match t.get(p) {
            None => {
                if blocked(t, p) {
                    Exp::Open
                } else {
                    tr()
                }
            }
            Some(Node::Dir) if !has_children(t, p) => {
                t.remove(p);
                tr()
            }
            Some(_) => fa(),
        },
        Op::Exists(p) => Exp::Val(t.contains_key(p).to_string()),
        Op::IsFile(p) => Exp::Val(matches!(t.get(p), Some(Node::File(_))).to_string()),
        Op::IsDir(p) => Exp::Val(matches!(t.get(p), Some(Node::Dir)).to_string()),
        Op::Size(p) => match t.get(p) {
            Some(Node::File(d)) => Exp::Val(d.len().to_string()),
            _ => Exp::Err,
        },
        Op::Glob => Exp::Val(t.keys().cloned().collect::<Vec<_>>().join("\n")),
    }
}

pub struct Impl {
    tree: Tree,
    dir: PathBuf,
    session: std::rc::Rc<std::cell::RefCell<Session>>,
}

fn materialise(t: &Tree, dir: &Path) {
    let _ = std::fs::remove_dir_all(dir);
    std::fs::create_dir_all(dir).expect("scratch");
    for (p, n) in t {
        match n {
            Node::Dir => std::fs::create_dir_all(dir.join(p)).expect("mkdir"),
            Node::File(d) => {
                if let Some(pp) = parent(p) {
                    std::fs::create_dir_all(dir.join(pp)).expect("mkdir");
                }
                std::fs::write(dir.join(p), d).expect("write");
            }
        }
    }
}

fn snapshot(dir: &Path) -> Tree {
    fn walk(root: &Path, cur: &Path, out: &mut Tree) {
        if let Ok(rd) = std::fs::read_dir(cur) {
            for e in rd.flatten() {
                let p = e.path();
                let rel = p.strip_prefix(root).unwrap().to_string_lossy().to_string();
                let md = match std::fs::symlink_metadata(&p) {
                    Ok(m) => m,
                    Err(_) => continue,
                };
                if md.is_dir() {
                    out.insert(rel, Node::Dir);
                    walk(root, &p, out);
                } else {
                    out.insert(rel, Node::File(std::fs::read(&p).unwrap_or_default()));
                }
            }
        }
    }
    let mut t = Tree::new();
    walk(dir, dir, &mut t);
    t
}

pub struct C18 {
    paths: Vec<String>,
    contents: Vec<String>,
    max_entries: usize,
    max_bytes: usize,
    ops: Vec<Op>,
}

impl C18 {
    pub fn new(tier: Tier) -> C18 {
        let paths: Vec<String> = match tier {
            Tier::Quick => vec!["a.txt", "d", "d/b.txt", "s p/ü.txt"],
            Tier::Thorough => vec!["a.txt", "d", "d/b.txt", "d/e/c.txt", "s p/ü.txt"],
        }
        .into_iter()
        .map(String::from)
        .collect();
        let contents: Vec<String> = vec!["".into(), "x".into(), "é\n".into()];
        let mut ops = vec![];
        for p in &paths {
            for c in &contents {
                ops.push(Op::Write(p.clone(), c.clone()));
                ops.push(Op::Append(p.clone(), c.clone()));
            }
            ops.push(Op::WriteBin(p.clone(), "x".into()));
            // two bytes that are not valid UTF-8 (built with base64_decode): readfile must fail on them,
            // the binary read must give them back
            ops.push(Op::WriteBin(p.clone(), "@ff00".into()));
            ops.push(Op::Read(p.clone()));
            ops.push(Op::ReadBin(p.clone()));
            ops.push(Op::Touch(p.clone()));
            ops.push(Op::Mkdir(p.clone()));
            ops.push(Op::Rm(p.clone()));
            ops.push(Op::RmR(p.clone()));
            ops.push(Op::Rmdir(p.clone()));
            ops.push(Op::Exists(p.clone()));
            ops.push(Op::IsFile(p.clone()));
            ops.push(Op::IsDir(p.clone()));
            ops.push(Op::Size(p.clone()));
            for q in &paths {
                ops.push(Op::Cp(p.clone(), q.clone()));
                ops.push(Op::Mv(p.clone(), q.clone()));
            }
        }
        for d in ["d/e", "s p"] {
            ops.push(Op::Mkdir(d.into()));
            ops.push(Op::Rm(d.into()));
            ops.push(Op::RmR(d.into()));
            ops.push(Op::Rmdir(d.into()));
            ops.push(Op::IsDir(d.into()));
        }
        ops.push(Op::Glob);
        C18 {
            paths,
            contents,
            max_entries: tier.pick(3, 4),
            max_bytes: 4,
            ops,
        }
    }
}

thread_local! {
    static SESSION: std::rc::Rc<std::cell::RefCell<Session>> = std::rc::Rc::new(std::cell::RefCell::new(Session::new()));
    static DIR: PathBuf = {
        static N: std::sync::atomic::AtomicUsize = std::sync::atomic::AtomicUsize::new(0);
        let n = N.fetch_add(1, std::sync::atomic::Ordering::SeqCst);
        scratch_root().join(format!("c18-{}-{}", std::process::id(), n))
    };
}

impl Sys for C18 {
    type Impl = Impl;
    type Model = Tree;
    type Op = Op;
    fn new_impl(&self) -> Impl {
        Impl {
            tree: Tree::new(),
            dir: DIR.with(|d| d.clone()),
            session: SESSION.with(|s| s.clone()),
        }
    }
    fn clone_impl(&self, s: &Impl) -> Impl {
        Impl {
            tree: s.tree.clone(),
            dir: s.dir.clone(),
            session: s.session.clone(),
        }
    }
    fn init_model(&self) -> Tree {
        Tree::new()
    }
    fn restorable(&self) -> bool {
        true
    }
    fn restore_from_model(&self, m: &Tree) -> Option<Impl> {
        // the directory tree is the whole state of the file system as far as these commands see it
        let mut i = self.new_impl();
        i.tree = m.clone();
        Some(i)
    }
    fn op_json(&self, op: &Op) -> Value {
        json!(format!("{:?}", op))
    }
    fn enabled(&self, m: &Tree) -> Vec<Op> {
        self.ops
            .iter()
            .filter(|o| {
                let mut t = m.clone();
                let e = model(&mut t, o);
                e != Exp::Skip
                    && t.len() <= self.max_entries
                    && t.values().all(|n| match n {
                        Node::File(d) => d.len() <= self.max_bytes,
                        _ => true,
                    })
            })
            .cloned()
            .collect()
    }
    fn step(&self, s: &mut Impl, m: &mut Tree, op: &Op) -> Result<(), Fail> {
        materialise(&s.tree, &s.dir);
        let abs = |p: &str| s.dir.join(p).to_string_lossy().to_string();
        let mut sess = s.session.borrow_mut();
        sess.state.clear();
        sess.variables.clear();
        let out: Out = match op {
            Op::Write(p, c) => sess.call("writefile", &[&abs(p), c]),
            Op::Append(p, c) => sess.call("appendfile", &[&abs(p), c]),
            Op::WriteBin(p, c) => {
                let made = if c == "@ff00" { sess.call("base64_decode", &["/wA="]) } else { sess.call("string_to_bytes", &[c]) };
                match made {
                    Out::Val(Some(h)) => sess.call("writebinfile", &[&abs(p), &h]),
                    o => o,
                }
            }
            Op::Read(p) => sess.call("readfile", &[&abs(p)]),
            Op::ReadBin(p) => match sess.call("readbinfile", &[&abs(p)]) {
                Out::Val(Some(h)) => match sess.handle(&h) {
                    Some(SV::Bytes(b)) => Out::Val(Some(format!("{:?}", b))),
                    o => Out::Other(format!("not a byte array: {:?}", o)),
                },
                o => o,
            },
            Op::Touch(p) => sess.call("touch", &[&abs(p)]),
            Op::Mkdir(p) => sess.call("mkdir", &[&abs(p)]),
            Op::Cp(p, q) => sess.call("cp", &[&abs(p), &abs(q)]),
            Op::Mv(p, q) => sess.call("mv", &[&abs(p), &abs(q)]),
            Op::Rm(p) => sess.call("rm", &[&abs(p)]),
            Op::RmR(p) => sess.call("rm", &["-r", &abs(p)]),
            Op::Rmdir(p) => sess.call("rmdir", &[&abs(p)]),
            Op::Exists(p) => sess.call("is_path_exists", &[&abs(p)]),
            Op::IsFile(p) => sess.call("is_file", &[&abs(p)]),
            Op::IsDir(p) => sess.call("is_dir", &[&abs(p)]),
            Op::Size(p) => sess.call("get_file_size", &[&abs(p)]),
            Op::Glob => match sess.call("glob_array", &[&format!("{}/**/*", s.dir.to_string_lossy())]) {
                Out::Val(Some(h)) => match sess.handle(&h) {
                    Some(SV::L(items)) => {
                        let pre = format!("{}/", s.dir.to_string_lossy());
                        let mut v: Vec<String> = items
                            .iter()
                            .map(|x| match x {
                                SV::S(p) => p.strip_prefix(&pre).unwrap_or(p).to_string(),
                                o => format!("{:?}", o),
                            })
                            .collect();
                        v.sort(); // the order of the listing is not part of the property
                        Out::Val(Some(v.join("\n")))
                    }
                    o => Out::Other(format!("not an array: {:?}", o)),
                },
                o => o,
            },
        };
        drop(sess);
        let before = m.clone();
        let exp = model(m, op);
        let after = snapshot(&s.dir);
        s.tree = after.clone();
        let kind = format!("{:?}", op);
        let kind = kind.split('(').next().unwrap_or("").to_lowercase();
        let desc = format!("{:?} on {}", op, show(&before));
        let ok_out = match (&exp, &out) {
            (Exp::Val(e), Out::Val(Some(g))) => e == g,
            (Exp::Err, Out::Err(_)) => true,
            (Exp::Open, Out::Val(_)) | (Exp::Open, Out::Err(_)) => true,
            _ => false,
        };
        if !ok_out {
            let k = match &out {
                Out::Panic(_) => "panic",
                Out::Crash(_) => "crash",
                _ => "output-differs",
            };
            return Err(Fail {
                sig: format!("{}:{}", kind, k),
                what: format!("{}: output {:?}, model {:?}", desc, out, exp),
            });
        }
        if after != *m {
            let failing = matches!(exp, Exp::Err) || exp == fa();
            return Err(Fail {
                sig: format!("{}:{}", kind, if failing { "failing-operation-changed-the-tree" } else { "tree-differs" }),
                what: format!("{}: tree afterwards {}, model {}", desc, show(&after), show(m)),
            });
        }
        Ok(())
    }
    fn canon(&self, s: &Impl, _m: &Tree) -> Vec<u8> {
        format!("{:?}", s.tree).into_bytes()
    }
}

fn show(t: &Tree) -> String {
    let v: Vec<String> = t
        .iter()
        .map(|(k, n)| match n {
            Node::Dir => format!("{}/", k),
            Node::File(d) => format!("{}={:?}", k, String::from_utf8_lossy(d)),
        })
        .collect();
    format!("{{{}}}", v.join(", "))
}

pub fn bounds(tier: Tier) -> Value {
    let c = C18::new(tier);
    json!({"paths": c.paths, "contents": c.contents, "max_entries": c.max_entries, "max_file_bytes": c.max_bytes, "ops_in_alphabet": c.ops.len()})
}

/// basename / dirname / join_path do not depend on the tree: a direct sweep
fn path_functions(totals: &mut Totals) {
    let mut s = Session::new();
    let mut cases: Vec<(&str, Vec<&str>, Option<&str>)> = vec![];
    for (p, b, d) in [
        ("a.txt", "a.txt", None),
        ("d/b.txt", "b.txt", Some("d")),
        ("d/e/c.txt", "c.txt", Some("d/e")),
        ("s p/ü.txt", "ü.txt", Some("s p")),
        ("/abs/x y.z", "x y.z", Some("/abs")),
    ] {
        cases.push(("basename", vec![p], Some(b)));
        if let Some(d) = d {
            cases.push(("dirname", vec![p], Some(d)));
        }
    }
    // by rule: paths of two and three elements from a pool of names (plain, with a blank, with dots,
    // hidden, multi-byte letters, CJK, an emoji, a combining mark), relative and absolute: the base
    // name is the last element, the directory name everything in front of it, joining gives it back
    // ... and names that read as false, as true, as condition syntax or as commands to the script that implements join_path
    let names = ["a", "b.txt", "s p", "x.y.z", ".hidden", "dír", "ü", "日本", "語 ü.bin", "😀d", "e\u{301}", "Ω-1", "0", "no", "false", "False", "NO", "true", "set", "echo", "not", "and", "or", "00", "1", "-r", "--flag", "%", "$x", "a=b", "#1", "\u{feff}bom", "z\u{200b}w", "a\u{a0}b", "\u{202e}rtl", "tab\tname", "-i", "--ignore-case"];
    let mut owned: Vec<(String, Vec<String>, Option<String>)> = vec![];
    for a in names {
        for b in names {
            for root in ["", "/"] {
                let p2 = format!("{}{}/{}", root, a, b);
                owned.push(("basename".into(), vec![p2.clone()], Some(b.to_string())));
                owned.push(("dirname".into(), vec![p2.clone()], Some(format!("{}{}", root, a))));
                owned.push(("join_path".into(), vec![format!("{}{}", root, a), b.to_string()], Some(p2.clone())));
                owned.push(("basename".into(), vec![format!("{}/", p2)], Some(b.to_string())));
                for c in ["a", "日本", "dír", "s p"] {
                    let p3 = format!("{}{}/{}/{}", root, c, a, b);
                    owned.push(("basename".into(), vec![p3.clone()], Some(b.to_string())));
                    owned.push(("dirname".into(), vec![p3.clone()], Some(format!("{}{}/{}", root, c, a))));
                    owned.push(("join_path".into(), vec![format!("{}{}", root, c), a.to_string(), b.to_string()], Some(p3.clone())));
                }
            }
        }
    }
    for (cmd, args, exp) in &owned {
        let a: Vec<&str> = args.iter().map(|x| x.as_str()).collect();
        let out = s.call(cmd, &a);
        totals.evals += 1;
        totals.transitions += 1;
        totals.nontrivial += 1;
        if out != Out::Val(exp.clone()) {
            let sig = format!("{}:output-differs", cmd);
            let e = totals.failures.entry(sig.clone()).or_insert((0, vec![]));
            e.0 += 1;
            if e.1.len() < 3 {
                e.1.push(json!({"idx": 0, "sig": sig, "what": format!("{} {:?}: {:?}, expected {:?}", cmd, args, out, exp), "replay": {"path_function": cmd, "args": args}}));
            }
        }
    }
    cases.push(("join_path", vec!["a", "b"], Some("a/b")));
    cases.push(("join_path", vec!["a/", "/b"], Some("a/b")));
    cases.push(("join_path", vec!["a", "b", "c.txt"], Some("a/b/c.txt")));
    cases.push(("join_path", vec!["s p", "ü.txt"], Some("s p/ü.txt")));
    cases.push(("join_path", vec!["/abs", "x"], Some("/abs/x")));
    cases.push(("join_path", vec!["a"], Some("a")));
    for (cmd, args, exp) in cases {
        let out = s.call(cmd, &args);
        totals.evals += 1;
        totals.transitions += 1;
        if out != Out::Val(exp.map(String::from)) {
            let sig = format!("{}:output-differs", cmd);
            let e = totals.failures.entry(sig.clone()).or_insert((0, vec![]));
            e.0 += 1;
            e.1.push(json!({"idx": 0, "sig": sig, "what": format!("{} {:?}: {:?}, expected {:?}", cmd, args, out, exp), "replay": {"path_function": cmd, "args": args}}));
        }
    }
}

pub fn run(tier: Tier, totals: &mut Totals) {
    let sys = C18::new(tier);
    let r = bfs(
        &sys,
        &BfsOpts {
            max_depth: 64,
            max_states: tier.pick(2_000_000, 20_000_000),
            wall: Duration::from_secs(tier.pick(55, 2400)),
            threads: 16,
        },
    );
    totals.extra.insert("search".into(), json!({"levels": r.levels, "fixpoint": r.fixpoint, "states": r.states, "transitions": r.transitions}));
    into_totals(&r, totals);
    path_functions(totals);
    scale(tier, totals);
    // remove the per-thread scratch directories
    if let Ok(rd) = std::fs::read_dir(scratch_root()) {
        for e in rd.flatten() {
            if e.file_name().to_string_lossy().starts_with(&format!("c18-{}-", std::process::id())) {
                let _ = std::fs::remove_dir_all(e.path());
            }
        }
    }
}

/// Contents far larger than the three short texts of the search: sizes around the usual buffer
/// boundaries, a multi-byte character sitting on such a boundary, a megabyte.
fn scale(tier: Tier, totals: &mut Totals) {
    let dir = scratch_root().join(format!("c18-scale-{}", std::process::id()));
    let _ = std::fs::remove_dir_all(&dir);
    let _ = std::fs::create_dir_all(&dir);
    let d = dir.to_string_lossy().to_string();
    // what was read is what is written: bytes read from a file belong to their handle - they stay what
    // they were when the file changes, is read again (under this or another spelling of its path), is
    // removed; a second read is a collection of its own
    for (how, change) in [
        ("writefile", "writefile ${a} second-content"),
        ("appendfile", "appendfile ${a} -more"),
        ("write_binary_file", "hx = string_to_bytes second-content\nwrite_binary_file ${a} ${hx}"),
        ("cp-over", "writefile ${d}/src.bin second-content\ncp ${d}/src.bin ${a}"),
        ("rm-and-write", "rm ${a}\nwritefile ${a} second-content"),
        ("nothing", "x = set 1"),
    ] {
        for again in ["${a}", "${d}/sub/../a.bin", "${d}/./a.bin"] {
            let second = match how {
                "appendfile" => "one-more",
                "nothing" => "one",
                _ => "second-content",
            };
            let text = format!(
                "d = set \"{d}\"\na = set \"{d}/a.bin\"\nmkdir ${{d}}/sub\nwritefile ${{a}} one\nh1 = read_binary_file ${{a}}\n{change}\nh2 = read_binary_file {again}\nsame_handle = equals ${{h1}} ${{h2}}\nwrite_binary_file ${{d}}/b.bin ${{h1}}\nwrite_binary_file ${{d}}/c.bin ${{h2}}\nt1 = readfile ${{d}}/b.bin\nt2 = readfile ${{d}}/c.bin\ns1 = bytes_to_string ${{h1}}\ns2 = bytes_to_string ${{h2}}\nr1 = release ${{h1}}\ns2b = bytes_to_string ${{h2}}\nr2 = release ${{h2}}\nrm ${{d}}/b.bin\nrm ${{d}}/c.bin\nrm ${{a}}",
                d = d,
                change = change,
                again = again
            );
            crate::util::scale_case_totals(
                totals,
                &format!("bytes-belong-to-their-handle {} read again as {}", how, again),
                &text,
                &[
                    ("same_handle", Some("false".into())),
                    ("t1", Some("one".into())),
                    ("t2", Some(second.to_string())),
                    ("s1", Some("one".into())),
                    ("s2", Some(second.to_string())),
                    ("r1", Some("true".into())),
                    ("s2b", Some(second.to_string())),
                    ("r2", Some("true".into())),
                ],
            );
        }
    }
    // rm with several paths removes exactly the named ones, wherever a path that does not exist stands
    // among them (its own output is outside the domain: not compared)
    for missing_at in 0..4usize {
        for recursive in [false, true] {
            let mut names: Vec<String> = vec!["${d}/m/a.txt".into(), "${d}/m/b b.txt".into(), "${d}/m/é.txt".into()];
            if recursive {
                names[1] = "${d}/m/sub".into();
            }
            if missing_at < 3 {
                names.insert(missing_at, "${d}/m/not-there".into());
            }
            let quoted: Vec<String> = names.iter().map(|n| format!("\"{}\"", n)).collect();
            let text = format!(
                "d = set \"{d}\"\nwritefile ${{d}}/m/a.txt one\nwritefile \"${{d}}/m/b b.txt\" two\nwritefile ${{d}}/m/é.txt three\nwritefile ${{d}}/m/sub/inner.txt four\nwritefile ${{d}}/m/keep.txt five\nr = rm {flag}{paths}\nea = is_path_exists ${{d}}/m/a.txt\neb = is_path_exists \"${{d}}/m/b b.txt\"\nec = is_path_exists ${{d}}/m/é.txt\nes = is_path_exists ${{d}}/m/sub\nek = is_path_exists ${{d}}/m/keep.txt\nrm -r ${{d}}/m",
                d = d,
                flag = if recursive { "-r " } else { "" },
                paths = quoted.join(" ")
            );
            crate::util::scale_case_totals(
                totals,
                &format!("rm-several missing-at {} recursive {}", missing_at, recursive),
                &text,
                &[
                    ("ea", Some("false".into())),
                    ("eb", Some((recursive).to_string())),
                    ("ec", Some("false".into())),
                    ("es", Some((!recursive).to_string())),
                    ("ek", Some("true".into())),
                ],
            );
        }
    }
    // rm with several paths, one of them a non-empty directory named without -r (a path rm refuses): the refused
    // directory stays as it is with its content and, wherever it stands, no path outside the named ones is touched.
    // Whether the other named paths are gone is not compared: the documentation does not say whether rm goes on
    // behind a path it refuses (seed C18y, withdrawn as outside the property as stated)
    for dir_at in 0..3usize {
        let mut names: Vec<String> = vec!["${d}/m/a.txt".into(), "${d}/m/b b.txt".into()];
        names.insert(dir_at, "${d}/m/sub".into());
        let quoted: Vec<String> = names.iter().map(|n| format!("\"{}\"", n)).collect();
        let text = format!(
            "d = set \"{d}\"\nwritefile ${{d}}/m/a.txt one\nwritefile \"${{d}}/m/b b.txt\" two\nwritefile ${{d}}/m/sub/inner.txt four\nwritefile ${{d}}/m/keep.txt five\nr = rm {paths}\nea = is_path_exists ${{d}}/m/a.txt\neb = is_path_exists \"${{d}}/m/b b.txt\"\nes = is_path_exists ${{d}}/m/sub/inner.txt\nek = is_path_exists ${{d}}/m/keep.txt\nrm -r ${{d}}/m",
            d = d,
            paths = quoted.join(" ")
        );
        crate::util::scale_case_totals(
            totals,
            &format!("rm-several refused-directory-at {}", dir_at),
            &text,
            &[
                ("es", Some("true".into())),
                ("ek", Some("true".into())),
            ],
        );
    }
    // bare names: the same operations with the scratch directory as working directory and the paths written
    // without any directory part (and as ./name), a file copied and moved onto itself under both spellings
    for name in ["a.txt", "a b.txt", "é.txt", "0", "no"] {
        for (self_src, self_dst) in [("N", "N"), ("N", "./N"), ("./N", "N"), ("./N", "./N")] {
            let src = self_src.replace('N', name);
            let dst = self_dst.replace('N', name);
            let text = format!(
                "cd \"{d}\"\nw = writefile \"{n}\" one\nc = cp \"{s}\" \"{t}\"\nr1 = readfile \"{n}\"\nm = mv \"{s}\" \"{t}\"\ne1 = is_path_exists \"{n}\"\nr2 = readfile \"{n}\"\nc2 = cp \"{n}\" copy.txt\nr3 = readfile copy.txt\nm2 = mv copy.txt moved.txt\ne2 = is_path_exists copy.txt\nr4 = readfile ./moved.txt\nap = appendfile \"{n}\" -more\nr5 = readfile \"./{n}\"\nsz = get_file_size \"{n}\"\nf = is_file \"{n}\"\nrm moved.txt\nrm \"{n}\"\ne3 = is_path_exists \"./{n}\"",
                d = d,
                n = name,
                s = src,
                t = dst
            );
            crate::util::scale_case_totals(
                totals,
                &format!("bare-names {:?} onto-itself {:?} {:?}", name, src, dst),
                &text,
                &[
                    ("w", Some("true".into())),
                    ("c", Some("true".into())),
                    ("r1", Some("one".into())),
                    ("m", Some("true".into())),
                    ("e1", Some("true".into())),
                    ("r2", Some("one".into())),
                    ("c2", Some("true".into())),
                    ("r3", Some("one".into())),
                    ("m2", Some("true".into())),
                    ("e2", Some("false".into())),
                    ("r4", Some("one".into())),
                    ("ap", Some("true".into())),
                    ("r5", Some("one-more".into())),
                    ("sz", Some("8".into())),
                    ("f", Some("true".into())),
                    ("e3", Some("false".into())),
                ],
            );
        }
    }
    // a handful of files read over and over in every order (every sequence of four reads over the files,
    // one after the other in one long history), one of them rewritten, appended to, copied over or moved
    // away and back every few reads: each read gives what the file holds at that moment
    for &nfiles in &tier.pick(vec![3usize, 5, 6], vec![3usize, 5, 6, 7, 9]) {
        let mut text = format!("d = set \"{d}\"\nbad = set 0\nreads = set 0\nfn chk\nr = readfile ${{d}}/f${{1}}.txt\ne = get_by_name c${{1}}\nreads = calc ${{reads}} + 1\nif not equals \"${{r}}\" \"${{e}}\"\nbad = calc ${{bad}} + 1\nif not is_defined firstbad\nfirstbad = set \"read ${{reads}} of f${{1}}: ${{r}} instead of ${{e}}\"\nend\nend\nend\n", d = d);
        for k in 0..nfiles {
            text.push_str(&format!("c{k} = set \"content-{k}-{pad}\"\nwritefile ${{d}}/f{k}.txt ${{c{k}}}\n", k = k, pad = "x".repeat(k)));
        }
        let mut seq = vec![0usize; 4];
        let mut count = 0usize;
        let mut version = 0usize;
        'all: loop {
            for &k in &seq {
                text.push_str(&format!("chk {}\n", k));
                count += 1;
                if count % 13 == 0 {
                    version += 1;
                    let k = version % nfiles;
                    match version % 5 {
                        0 => text.push_str(&format!("c{k} = set \"v{v}-of-{k}\"\nwritefile ${{d}}/f{k}.txt ${{c{k}}}\n", k = k, v = version)),
                        1 => text.push_str(&format!("appendfile ${{d}}/f{k}.txt +{v}\nc{k} = set \"${{c{k}}}+{v}\"\n", k = k, v = version)),
                        2 => {
                            let other = (k + 1) % nfiles;
                            text.push_str(&format!("cp ${{d}}/f{o}.txt ${{d}}/f{k}.txt\nc{k} = set \"${{c{o}}}\"\n", k = k, o = other));
                        }
                        3 => text.push_str(&format!("mv ${{d}}/f{k}.txt ${{d}}/away.txt\nwritefile ${{d}}/f{k}.txt between-{v}\nrm ${{d}}/f{k}.txt\nmv ${{d}}/away.txt ${{d}}/f{k}.txt\n", k = k, v = version)),
                        _ => text.push_str(&format!("rm ${{d}}/f{k}.txt\nc{k} = set \"again-{v}\"\nwritefile ${{d}}/f{k}.txt ${{c{k}}}\n", k = k, v = version)),
                    }
                }
            }
            let mut i = 3;
            loop {
                seq[i] += 1;
                if seq[i] < nfiles {
                    break;
                }
                seq[i] = 0;
                if i == 0 {
                    break 'all;
                }
                i -= 1;
            }
        }
        for k in 0..nfiles {
            text.push_str(&format!("rm ${{d}}/f{k}.txt\n", k = k));
        }
        text.push_str("r = set done\ne = set done");
        crate::util::scale_case_totals(totals, &format!("reads-in-every-order files {}", nfiles), &text, &[("bad", Some("0".into())), ("reads", Some(count.to_string())), ("firstbad", None)]);
    }
    let sizes: Vec<usize> = tier.pick(vec![4095, 8192, 8193, 65537], vec![4095, 4096, 8191, 8192, 8193, 65535, 65536, 65537, 1_000_003, 5_000_001]);
    for (variant, &n) in sizes.iter().flat_map(|n| [(0u8, n), (1u8, n)]) {
        // the text is built by doubling a 16-character block and cut to size; variant 1 puts an e-acute
        // (two bytes) so that it straddles byte n/2
        let mut text = String::from("s = set 0123456789abcdef\nwhile less_than ${len} NEED\ns = set ${s}${s}\nlen = length ${s}\nend\n").replace("NEED", &(n + 1).to_string());
        text = format!("len = set 16\n{}", text);
        let expect_len;
        if variant == 0 {
            text.push_str(&format!("s = substring ${{s}} 0 {}\n", n));
            expect_len = n;
        } else {
            let half = n / 2;
            text.push_str(&format!("h1 = substring ${{s}} 0 {}\nh2 = substring ${{s}} 0 {}\ns = set ${{h1}}é${{h2}}\n", half.saturating_sub(1), n - half - 1));
            expect_len = n;
        }
        text.push_str(&format!(
            "f = set \"{d}/big.txt\"\ng = set \"{d}/copy.txt\"\nh = set \"{d}/moved.txt\"\nw = writefile ${{f}} ${{s}}\nr = readfile ${{f}}\nsame = equals ${{r}} ${{s}}\nrl = length ${{r}}\nsize = get_file_size ${{f}}\nc = cp ${{f}} ${{g}}\nr2 = readfile ${{g}}\nsame2 = equals ${{r2}} ${{s}}\nap = appendfile ${{f}} tail\nsize2 = get_file_size ${{f}}\nr3 = readfile ${{f}}\nsame3 = equals ${{r3}} ${{s}}tail\nm = mv ${{g}} ${{h}}\nr4 = readfile ${{h}}\nsame4 = equals ${{r4}} ${{s}}\ngone = is_path_exists ${{g}}\nover = writefile ${{f}} short\nsize3 = get_file_size ${{f}}\nrm ${{f}}\nrm ${{h}}\ns = set done\nr = set done\nr2 = set done\nr3 = set done\nr4 = set done\nh1 = set done\nh2 = set done",
            d = d
        ));
        crate::util::scale_case_totals(
            totals,
            &format!("big-content bytes {} variant {}", n, variant),
            &text,
            &[
                ("w", Some("true".into())),
                ("same", Some("true".into())),
                ("rl", Some(expect_len.to_string())),
                ("size", Some(expect_len.to_string())),
                ("c", Some("true".into())),
                ("same2", Some("true".into())),
                ("size2", Some((expect_len + 4).to_string())),
                ("same3", Some("true".into())),
                ("same4", Some("true".into())),
                ("gone", Some("false".into())),
                ("size3", Some("5".into())),
            ],
        );
    }
    // contents whose first or last characters are the ones a reader or writer might treat specially
    for (i, content) in ["\u{feff}héllo", "\u{feff}", "x\u{feff}", "\r\nx\r\n", "x\n", "\n", " ", "\t x \t", "\u{a0}x\u{3000}", "é", "#not a comment", "\"quoted\""].iter().enumerate() {
        let text = format!(
            "{}\nf = set \"{d}/special.txt\"\ng = set \"{d}/special-copy.txt\"\nw = writefile ${{f}} ${{c}}\nr = readfile ${{f}}\nsame = equals ${{r}} ${{c}}\nrl = length ${{r}}\nsize = get_file_size ${{f}}\ncp ${{f}} ${{g}}\nr2 = readfile ${{g}}\nsame2 = equals ${{r2}} ${{c}}\nappendfile ${{f}} ${{c}}\nr3 = readfile ${{f}}\nsame3 = equals ${{r3}} ${{c}}${{c}}\nrm ${{f}}\nrm ${{g}}",
            crate::render::line(Some("c"), "set", &[content]),
            d = d
        );
        crate::util::scale_case_totals(
            totals,
            &format!("special-content {}", i),
            &text,
            &[
                ("w", Some("true".into())),
                ("same", Some("true".into())),
                ("rl", Some(content.len().to_string())),
                ("size", Some(content.len().to_string())),
                ("same2", Some("true".into())),
                ("same3", Some("true".into())),
            ],
        );
    }
    let _ = std::fs::remove_dir_all(&dir);
}

pub fn replay(case: &Value) -> Result<String, String> {
    if let Some(r) = crate::util::scale_replay(case) {
        return r;
    }
    let sys = C18::new(Tier::Thorough);
    let mut s = sys.new_impl();
    let mut m = sys.init_model();
    let mut out = vec![];
    for h in case["history"].as_array().ok_or("no history")? {
        let want = h.as_str().unwrap_or("");
        let op = sys.ops.iter().find(|o| format!("{:?}", o) == want).ok_or("operation not in the alphabet")?;
        match guarded(|| sys.step(&mut s, &mut m, op)) {
            Ok(Ok(())) => out.push(format!("{} ok -> {}", want, show(&m))),
            Ok(Err(f)) => {
                out.push(format!("{} FAIL [{}] {}", want, f.sig, f.what));
                break;
            }
            Err(p) => {
                out.push(format!("{} PANIC {}", want, p));
                break;
            }
        }
    }
    let _ = std::fs::remove_dir_all(&s.dir);
    let d = scratch_root().to_string_lossy().to_string();
    Ok(out.join("\n").replace(&d, "<scratch>"))
}

pub const RULE: &str = "explicit-state breadth-first search from the empty directory to a fixpoint: writefile / appendfile with 3 contents, write/read binary file, readfile, touch, mkdir, cp and mv for every ordered pair of paths, rm, rm -r, rmdir, is_path_exists, is_file, is_dir, get_file_size and a recursive glob_array listing, over the paths {a.txt, d, d/b.txt, (d/e/c.txt,) 's p/ü.txt'} and the directories d/e and 's p'; operations that would exceed the entry or size bound are disabled; operations the documentation does not fix in the current state (directory sources of cp/mv, mv to a missing extension-less path, touch on a directory) are not generated. Each transition materialises the tree in a fresh scratch directory, runs the real command with absolute paths, snapshots the directory and compares output and the complete tree with the model (a failing operation must leave the tree unchanged). basename / dirname / join_path are swept separately (they do not depend on the tree). evaluations = transitions; distinct_nontrivial = distinct trees. Scale cases: write / read / size / cp / append / mv / overwrite with contents of 4095..65537 bytes (thorough: up to 5 MB), plain and with a two-byte character across the middle; 12 short contents that start or end with a byte order mark, line breaks, blanks, TAB, no-break / ideographic space, '#', a quote (write / read / size / cp / append). Bytes belong to their handle: read, change the file in one of 6 ways (or not), read again under one of 3 spellings of the path: two handles, each with the bytes of its moment, written out and released independently. Path functions by rule: paths of two and three elements from 12 names (blank, dots, hidden, multi-byte, CJK, emoji, combining mark), relative and absolute, with and without a trailing separator: basename, dirname, join_path. The path pool also has 19 elements that read as false, true, condition syntax, commands, options or special characters (0, no, false, set, not, -r, %, $x, a=b, #1 ...) Reads in every order: 3, 5, 6 (thorough 7, 9) files, every sequence of four reads over them in one long history, every 13 reads one file rewritten / appended to / copied over / moved away and back / removed and written again: each read gives what the file holds at that moment. Bare names: with the scratch directory as working directory, 5 names written without a directory part and as ./name: write, copy and move onto itself (4 spelling pairs), copy, move, append, size, remove. rm with several paths: three existing paths and one that does not exist at each place among them (or absent), with and without -r: exactly the named paths are gone; a non-empty directory named without -r at each place among two files: it stays with its content and nothing that was not named is touched (whether the other named paths go is not fixed by the documentation and not compared).";
pub const ASSUMPTIONS: &[&str] = &["the scratch directory is on tmpfs (/dev/shm) or a local file system without symlinks, permissions left at their defaults", "the output of rm on a missing path and of cp / mv of a file onto itself is not compared (only the tree, which must be unchanged)"];
pub const EXHAUSTIVE: bool = true;
pub const WALL_CAP_S: (u64, u64) = (58, 1500);
