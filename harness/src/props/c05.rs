//! C05 — functions: arguments, return values, early return and scoped isolation.
//! Engine E2: generated programs with one or two function definitions whose bodies are C04 block
//! trees with a `return` planted at every position; calls as statement, as assignment, in
//! condition position, nested, recursive and repeated; every answer sequence with bounded
//! deviations against the tree-walking interpreter with call semantics.

use crate::engine::*;
use crate::flow::*;
use crate::util::scale_case;
use crate::props::c04::{build, explore_program, forests};
use serde_json::{json, Value};

fn positions(body: &[Stmt]) -> usize {
    let mut n = body.len() + 1;
    for s in body {
        n += match s {
            Stmt::If { bodies, else_body, .. } => bodies.iter().map(|b| positions(b)).sum::<usize>() + else_body.as_ref().map(|b| positions(b)).unwrap_or(0),
            Stmt::While { body, .. } | Stmt::For { body, .. } => positions(body),
            _ => 0,
        };
    }
    n
}

/// inserts `stmt` at the k-th position (depth-first order); k counts down through `k`
fn plant(body: &[Stmt], k: &mut isize, stmt: &Stmt) -> Vec<Stmt> {
    let mut out = vec![];
    for s in body {
        if *k == 0 {
            out.push(stmt.clone());
        }
        *k -= 1;
        out.push(match s {
            Stmt::If { conds, bodies, else_body } => Stmt::If {
                conds: conds.clone(),
                bodies: bodies.iter().map(|b| plant(b, k, stmt)).collect(),
                else_body: else_body.as_ref().map(|b| plant(b, k, stmt)),
            },
            Stmt::While { cond, body } => Stmt::While {
                cond: cond.clone(),
                body: plant(body, k, stmt),
            },
            Stmt::For { site, body } => Stmt::For {
                site: *site,
                body: plant(body, k, stmt),
            },
            o => o.clone(),
        });
    }
    if *k == 0 {
        out.push(stmt.clone());
    }
    *k -= 1;
    out
}

#[derive(Clone, Copy, Debug, PartialEq)]
enum CallForm {
    Stmt,
    Assign,
    AssignSpaced,
    Cond,
}

fn call(form: CallForm, func: usize, id: u32) -> Stmt {
    match form {
        CallForm::Stmt => Stmt::Call { func, out: None, args: vec!["p".into()], position: 0, id },
        CallForm::Assign => Stmt::Call { func, out: Some("x".into()), args: vec!["p".into()], position: 0, id },
        CallForm::AssignSpaced => Stmt::Call { func, out: Some("x".into()), args: vec!["q r".into(), "s".into()], position: 0, id },
        CallForm::Cond => Stmt::Call { func, out: None, args: vec!["p".into()], position: 1, id },
    }
}

pub fn bounds(tier: Tier) -> Value {
    match tier {
        Tier::Quick => json!({"functions": 1, "body_blocks": 1, "calls_in_sequence": 3, "deviations": 2, "horizon": 8, "second_family": "two functions with nested call, recursion guarded by an answer"}),
        Tier::Thorough => json!({"functions": 2, "body_blocks": 2, "calls_in_sequence": 3, "deviations": 3, "horizon": 10}),
    }
}

fn run_prog(w: &mut Worker, rig: &FlowRig, prog: &Program, rot: usize, devs: usize, horizon: usize, class: u64) {
    if !w.take() {
        return;
    }
    let text = render(prog, &mut Speller::rot(rot));
    let cj = json!({"script": text});
    w.begin(|| cj.clone());
    let r = explore_program(rig, prog, &text, devs, horizon, 100_000);
    w.add_transitions(r.runs);
    w.add_traces(r.runs);
    w.count("executions", r.runs);
    w.count("executions_with_deviation", r.nontrivial);
    if r.capped {
        w.count("programs_capped", 1);
    }
    for o in &r.outcomes {
        w.add_state(*o);
    }
    if let Some(s) = r.sample {
        if w.want_sample() {
            w.sample(s);
        }
    }
    match r.failure {
        None => w.pass(true, class),
        Some((sig, what, answers)) => {
            let mut cj = cj;
            cj["answers"] = answers;
            // keep the classes of failing programs apart by what the function body does when it returns
            let in_for = returns_inside(prog, "for");
            let sig2 = if in_for { format!("{}:return-inside-for", sig) } else { sig };
            w.fail(&sig2, &what, cj)
        }
    }
}

/// does any function body contain a `return` (or, for recursion, a call) nested inside the given loop kind
fn returns_inside(p: &Program, kind: &str) -> bool {
    fn walk(body: &[Stmt], inside: bool, kind: &str) -> bool {
        body.iter().any(|s| match s {
            Stmt::Return(_) | Stmt::Call { .. } => inside,
            Stmt::If { bodies, else_body, .. } => bodies.iter().any(|b| walk(b, inside, kind)) || else_body.as_ref().map(|b| walk(b, inside, kind)).unwrap_or(false),
            Stmt::While { body, .. } => walk(body, inside || kind == "while", kind),
            Stmt::For { body, .. } => walk(body, inside || kind == "for", kind),
            _ => false,
        })
    }
    p.funcs.iter().any(|f| walk(&f.body, false, kind))
}


/// Depth and repetition: recursion far deeper, and calls repeated far more often, than the bounded
/// deviations of the other families reach (a call stack or frame table that is capped, trimmed or
/// mixed up only shows beyond some size).
fn scale(w: &mut Worker) {
    let sizes: Vec<u64> = crate::util::with_thresholds(w.tier.pick(vec![10, 70, 300, 3000, 6000], vec![10, 70, 300, 1000, 3000, 6000, 24000]), w.tier.pick(1024, 16384));
    for &d in &sizes {
        // plain recursion: the result comes back through d returns
        let text = format!(
            "fn down\nif equals ${{1}} 0\nreturn 0\nend\nn = calc ${{1}} - 1\nr = down ${{n}}\nr = calc ${{r}} + 1\nreturn ${{r}}\nend\nout = down {}\nafter = set reached",
            d
        );
        scale_case(w, &format!("recursion-plain depth {}", d), &text, &[("out", Some(d.to_string())), ("after", Some("reached".into()))]);
        // scoped recursion: every level still has its own argument after the inner call returned
        let text = format!(
            "fn <scope> sdown\nif equals ${{1}} 0\nreturn 0\nend\nn = calc ${{1}} - 1\nr = sdown ${{n}}\nr = calc ${{r}} + ${{1}}\nreturn ${{r}}\nend\nkeep = set mine\nout = sdown {}\nafter = set reached",
            d
        );
        scale_case(
            w,
            &format!("recursion-scoped depth {}", d),
            &text,
            &[("out", Some((d * (d + 1) / 2).to_string())), ("keep", Some("mine".into())), ("n", None), ("r", None), ("1", None), ("after", Some("reached".into()))],
        );
        // a loop that calls a function in every iteration
        let text = format!(
            "fn addone\nv = calc ${{1}} + 1\nreturn ${{v}}\nend\nacc = set 0\ni = set 0\nwhile less_than ${{i}} {}\ni = calc ${{i}} + 1\nacc = addone ${{acc}}\nend\nafter = set reached",
            d
        );
        scale_case(w, &format!("calls-in-loop count {}", d), &text, &[("acc", Some(d.to_string())), ("i", Some(d.to_string())), ("after", Some("reached".into()))]);
        // a function that leaves its own for/in loop through return, called again and again
        let text = format!(
            "fn find\nfor x in ${{items}}\nif equals ${{x}} ${{1}}\nreturn found${{x}}\nend\nend\nreturn none\nend\nitems = array a b c d\nhits = set 0\nmiss = set 0\ni = set 0\nwhile less_than ${{i}} {}\ni = calc ${{i}} + 1\nres = find c\nif equals ${{res}} foundc\nhits = calc ${{hits}} + 1\nend\nres = find zz\nif equals ${{res}} none\nmiss = calc ${{miss}} + 1\nend\nend\nrelease ${{items}}\nafter = set reached",
            d
        );
        scale_case(w, &format!("return-from-loop count {}", d), &text, &[("hits", Some(d.to_string())), ("miss", Some(d.to_string())), ("after", Some("reached".into()))]);
        // a scoped function called from a plain one called from a loop; the output variable is the only thing that comes back
        let text = format!(
            "fn <scope> inner\nt = set ${{1}}${{1}}\nreturn ${{t}}\nend\nfn outer\no = inner ${{1}}\nreturn ${{o}}!\nend\nlast = set none\ni = set 0\nwhile less_than ${{i}} {}\ni = calc ${{i}} + 1\nlast = outer ${{i}}\nend\nafter = set reached",
            d
        );
        scale_case(w, &format!("nested-calls count {}", d), &text, &[("last", Some(format!("{}{}!", d, d))), ("t", None), ("after", Some("reached".into()))]);
    }
}

/// A function that calls itself from inside a block of its body - the then-branch of an if with an
/// else, the else-branch, an elseif-branch, an if without else, a while body, an if inside a for body -
/// where the branch has no return of its own and the body goes on behind the block: every level comes
/// back into its own branch, runs the rest of it, leaves the block once and returns its own value.
fn recursion_through_blocks(w: &mut Worker) {
    let depths: Vec<u64> = w.tier.pick((0..=4).collect(), (0..=9).collect());
    // (name, block with CALL and BASE as place holders)
    let kinds: [(&str, &str); 8] = [
        ("then-branch", "if greater_than ${n} 0\nCALL\nelse\nBASE\nend"),
        ("else-branch", "if equals ${n} 0\nBASE\nelse\nCALL\nend"),
        ("elseif-branch", "if equals ${n} 0\nBASE\nelseif greater_than ${n} 0\nCALL\nelse\nbad = set reached\nend"),
        ("second-elseif-branch", "if equals ${n} 0\nBASE\nelseif false\nbad = set reached\nelseif greater_than ${n} 0\nCALL\nend"),
        ("if-without-else", "if equals ${n} 0\nBASE\nend\nif greater_than ${n} 0\nCALL\nend"),
        ("nested-if", "if true\nif greater_than ${n} 0\nCALL\nelse\nBASE\nend\nelse\nbad = set reached\nend"),
        ("while-body", "if equals ${n} 0\nBASE\nend\ngo = greater_than ${n} 0\nwhile ${go}\nCALL\ngo = set false\nend"),
        ("if-in-for-body", "for it in ${one}\nif greater_than ${n} 0\nCALL\nelse\nBASE\nend\nend"),
    ];
    for (kind, block) in kinds {
        for &d in &depths {
            // plain function: one shared trace; every level restores its own number from what came back
            let call = "m = calc ${n} - 1\nr = rec ${m}\nn = calc ${r} + 1\nt = set \"${t}b${n}\"";
            let base = "t = set \"${t}z\"";
            let text = format!(
                "one = array only\nt = set \"\"\nfn rec\nt = set \"${{t}}e${{1}}\"\nn = set ${{1}}\n{}\nt = set \"${{t}}x${{n}}\"\nreturn ${{n}}\nend\nout = rec {}\nafter = set reached",
                block.replace("CALL", call).replace("BASE", base),
                d
            );
            let mut trace = String::new();
            for k in (0..=d).rev() {
                trace.push_str(&format!("e{}", k));
            }
            trace.push_str("zx0");
            for k in 1..=d {
                trace.push_str(&format!("b{}x{}", k, k));
            }
            scale_case(w, &format!("recursion-through-block {} depth {}", kind, d), &text, &[("t", Some(trace)), ("out", Some(d.to_string())), ("bad", None), ("after", Some("reached".into()))]);
            // scoped function: the trace travels in the returned values, every level keeps its own variables
            let call = "m = calc ${n} - 1\nr = srec ${m}\nacc = set \"${r}b${n}\"";
            let base = "acc = set z";
            let text = format!(
                "one = array only\nfn <scope> srec\nn = set ${{1}}\none = array only\n{}\nrelease ${{one}}\nreturn \"${{acc}}x${{n}}\"\nend\nkeep = set mine\nout = srec {}\nafter = set reached",
                block.replace("CALL", call).replace("BASE", base),
                d
            );
            let mut ret = String::from("zx0");
            for k in 1..=d {
                ret.push_str(&format!("b{}x{}", k, k));
            }
            scale_case(w, &format!("recursion-through-block-scoped {} depth {}", kind, d), &text, &[("out", Some(ret)), ("keep", Some("mine".into())), ("bad", None), ("n", None), ("acc", None), ("after", Some("reached".into()))]);
        }
    }
}

/// A scoped function that calls itself in every pass of a loop of its own (two passes, so the loop has
/// to go on after the inner invocation ran - and finished - the same loop): while, for-in, a while
/// inside a for-in. The value is the bracketed tree of the calls.
fn recursion_in_loops(w: &mut Worker) {
    let depths: Vec<u64> = w.tier.pick((0..=3).collect(), (0..=6).collect());
    let kinds: [(&str, &str); 4] = [
        ("while", "i = set 0\nwhile less_than ${i} 2\ni = calc ${i} + 1\nCALL\nend"),
        ("for", "two = array 1 2\nfor it in ${two}\nCALL\nend\nrelease ${two}"),
        ("while-in-for", "two = array 1\nfor it in ${two}\ni = set 0\nwhile less_than ${i} 2\ni = calc ${i} + 1\nCALL\nend\nend\nrelease ${two}"),
        ("while-with-condition-function", "i = set 0\nwhile less_than ${i} 2\ni = calc ${i} + 1\nif greater_than ${n} 0\nCALL\nend\nend"),
    ];
    fn tree(n: u64) -> String {
        if n == 0 {
            "x0".to_string()
        } else {
            let t = tree(n - 1);
            format!("({})({})x{}", t, t, n)
        }
    }
    for (kind, block) in kinds {
        for &d in &depths {
            let call = "if greater_than ${n} 0\nm = calc ${n} - 1\nr = srec ${m}\nacc = set \"${acc}(${r})\"\nend";
            let text = format!(
                "fn <scope> srec\nn = set ${{1}}\nacc = set \"\"\n{}\nreturn \"${{acc}}x${{n}}\"\nend\nkeep = set mine\nout = srec {}\nafter = set reached",
                block.replace("CALL", call),
                d
            );
            scale_case(w, &format!("recursion-in-loop {} depth {}", kind, d), &text, &[("out", Some(tree(d))), ("keep", Some("mine".into())), ("n", None), ("i", None), ("acc", None), ("after", Some("reached".into()))]);
        }
    }
    // the recursive call in condition position, from inside the function's own for/in loop; the inner
    // invocation returns from inside its loop (at the second item), the outer loop goes on to the third
    for (form, open, close) in [
        ("if", "if deep ${m}", "end"),
        ("not", "r = not deep ${m}\nif not ${r}", "end"),
        ("elseif", "if false\nelseif deep ${m}", "end"),
        ("while", "go = set true\nwhile deep ${m}\nif not ${go}\ngoto :leave${n}\nend\ngo = set false", "end\n:leave${n}"),
    ] {
        for &d in &depths {
            if form == "while" {
                continue; // a label inside a function body with a variable in its name is not a label: kept out
            }
            let text = format!(
                "fn <scope> deep\nn = set ${{1}}\nitems = array a b c\ncnt = set 0\nhits = set \"\"\nfor it in ${{items}}\ncnt = calc ${{cnt}} + 1\nif greater_than ${{n}} 0\nm = calc ${{n}} - 1\n{}\nhits = set \"${{hits}}${{it}}\"\n{}\nend\nif equals ${{n}} 0\nif equals ${{it}} b\nrelease ${{items}}\nreturn true\nend\nend\nend\nrelease ${{items}}\nreturn \"${{hits}}:${{cnt}}\"\nend\nkeep = set mine\nout = deep {}\nafter = set reached",
                open, close, d
            );
            let exp = if d == 0 { "true".to_string() } else { "abc:3".to_string() };
            scale_case(w, &format!("recursion-in-condition-from-loop {} depth {}", form, d), &text, &[("out", Some(exp)), ("keep", Some("mine".into())), ("hits", None), ("cnt", None), ("after", Some("reached".into()))]);
        }
    }
}

/// A command that reports an error inside a function body does not end the call: the body goes on, the
/// function returns its value, a scoped function gives the caller's variables back, and the loop around
/// the call goes on - whether the function was called as a statement, for its value, or in condition
/// position (if / elseif / not / while).
fn errors_inside_functions(w: &mut Worker) {
    for failing in ["trigger_error boom", "q = array_pop nohandle", "q = array_join nohandle ,", "assert_error again"] {
        for scoped in [false, true] {
            for (form, call, check) in [
                ("statement", "f ${it}", ""),
                ("assign", "r = f ${it}", "got = set \"${got}${r}\""),
                ("if", "if f ${it}\ngot = set \"${got}y\"\nend", ""),
                ("elseif", "if false\nelseif f ${it}\ngot = set \"${got}y\"\nelse\ngot = set \"${got}n\"\nend", ""),
                ("not", "r = not f ${it}", "got = set \"${got}${r}\""),
                ("while", "once = set true\nwhile f ${it}\nif not ${once}\ngot = set \"${got}again\"\nend\nonce = set false\ngot = set \"${got}y\"\nlimit = calc ${limit} + 1\nif greater_than ${limit} 4\ngot = set \"${got}runaway\"\nend\nend", ""),
            ] {
                if form == "while" {
                    continue; // a while whose condition is a function that always says true does not end: kept out
                }
                let head = if scoped { "fn <scope> f" } else { "fn f" };
                let text = format!(
                    "{}\nbefore = set ${{1}}\n{}\nafter_error = set reached\nreturn t${{1}}\nend\nkeep = set mine\ngot = set \"\"\nlimit = set 0\nlist = array a b\nseen = set \"\"\nfor it in ${{list}}\n{}\n{}\nseen = set \"${{seen}}${{it}}\"\nend\nrelease ${{list}}\nlast = set reached",
                    head, failing, call, check
                );
                let got = match form {
                    "statement" => "",
                    "assign" => "tatb",
                    "if" | "elseif" => "yy",
                    _ => "falsefalse",
                };
                let mut expect: Vec<(&str, Option<String>)> = vec![("keep", Some("mine".into())), ("got", Some(got.to_string())), ("seen", Some("ab".into())), ("last", Some("reached".into()))];
                if scoped {
                    expect.push(("before", None));
                    expect.push(("after_error", None));
                } else {
                    expect.push(("before", Some("b".into())));
                    expect.push(("after_error", Some("reached".into())));
                }
                scale_case(w, &format!("error-inside-function {} {} failing {:?}", if scoped { "scoped" } else { "plain" }, form, failing), &text, &expect);
                // the same one call further down: the function that is called (in whatever form) calls another
                // one for its value, and the error happens in there; both return what they were going to
                let text = format!(
                    "{head_inner}\nmark = set in${{1}}\n{failing}\nreturn ${{mark}}\nend\n{head}\nv = inner ${{1}}\nresumed = set yes\nreturn t${{v}}\nend\nkeep = set mine\ngot = set \"\"\nlist = array a b\nseen = set \"\"\nfor it in ${{list}}\n{call}\n{check}\nseen = set \"${{seen}}${{it}}\"\nend\nrelease ${{list}}\nlast = set reached",
                    head_inner = if scoped { "fn <scope> inner" } else { "fn inner" },
                    head = head,
                    failing = failing,
                    call = call,
                    check = check
                );
                let got2 = match form {
                    "statement" => "",
                    "assign" => "tinatinb",
                    "if" | "elseif" => "yy",
                    _ => "falsefalse",
                };
                let mut expect2: Vec<(&str, Option<String>)> = vec![("keep", Some("mine".into())), ("got", Some(got2.to_string())), ("seen", Some("ab".into())), ("last", Some("reached".into()))];
                if scoped {
                    expect2.push(("mark", None));
                    expect2.push(("resumed", None));
                } else {
                    expect2.push(("mark", Some("inb".into())));
                    expect2.push(("resumed", Some("yes".into())));
                }
                scale_case(w, &format!("error-inside-called-function {} {} failing {:?}", if scoped { "scoped" } else { "plain" }, form, failing), &text, &expect2);
            }
        }
    }
}

pub fn worker(w: &mut Worker) {
    let tier = w.tier;
    w.set_case_limit_ms(20_000);
    // a case of these families may kill the process (a runaway nested interpreter): pin it to the case
    w.risky = true;
    scale(w);
    errors_inside_functions(w);
    recursion_through_blocks(w);
    recursion_in_loops(w);
    w.risky = false;
    let rig = FlowRig::new();
    let (devs, horizon) = tier.pick((2usize, 8usize), (3usize, 10usize));
    let maxblocks = tier.pick(1usize, 2usize);
    let forms_list: &[u8] = match tier {
        Tier::Quick => &[2],
        Tier::Thorough => &[2, 0, 7],
    };
    let call_forms = [CallForm::Stmt, CallForm::Assign, CallForm::AssignSpaced, CallForm::Cond];
    let mut seqs: Vec<Vec<CallForm>> = vec![];
    for a in call_forms {
        seqs.push(vec![a]);
    }
    for a in call_forms {
        for b in call_forms {
            seqs.push(vec![a, b]);
        }
    }
    for a in call_forms {
        seqs.push(vec![a, a, a]);
    }
    seqs.push(vec![CallForm::Assign, CallForm::Cond, CallForm::Assign]);
    seqs.push(vec![CallForm::Cond, CallForm::Assign, CallForm::Stmt]);

    // family 1: one function, body = block forest with one planted return
    for nb in 0..=maxblocks {
        for forest in forests(nb, 2) {
            for &forms in forms_list {
                let base = build(&forest, 0, forms);
                let body0 = base.main;
                let npos = positions(&body0);
                let mut rets: Vec<Option<Stmt>> = vec![None];
                for v in [Some("r1".to_string()), None, Some("r 2".to_string()), Some(String::new())] {
                    rets.push(Some(Stmt::Return(v)));
                }
                for ret in &rets {
                    let places: Vec<isize> = if ret.is_none() { vec![-1] } else { (0..npos as isize).collect() };
                    for place in places {
                        let mut body = match ret {
                            Some(r) => {
                                let mut k = place;
                                plant(&body0, &mut k, r)
                            }
                            None => body0.clone(),
                        };
                        for tail in [false, true] {
                            if tail {
                                body.push(Stmt::Return(Some("r9".into())));
                            }
                            for scoped in [false, true] {
                                for (si, seq) in seqs.iter().enumerate() {
                                    if tier == Tier::Quick && nb > 0 && seq.len() == 2 && si % 3 != 0 {
                                        continue;
                                    }
                                    let mut main = vec![
                                        Stmt::Set("g".into(), "G".into()),
                                        Stmt::Set("x".into(), "X0".into()),
                                        Stmt::Emit(100),
                                    ];
                                    for (i, f) in seq.iter().enumerate() {
                                        main.push(call(*f, 0, 200 + i as u32));
                                        main.push(Stmt::Emit(101 + i as u32));
                                    }
                                    let prog = Program {
                                        funcs: vec![Func { scoped, body: body.clone() }],
                                        main,
                                    };
                                    let rot = (si + place.max(0) as usize) % 4;
                                    run_prog(w, &rig, &prog, rot, devs, horizon, hash64(&(nb, scoped, seq.len(), ret.is_some())));
                                }
                            }
                        }
                    }
                }
            }
        }
    }

    // family 3: "find first" shapes: a loop that returns from a later iteration, called again afterwards
    // (a frame left by a return taken in the second iteration must not be resumed by the next call)
    {
        let bodies: Vec<Vec<Stmt>> = vec![
            vec![
                Stmt::For {
                    site: 1,
                    body: vec![
                        Stmt::Emit(1),
                        Stmt::If {
                            conds: vec![Cond { site: 2, form: 2 }],
                            bodies: vec![vec![Stmt::Return(Some("hit".into()))]],
                            else_body: None,
                        },
                        Stmt::Emit(2),
                    ],
                },
                Stmt::Return(Some("none".into())),
            ],
            vec![
                Stmt::For {
                    site: 1,
                    body: vec![Stmt::While {
                        cond: Cond { site: 2, form: 2 },
                        body: vec![Stmt::Emit(3), Stmt::Return(None)],
                    }],
                },
                Stmt::Emit(4),
            ],
        ];
        let seqs3: Vec<Vec<CallForm>> = vec![
            vec![CallForm::Assign, CallForm::Assign],
            vec![CallForm::Assign, CallForm::Stmt, CallForm::Assign],
            vec![CallForm::Cond, CallForm::Assign],
            vec![CallForm::Stmt, CallForm::Cond],
        ];
        for (bi, body) in bodies.iter().enumerate() {
            for scoped in [false, true] {
                for (si, seq) in seqs3.iter().enumerate() {
                    let mut main = vec![Stmt::Set("g".into(), "G".into()), Stmt::Set("x".into(), "X0".into())];
                    for (i, f) in seq.iter().enumerate() {
                        main.push(call(*f, 0, 200 + i as u32));
                        main.push(Stmt::Emit(101 + i as u32));
                    }
                    let prog = Program {
                        funcs: vec![Func { scoped, body: body.clone() }],
                        main,
                    };
                    // array of two, no hit at the first element, hit at the second, array again in the next call
                    run_prog(w, &rig, &prog, si % 4, tier.pick(4, 5), 14, hash64(&("find-first", bi, scoped, si)));
                }
            }
        }
    }

    // family 4: a <scope> function whose locals carry the names of the caller's variables - of the
    // output variable above all - ending by reaching its end, by a bare return, by a value; the caller
    // had no value in the output variable before (the corner the property leaves open is a
    // pre-existing one)
    {
        let endings: Vec<Vec<Stmt>> = vec![vec![], vec![Stmt::Return(None)], vec![Stmt::Return(Some("r1".into()))], vec![Stmt::Return(Some("x".into()))], vec![Stmt::Return(Some(String::new()))]];
        let seqs4: Vec<Vec<CallForm>> = vec![
            vec![CallForm::Assign],
            vec![CallForm::Assign, CallForm::Assign],
            vec![CallForm::Stmt, CallForm::Assign],
            vec![CallForm::Cond, CallForm::Assign],
            vec![CallForm::AssignSpaced, CallForm::Stmt],
        ];
        for (ei, ending) in endings.iter().enumerate() {
            for in_block in [false, true] {
                let mut body = vec![Stmt::Set("x".into(), "local-x".into()), Stmt::Set("g".into(), "local-g".into()), Stmt::Set("fresh".into(), "local-fresh".into()), Stmt::Emit(1)];
                if in_block {
                    // the ending sits inside a taken branch
                    let mut inner = vec![Stmt::Emit(2)];
                    inner.extend(ending.iter().cloned());
                    body.push(Stmt::If { conds: vec![Cond { site: 1, form: 2 }], bodies: vec![inner], else_body: None });
                } else {
                    body.extend(ending.iter().cloned());
                }
                for (si, seq) in seqs4.iter().enumerate() {
                    let mut main = vec![Stmt::Set("g".into(), "G".into()), Stmt::Emit(100)];
                    for (i, f) in seq.iter().enumerate() {
                        main.push(call(*f, 0, 200 + i as u32));
                        main.push(Stmt::Emit(101 + i as u32));
                    }
                    let prog = Program {
                        funcs: vec![Func { scoped: true, body: body.clone() }],
                        main,
                    };
                    run_prog(w, &rig, &prog, (si + ei) % 4, devs, horizon, hash64(&("locals", ei, in_block, si)));
                }
            }
        }
    }

    // family 5: a function with a block of its own (a while, a for/in, an if with an else) called first at
    // the top level and then from inside branches of the caller's blocks - a taken branch that has elseif /
    // else lines behind it, one level and two levels deep, a loop body: the caller's blocks go on as
    // written after each call, wherever the function ran before
    {
        let fbodies: Vec<Vec<Stmt>> = vec![
            vec![Stmt::While { cond: Cond { site: 1, form: 2 }, body: vec![Stmt::Emit(1)] }, Stmt::Return(Some("w".into()))],
            vec![Stmt::For { site: 2, body: vec![Stmt::Emit(2)] }],
            vec![Stmt::If { conds: vec![Cond { site: 3, form: 2 }], bodies: vec![vec![Stmt::Emit(3)]], else_body: Some(vec![Stmt::Emit(4)]) }, Stmt::Return(None)],
            vec![Stmt::While { cond: Cond { site: 4, form: 2 }, body: vec![Stmt::If { conds: vec![Cond { site: 5, form: 2 }], bodies: vec![vec![Stmt::Emit(5)]], else_body: None }] }],
        ];
        let c = |form: CallForm, id: u32| call(form, 0, id);
        let mains: Vec<Vec<Stmt>> = vec![
            vec![
                c(CallForm::Stmt, 200),
                Stmt::If { conds: vec![Cond { site: 20, form: 2 }, Cond { site: 21, form: 2 }], bodies: vec![vec![Stmt::Emit(100), c(CallForm::Stmt, 201), Stmt::Emit(101)], vec![Stmt::Emit(102)]], else_body: Some(vec![Stmt::Emit(103)]) },
                Stmt::Emit(104),
            ],
            vec![
                c(CallForm::Assign, 200),
                Stmt::If {
                    conds: vec![Cond { site: 20, form: 2 }],
                    bodies: vec![vec![Stmt::If { conds: vec![Cond { site: 21, form: 2 }, Cond { site: 22, form: 2 }], bodies: vec![vec![c(CallForm::Assign, 201)], vec![Stmt::Emit(105)]], else_body: Some(vec![Stmt::Emit(106)]) }]],
                    else_body: Some(vec![Stmt::Emit(107)]),
                },
                Stmt::Emit(108),
            ],
            vec![
                Stmt::If { conds: vec![Cond { site: 20, form: 2 }], bodies: vec![vec![c(CallForm::Stmt, 200)]], else_body: Some(vec![Stmt::Emit(109)]) },
                c(CallForm::Cond, 201),
                Stmt::While { cond: Cond { site: 23, form: 2 }, body: vec![Stmt::If { conds: vec![Cond { site: 24, form: 2 }], bodies: vec![vec![c(CallForm::Stmt, 202)]], else_body: Some(vec![Stmt::Emit(110)]) }, Stmt::Emit(111)] },
                Stmt::Emit(112),
            ],
        ];
        for (fi, fbody) in fbodies.iter().enumerate() {
            for scoped in [false, true] {
                for (mi, main) in mains.iter().enumerate() {
                    let mut m = vec![Stmt::Set("g".into(), "G".into()), Stmt::Set("x".into(), "X0".into())];
                    m.extend(main.iter().cloned());
                    let prog = Program { funcs: vec![Func { scoped, body: fbody.clone() }], main: m };
                    run_prog(w, &rig, &prog, (fi + mi) % 4, tier.pick(4, 5), tier.pick(16, 20), hash64(&("depths", fi, scoped, mi)));
                }
            }
        }
    }

    // family 2: two functions, f1 calls f0 (nested), f0 may call itself guarded by an answer (recursion)
    let inner_bodies: Vec<Vec<Stmt>> = {
        let mut v = vec![];
        // straight line, return value
        v.push(vec![Stmt::Emit(1), Stmt::Return(Some("r1".into()))]);
        // no value
        v.push(vec![Stmt::Emit(1)]);
        // return from inside a for body
        v.push(vec![Stmt::Emit(1), Stmt::For { site: 1, body: vec![Stmt::Emit(2), Stmt::Return(Some("r2".into()))] }, Stmt::Emit(3)]);
        // return from inside a while inside an if
        v.push(vec![
            Stmt::If {
                conds: vec![Cond { site: 2, form: 2 }],
                bodies: vec![vec![Stmt::While { cond: Cond { site: 3, form: 2 }, body: vec![Stmt::Emit(4), Stmt::Return(None)] }]],
                else_body: Some(vec![Stmt::Emit(5)]),
            },
            Stmt::Return(Some("r3".into())),
        ]);
        // recursion guarded by an answer, at top level of the body
        v.push(vec![
            Stmt::Emit(1),
            Stmt::If {
                conds: vec![Cond { site: 4, form: 2 }],
                bodies: vec![vec![Stmt::Call { func: 0, out: None, args: vec!["rec".into()], position: 0, id: 300 }, Stmt::Emit(6)]],
                else_body: None,
            },
            Stmt::Emit(7),
            Stmt::Return(Some("r4".into())),
        ]);
        // recursion from inside a for body
        v.push(vec![
            Stmt::For {
                site: 5,
                body: vec![
                    Stmt::Emit(8),
                    Stmt::If {
                        conds: vec![Cond { site: 6, form: 2 }],
                        bodies: vec![vec![Stmt::Call { func: 0, out: Some("y".into()), args: vec!["rec".into()], position: 0, id: 301 }]],
                        else_body: None,
                    },
                    Stmt::Emit(9),
                ],
            },
            Stmt::Return(Some("r5".into())),
        ]);
        // recursion from inside a for body where the inner invocation leaves its loop by an early return
        v.push(vec![
            Stmt::For {
                site: 8,
                body: vec![
                    Stmt::Emit(10),
                    Stmt::If {
                        conds: vec![Cond { site: 9, form: 2 }],
                        bodies: vec![vec![Stmt::Call { func: 0, out: Some("y".into()), args: vec!["rec".into()], position: 0, id: 302 }]],
                        else_body: None,
                    },
                    Stmt::If {
                        conds: vec![Cond { site: 10, form: 2 }],
                        bodies: vec![vec![Stmt::Return(Some("r6".into()))]],
                        else_body: None,
                    },
                    Stmt::Emit(11),
                ],
            },
            Stmt::Return(Some("r7".into())),
        ]);
        v
    };
    let outer_bodies: Vec<Vec<Stmt>> = vec![
        vec![Stmt::Emit(20), Stmt::Call { func: 0, out: Some("y".into()), args: vec!["n1".into()], position: 0, id: 310 }, Stmt::Emit(21), Stmt::Return(Some("o1".into()))],
        vec![Stmt::Call { func: 0, out: None, args: vec!["n2".into()], position: 0, id: 311 }, Stmt::Emit(22)],
        vec![Stmt::Call { func: 0, out: None, args: vec!["n3".into()], position: 1, id: 312 }, Stmt::Return(None)],
        vec![
            Stmt::For { site: 7, body: vec![Stmt::Call { func: 0, out: Some("y".into()), args: vec!["n4".into()], position: 0, id: 313 }, Stmt::Emit(23)] },
            Stmt::Return(Some("o2".into())),
        ],
        // the call is the last thing the outer function does: it ends without a value all the same
        vec![Stmt::Emit(24), Stmt::Call { func: 0, out: None, args: vec!["n5".into()], position: 0, id: 314 }],
        vec![
            Stmt::Emit(25),
            Stmt::If { conds: vec![Cond { site: 11, form: 2 }], bodies: vec![vec![Stmt::Call { func: 0, out: None, args: vec!["n6".into()], position: 0, id: 315 }]], else_body: None },
        ],
    ];
    for (ii, inner) in inner_bodies.iter().enumerate() {
        for (oi, outer) in outer_bodies.iter().enumerate() {
            for s0 in [false, true] {
                if (ii == 5 || ii == 6) && !s0 {
                    // a plain (unscoped) function that calls itself from inside its own for body
                    // overwrites the array variable the outer loop is iterating over: that is a
                    // program that modifies the iterated array, outside the property
                    continue;
                }
                for s1 in [false, true] {
                    for (si, seq) in seqs.iter().enumerate() {
                        if tier == Tier::Quick && seq.len() == 2 && (si + ii + oi) % 4 != 0 {
                            continue;
                        }
                        let mut main = vec![Stmt::Set("g".into(), "G".into()), Stmt::Set("x".into(), "X0".into())];
                        for (i, f) in seq.iter().enumerate() {
                            // alternate between the outer and the inner function
                            let func = if i % 2 == 0 { 1 } else { 0 };
                            main.push(call(*f, func, 200 + i as u32));
                            main.push(Stmt::Emit(101 + i as u32));
                        }
                        let prog = Program {
                            funcs: vec![Func { scoped: s0, body: inner.clone() }, Func { scoped: s1, body: outer.clone() }],
                            main,
                        };
                        // the recursive bodies need an array with two elements, the recursion and an early
                        // return in the inner invocation at the same time: four deviations
                        let (d2, h2) = if ii >= 5 { (devs.max(4), horizon + 4) } else { (devs, horizon + 2) };
                        if ii >= 5 && seq.len() > 1 && tier == Tier::Quick {
                            continue;
                        }
                        run_prog(w, &rig, &prog, (si + oi) % 4, d2, h2, hash64(&("two", ii, oi, s0, s1)));
                    }
                }
            }
        }
    }
}

pub fn replay(case: &Value) -> Result<String, String> {
    if let Some(r) = crate::util::scale_replay(case) {
        return r;
    }
    crate::props::c04::replay(case)
}

pub fn crash_sig(_case: &Value, kind: &str) -> String {
    kind.to_string()
}

pub const RULE: &str = "family 1: one function (plain and <scope>) whose body is every block forest with 0..B blocks (if/elseif/else, while, for-in) with nothing, `return r1` or a bare `return` planted at every position of the body (depth-first, inside every nesting), with and without a trailing `return r9`; main sets a global and a pre-existing output variable and calls the function in every sequence of 1..2 call forms and selected triples from {statement, `x = f p`, `x = f \"q r\" s`, condition position `if f p`}. family 2: two functions where the outer one calls the inner one (as assignment, statement, in condition position, from a for body) and the inner one returns from inside for / while-in-if or calls itself guarded by an answer (also from inside a for body), all scoped/plain combinations. family 3: 'find first' functions (a loop that returns from a later iteration) called two or three times in every form, explored with 4-5 deviations. Every answer sequence (truth values, array lengths) with bounded deviations; each execution compared with the tree-walking interpreter with call semantics (arguments as global variables 1..n, scoped save/restore, value-less end leaves the output variable undefined). Function-body emits show ${1} and a global ${g} so argument binding and scope isolation are observable. The two corners the property leaves open are masked. family 4: a <scope> function whose locals are named like the caller's output variable, global and a fresh name, ending by reaching its end / bare return / value (also from inside a taken branch), called in five sequences of forms from a caller that had no value in the output variable. Scale family: plain and <scope> recursion of depth 10/70/300 (thorough: 1000, 3000), a function called from a loop 10..300 times, a function that returns from inside its own for/in loop called 2x10..300 times, a scoped function called from a plain one called from a loop; results and the variables that must stay undefined are compared with values computed in Rust Recursion through blocks: a function calling itself from the then / else / elseif / second elseif branch, an if without else, a nested if, a while body, an if inside a for body - no return inside the branch, the body goes on behind the block - depth 0..4 (thorough 9), plain (shared trace) and scoped (trace in the returned values) Errors inside functions: 4 failing commands x plain / scoped x call as statement / for its value / if / elseif / not, inside a for body of two items: the body goes on, the value comes back, a scoped function gives the caller's variables back, the loop completes. Recursion in loops: a scoped function calling itself in both passes of a while / for-in / while inside for-in (value = the bracketed call tree, depth 0..3, thorough 6), and calling itself in condition position (if / not / elseif) from inside its own for-in loop, the inner invocation returning from inside its loop. Error inside a called function: the same with the error one call further down (the called function calls another one for its value). All fixed-case families run at the threshold sizes and as pinned cases Family 5: a function with a block of its own (while, for/in, if/else, an if inside a while) called first at the top level and then from taken branches of the caller's blocks that have elseif / else lines behind them (one and two levels deep) and from a loop body, 4 (thorough 5) deviations; two outer bodies end with a call as their last statement (at body level, and as the last statement of a block that ends the body).";
pub const ASSUMPTIONS: &[&str] = &["spelling of fn/return keywords rotates over their aliases and full names", "loop variables after their loop and handle names are masked in the final variables"];
pub const EXHAUSTIVE: bool = true;
pub const WALL_CAP_S: (u64, u64) = (55, 2700);
