//! C12 — arrays, maps and sets behind handles behave like their plain counterparts.
//! Engine E1: explicit-state search over collection command histories; the model holds a vector,
//! a map or a set per live handle; the whole handle table is compared after every step.

use crate::engine::*;
use crate::seqmc::*;
use crate::util::*;
use duckscript::types::command::Commands;
use duckscript::types::runtime::StateValue;
use serde_json::{json, Value};
use std::cell::RefCell;
use std::collections::{BTreeMap, BTreeSet, HashMap};
use std::rc::Rc;
use std::time::Duration;

#[derive(Clone, Debug, PartialEq, Eq, Hash, PartialOrd, Ord)]
pub enum Coll {
    Arr(Vec<String>),
    Map(BTreeMap<String, String>),
    Set(BTreeSet<String>),
}

/// which handle text an operation is given
#[derive(Clone, Copy, Debug, PartialEq, Eq, Hash)]
pub enum H {
    Live(usize),
    Released,
    Unknown,
    LookAlike,
}

#[derive(Clone, Debug, PartialEq, Eq, Hash)]
pub struct Op {
    pub cmd: &'static str,
    pub h: Option<H>,
    pub h2: Option<H>,
    pub args: Vec<String>,
}

#[derive(Clone, Debug, Default)]
pub struct Model {
    pub live: Vec<Coll>,
    pub has_released: bool,
    /// stable identity of every live collection (parallel to `live`); a value that is the name of a
    /// collection is held in the model as the token REF + id
    pub ids: Vec<u32>,
    pub next_id: u32,
}

/// a stored value that is the handle of collection <id> (real handle names are random)
pub const REF: &str = "\u{1}h";

fn token(id: u32) -> String {
    format!("{}{}", REF, id)
}

pub struct Impl {
    commands: Rc<RefCell<Option<Commands>>>,
    variables: HashMap<String, String>,
    state: HashMap<String, StateValue>,
    /// real names of the live handles, in creation order (parallel to Model::live)
    names: Vec<String>,
    released: Option<String>,
    /// every handle this history created, live or released, with its stable id
    known: Vec<(String, u32)>,
}

pub const LOOKALIKE: &str = "handle:AAAAAAAAAAAAAAAAAAAA";

pub struct C12 {
    max_live: usize,
    max_len: usize,
    values: Vec<String>,
    keys: Vec<String>,
    depth: usize,
    /// quick tier: one bogus handle text per state instead of three, fewer index / range choices
    slim: bool,
}

impl C12 {
    pub fn new(tier: Tier) -> C12 {
        C12 {
            max_live: 2,
            max_len: 2,
            values: match tier {
                // "0" and "false" matter: the script-implemented commands decide with truthiness internally
                Tier::Quick => vec!["a".into(), "".into(), "b c".into()],
                Tier::Thorough => vec!["a".into(), "".into(), "b c".into(), "0".into(), "false".into(), LOOKALIKE.into(), "é".into()],
            },
            keys: vec!["a".into(), "b c".into()],
            depth: 64,
            slim: tier == Tier::Quick,
        }
    }

    fn handle_choices(&self, m: &Model) -> Vec<H> {
        let mut v: Vec<H> = (0..m.live.len()).map(H::Live).collect();
        if self.slim {
            // one bogus text per state: a released name when there is one, else an unknown text
            v.push(if m.has_released { H::Released } else { H::Unknown });
            return v;
        }
        if m.has_released {
            v.push(H::Released);
        }
        v.push(H::Unknown);
        v.push(H::LookAlike);
        v
    }
}

fn op(cmd: &'static str, h: Option<H>, h2: Option<H>, args: &[&str]) -> Op {
    Op {
        cmd,
        h,
        h2,
        args: args.iter().map(|s| s.to_string()).collect(),
    }
}

#[derive(Debug, PartialEq)]
enum Exp {
    Val(Option<String>),
    /// a new collection with this content (output is its handle)
    New(Coll),
    /// a new collection whose element order is not documented (compared as a multiset, then sorted)
    NewUnordered(Vec<String>),
    Err,
    /// released, unknown or wrong-kind handle: the error result or `false`
    ErrOrFalse,
}

impl Impl {
    fn call(&mut self, cmd: &str, args: &[String]) -> Out {
        let commands = self.commands.borrow_mut().take().unwrap();
        let mut s = Session {
            commands,
            variables: std::mem::take(&mut self.variables),
            state: std::mem::take(&mut self.state),
            out: Buf::default(),
        };
        let a: Vec<&str> = args.iter().map(|x| x.as_str()).collect();
        let r = s.call(cmd, &a);
        self.variables = s.variables;
        self.state = s.state;
        *self.commands.borrow_mut() = Some(s.commands);
        r
    }
    fn table(&self) -> BTreeMap<String, SV> {
        match self.state.get("handles") {
            Some(StateValue::SubState(m)) => m.iter().map(|(k, v)| (k.clone(), abstract_state_value(v))).collect(),
            _ => BTreeMap::new(),
        }
    }
    /// a text as the model sees it: real handle names replaced by their tokens
    fn to_model(&self, text: &str) -> String {
        if !text.contains("handle:") {
            return text.to_string();
        }
        let mut t = text.to_string();
        for (name, id) in &self.known {
            if t.contains(name.as_str()) {
                t = t.replace(name.as_str(), &token(*id));
            }
        }
        t
    }
    fn coll_to_model(&self, c: Coll) -> Coll {
        match c {
            Coll::Arr(v) => Coll::Arr(v.iter().map(|x| self.to_model(x)).collect()),
            Coll::Map(m) => Coll::Map(m.iter().map(|(k, v)| (self.to_model(k), self.to_model(v))).collect()),
            Coll::Set(v) => Coll::Set(v.iter().map(|x| self.to_model(x)).collect()),
        }
    }
    fn text(&self, h: H) -> String {
        match h {
            H::Live(i) => self.names[i].clone(),
            H::Released => self.released.clone().unwrap_or_else(|| "handle:released0000000000000".into()),
            H::Unknown => "nohandle".into(),
            H::LookAlike => LOOKALIKE.into(),
        }
    }
}

fn coll_of(sv: &SV) -> Option<Coll> {
    match sv {
        SV::L(items) => Some(Coll::Arr(
            items
                .iter()
                .map(|x| match x {
                    SV::S(s) => s.clone(),
                    SV::N(n) => n.to_string(),
                    SV::B(b) => b.to_string(),
                    o => format!("{:?}", o),
                })
                .collect(),
        )),
        SV::M(m) => Some(Coll::Map(
            m.iter()
                .map(|(k, v)| {
                    (
                        k.clone(),
                        match v {
                            SV::S(s) => s.clone(),
                            o => format!("{:?}", o),
                        },
                    )
                })
                .collect(),
        )),
        SV::Set(v) => Some(Coll::Set(v.iter().cloned().collect())),
        _ => None,
    }
}

fn fail(sig: String, what: String) -> Fail {
    Fail { sig, what }
}

impl Sys for C12 {
    type Impl = Impl;
    type Model = Model;
    type Op = Op;

    fn new_impl(&self) -> Impl {
        thread_local! {
            static CMDS: Rc<RefCell<Option<Commands>>> = Rc::new(RefCell::new(Some(sdk_context().commands)));
        }
        Impl {
            commands: CMDS.with(|c| c.clone()),
            variables: HashMap::new(),
            state: HashMap::new(),
            names: vec![],
            released: None,
            known: vec![],
        }
    }
    fn clone_impl(&self, s: &Impl) -> Impl {
        Impl {
            commands: s.commands.clone(),
            variables: s.variables.clone(),
            state: s.state.clone(),
            names: s.names.clone(),
            released: s.released.clone(),
            known: s.known.clone(),
        }
    }
    fn init_model(&self) -> Model {
        Model::default()
    }
    fn op_json(&self, op: &Op) -> Value {
        json!({"cmd": op.cmd, "h": op.h.map(|h| format!("{:?}", h)), "h2": op.h2.map(|h| format!("{:?}", h)), "args": op.args})
    }

    fn enabled(&self, m: &Model) -> Vec<Op> {
        let mut ops = vec![];
        let hs = self.handle_choices(m);
        let can_create = m.live.len() < self.max_live;
        let vals: Vec<&str> = self.values.iter().map(|s| s.as_str()).collect();
        if can_create {
            ops.push(op("array", None, None, &[]));
            for v in &vals {
                ops.push(op("array", None, None, &[v]));
                ops.push(op("array", None, None, &["a", v]));
            }
            if !self.slim {
                ops.push(op("range", None, None, &["0", "2"]));
            }
            ops.push(op("range", None, None, &["0", "1"]));
            ops.push(op("range", None, None, &["1", "1"]));
            ops.push(op("map", None, None, &[]));
            ops.push(op("set_new", None, None, &[]));
            for v in &vals {
                ops.push(op("set_new", None, None, &[v]));
            }
            ops.push(op("set_new", None, None, &["a", "a"]));
            ops.push(op("array_concat", None, None, &[]));
        }
        ops.push(op("range", None, None, &["2", "1"]));
        ops.push(op("range", None, None, &["x", "1"]));
        for &h in &hs {
            let coll = match h {
                H::Live(i) => Some(&m.live[i]),
                _ => None,
            };
            let is_arr = matches!(coll, Some(Coll::Arr(_)));
            let is_map = matches!(coll, Some(Coll::Map(_)));
            let is_set = matches!(coll, Some(Coll::Set(_)));
            let len = match coll {
                Some(Coll::Arr(v)) => v.len(),
                Some(Coll::Map(v)) => v.len(),
                Some(Coll::Set(v)) => v.len(),
                None => 0,
            };
            let sh = Some(h);
            // arrays
            for v in &vals {
                if !(is_arr && len >= self.max_len) {
                    ops.push(op("array_push", sh, None, &[v]));
                }
                ops.push(op("array_contains", sh, None, &[v]));
            }
            // values and keys that are the handle of a live collection (itself or the other one)
            if let H::Live(i) = h {
                // quick tier: only references to the other collection; thorough also to itself
                let mut refs: Vec<&str> = if self.slim { vec![] } else { vec!["@self"] };
                if m.live.len() > 1 {
                    refs.push("@other");
                }
                let _ = i;
                for r in refs {
                    if is_arr && len < self.max_len {
                        ops.push(op("array_push", sh, None, &[r]));
                    }
                    if is_set && len < self.max_len && !self.slim {
                        ops.push(op("set_put", sh, None, &[r]));
                    }
                    if is_map && len < self.max_len {
                        ops.push(op("map_put", sh, None, &[r, "a"]));
                        ops.push(op("map_put", sh, None, &["a", r]));
                    }
                    if r == "@other" {
                        if is_arr {
                            ops.push(op("array_contains", sh, None, &[r]));
                        }
                        if is_map {
                            ops.push(op("map_get", sh, None, &[r]));
                            ops.push(op("map_contains_key", sh, None, &[r]));
                            ops.push(op("map_contains_value", sh, None, &[r]));
                        }
                        if is_set {
                            ops.push(op("set_contains", sh, None, &[r]));
                        }
                    }
                }
            }
            ops.push(op("array_pop", sh, None, &[]));
            let idxs: &[&str] = if self.slim { &["0", "1", "2", "x"] } else { &["0", "1", "2", "-1", "x"] };
            let setv: &[&str] = if self.slim { &["a", ""] } else { &["a", "", LOOKALIKE] };
            for i in idxs {
                ops.push(op("array_get", sh, None, &[i]));
                ops.push(op("array_remove", sh, None, &[i]));
                for v in setv {
                    ops.push(op("array_set", sh, None, &[i, v]));
                }
            }
            ops.push(op("array_clear", sh, None, &[]));
            ops.push(op("array_length", sh, None, &[]));
            ops.push(op("array_is_empty", sh, None, &[]));
            ops.push(op("array_join", sh, None, &[","]));
            ops.push(op("array_join", sh, None, &[""]));
            // maps
            for k in &self.keys {
                for v in &vals {
                    let grows = match coll {
                        Some(Coll::Map(mm)) => !mm.contains_key(k) && mm.len() >= self.max_len,
                        _ => false,
                    };
                    if !grows {
                        ops.push(op("map_put", sh, None, &[k, v]));
                    }
                }
                ops.push(op("map_get", sh, None, &[k]));
                ops.push(op("map_remove", sh, None, &[k]));
                ops.push(op("map_contains_key", sh, None, &[k]));
            }
            for v in &vals {
                ops.push(op("map_contains_value", sh, None, &[v]));
            }
            ops.push(op("map_size", sh, None, &[]));
            ops.push(op("map_clear", sh, None, &[]));
            ops.push(op("map_is_empty", sh, None, &[]));
            // sets
            for v in &vals {
                let grows = match coll {
                    Some(Coll::Set(ss)) => !ss.contains(*v) && ss.len() >= self.max_len,
                    _ => false,
                };
                if !grows {
                    ops.push(op("set_put", sh, None, &[v]));
                }
                ops.push(op("set_remove", sh, None, &[v]));
                ops.push(op("set_contains", sh, None, &[v]));
            }
            ops.push(op("set_size", sh, None, &[]));
            ops.push(op("set_clear", sh, None, &[]));
            ops.push(op("set_is_empty", sh, None, &[]));
            // kind tests and release
            ops.push(op("is_array", sh, None, &[]));
            ops.push(op("is_map", sh, None, &[]));
            ops.push(op("is_set", sh, None, &[]));
            ops.push(op("release", sh, None, &[]));
            ops.push(op("release", sh, None, &["-r"]));
            // creators that read a handle: enabled when a new handle fits, or when they must fail
            let creates = |ok: bool| !ok || can_create;
            if creates(is_map) {
                ops.push(op("map_keys", sh, None, &[]));
            }
            if creates(is_set) {
                ops.push(op("set_to_array", sh, None, &[]));
            }
            if creates(is_arr) {
                ops.push(op("set_from_array", sh, None, &[]));
            }
            for &h2 in &hs {
                let is_arr2 = matches!(h2, H::Live(j) if matches!(m.live[j], Coll::Arr(_)));
                let total = len
                    + match h2 {
                        H::Live(j) => match &m.live[j] {
                            Coll::Arr(v) => v.len(),
                            _ => 0,
                        },
                        _ => 0,
                    };
                if creates(is_arr && is_arr2) && !(is_arr && is_arr2 && total > self.max_len) {
                    ops.push(Op {
                        cmd: "array_concat",
                        h: sh,
                        h2: Some(h2),
                        args: vec![],
                    });
                }
            }
        }
        ops
    }

    fn step(&self, s: &mut Impl, m: &mut Model, o: &Op) -> Result<(), Fail> {
        // ---- build the real argument list
        let mut args: Vec<String> = vec![];
        if o.cmd == "release" && o.args.first().map(|a| a == "-r").unwrap_or(false) {
            args.push("-r".into());
            args.push(s.text(o.h.unwrap()));
        } else {
            if let Some(h) = o.h {
                args.push(s.text(h));
            }
            if let Some(h2) = o.h2 {
                args.push(s.text(h2));
            }
            let own = match o.h {
                Some(H::Live(i)) => Some(i),
                _ => None,
            };
            for a in &o.args {
                match (a.as_str(), own) {
                    ("@self", Some(i)) => args.push(s.names[i].clone()),
                    ("@other", Some(i)) if s.names.len() > 1 => args.push(s.names[1 - i].clone()),
                    _ => args.push(a.clone()),
                }
            }
        }
        // the same arguments as the model sees them
        let margs: Vec<String> = o
            .args
            .iter()
            .map(|a| match (a.as_str(), o.h) {
                ("@self", Some(H::Live(i))) => token(m.ids[i]),
                ("@other", Some(H::Live(i))) if m.ids.len() > 1 => token(m.ids[1 - i]),
                _ => a.clone(),
            })
            .collect();
        let before = s.table();
        let got = match s.call(o.cmd, &args) {
            Out::Val(Some(x)) => Out::Val(Some(s.to_model(&x))),
            other => other,
        };

        // ---- the model
        let live_idx = match o.h {
            Some(H::Live(i)) => Some(i),
            _ => None,
        };
        let a0 = margs.first().cloned().unwrap_or_default();
        let a1 = margs.get(1).cloned().unwrap_or_default();
        let idx: Option<usize> = a0.parse::<usize>().ok();
        let b = |x: bool| Exp::Val(Some(x.to_string()));
        let t = || Exp::Val(Some("true".to_string()));
        macro_rules! arr {
            ($f:expr) => {
                match live_idx.map(|i| &mut m.live[i]) {
                    Some(Coll::Arr(v)) => $f(v),
                    _ => Exp::ErrOrFalse,
                }
            };
        }
        macro_rules! map {
            ($f:expr) => {
                match live_idx.map(|i| &mut m.live[i]) {
                    Some(Coll::Map(v)) => $f(v),
                    _ => Exp::ErrOrFalse,
                }
            };
        }
        macro_rules! set {
            ($f:expr) => {
                match live_idx.map(|i| &mut m.live[i]) {
                    Some(Coll::Set(v)) => $f(v),
                    _ => Exp::ErrOrFalse,
                }
            };
        }
        let mut release_slot: Option<usize> = None;
        let mut release_recursive = false;
        let exp: Exp = match o.cmd {
            "array" => Exp::New(Coll::Arr(margs.clone())),
            "range" => match (a0.parse::<i64>(), a1.parse::<i64>()) {
                (Ok(x), Ok(y)) if x <= y => Exp::New(Coll::Arr((x..y).map(|i| i.to_string()).collect())),
                _ => Exp::Err,
            },
            "map" => Exp::New(Coll::Map(BTreeMap::new())),
            "set_new" => Exp::New(Coll::Set(margs.iter().cloned().collect())),
            "array_push" => arr!(|v: &mut Vec<String>| {
                v.push(a0.clone());
                t()
            }),
            "array_pop" => arr!(|v: &mut Vec<String>| Exp::Val(v.pop())),
            "array_get" => arr!(|v: &mut Vec<String>| match idx {
                Some(i) => Exp::Val(v.get(i).cloned()),
                None => Exp::Err,
            }),
            "array_set" => arr!(|v: &mut Vec<String>| match idx {
                Some(i) if i < v.len() => {
                    v[i] = a1.clone();
                    t()
                }
                _ => Exp::Err,
            }),
            "array_remove" => arr!(|v: &mut Vec<String>| match idx {
                Some(i) if i < v.len() => {
                    v.remove(i);
                    t()
                }
                _ => Exp::Err,
            }),
            "array_clear" => arr!(|v: &mut Vec<String>| {
                v.clear();
                t()
            }),
            "array_length" => arr!(|v: &mut Vec<String>| Exp::Val(Some(v.len().to_string()))),
            "array_is_empty" => arr!(|v: &mut Vec<String>| b(v.is_empty())),
            "array_contains" => arr!(|v: &mut Vec<String>| match v.iter().position(|x| *x == a0) {
                Some(i) => Exp::Val(Some(i.to_string())),
                None => Exp::Val(Some("false".into())),
            }),
            "array_join" => arr!(|v: &mut Vec<String>| Exp::Val(Some(v.join(&a0)))),
            "array_concat" => {
                let mut all: Vec<String> = vec![];
                let mut ok = true;
                for h in [o.h, o.h2].into_iter().flatten() {
                    match h {
                        H::Live(i) => match &m.live[i] {
                            Coll::Arr(v) => all.extend(v.iter().cloned()),
                            _ => ok = false,
                        },
                        _ => ok = false,
                    }
                }
                if ok {
                    Exp::New(Coll::Arr(all))
                } else {
                    Exp::ErrOrFalse
                }
            }
            "map_put" => map!(|v: &mut BTreeMap<String, String>| {
                v.insert(a0.clone(), a1.clone());
                t()
            }),
            "map_get" => map!(|v: &mut BTreeMap<String, String>| Exp::Val(v.get(&a0).cloned())),
            "map_remove" => map!(|v: &mut BTreeMap<String, String>| Exp::Val(v.remove(&a0))),
            "map_size" => map!(|v: &mut BTreeMap<String, String>| Exp::Val(Some(v.len().to_string()))),
            "map_clear" => map!(|v: &mut BTreeMap<String, String>| {
                v.clear();
                t()
            }),
            "map_is_empty" => map!(|v: &mut BTreeMap<String, String>| b(v.is_empty())),
            "map_contains_key" => map!(|v: &mut BTreeMap<String, String>| b(v.contains_key(&a0))),
            "map_contains_value" => map!(|v: &mut BTreeMap<String, String>| b(v.values().any(|x| *x == a0))),
            "map_keys" => map!(|v: &mut BTreeMap<String, String>| Exp::NewUnordered(v.keys().cloned().collect())),
            "set_put" => set!(|v: &mut BTreeSet<String>| {
                v.insert(a0.clone());
                t()
            }),
            "set_remove" => set!(|v: &mut BTreeSet<String>| b(v.remove(&a0))),
            "set_contains" => set!(|v: &mut BTreeSet<String>| b(v.contains(&a0))),
            "set_size" => set!(|v: &mut BTreeSet<String>| Exp::Val(Some(v.len().to_string()))),
            "set_clear" => set!(|v: &mut BTreeSet<String>| {
                v.clear();
                t()
            }),
            "set_is_empty" => set!(|v: &mut BTreeSet<String>| b(v.is_empty())),
            "set_to_array" => set!(|v: &mut BTreeSet<String>| Exp::NewUnordered(v.iter().cloned().collect())),
            "set_from_array" => arr!(|v: &mut Vec<String>| Exp::New(Coll::Set(v.iter().cloned().collect()))),
            "is_array" => b(matches!(live_idx.map(|i| &m.live[i]), Some(Coll::Arr(_)))),
            "is_map" => b(matches!(live_idx.map(|i| &m.live[i]), Some(Coll::Map(_)))),
            "is_set" => b(matches!(live_idx.map(|i| &m.live[i]), Some(Coll::Set(_)))),
            "release" => match live_idx {
                Some(i) => {
                    release_slot = Some(i);
                    release_recursive = o.args.first().map(|a| a == "-r").unwrap_or(false);
                    t()
                }
                None => Exp::Val(Some("false".into())),
            },
            other => return Err(fail("harness".into(), format!("unknown op {}", other))),
        };

        // ---- compare the output
        let desc_text = format!("{} {:?} (model after: {:?})", o.cmd, args, m.live);
        let describe = || desc_text.clone();
        let kind_of = |g: &Out| match g {
            Out::Panic(_) => "panic",
            Out::Crash(_) => "crash",
            Out::Err(_) => "unexpected-error",
            _ => "wrong-output",
        };
        let mut new_handle: Option<(String, Coll)> = None;
        match (&exp, &got) {
            (Exp::Val(e), Out::Val(g)) if e == g => (),
            (Exp::Err, Out::Err(_)) => (),
            (Exp::ErrOrFalse, Out::Err(_)) => (),
            (Exp::ErrOrFalse, Out::Val(Some(f))) if f == "false" => (),
            (Exp::New(_), Out::Val(Some(h))) | (Exp::NewUnordered(_), Out::Val(Some(h))) => {
                if before.contains_key(h) {
                    return Err(fail(format!("{}:handle-not-fresh", o.cmd), format!("{}: returned an existing handle", describe())));
                }
                // the harness owns the state between steps: an unordered listing is put into its
                // canonical (sorted) order, which is one of the legal answers of the environment
                if let Exp::NewUnordered(_) = exp {
                    if let Some(StateValue::SubState(tbl)) = s.state.get_mut("handles") {
                        if let Some(StateValue::List(l)) = tbl.get_mut(h) {
                            let known = s.known.clone();
                            l.sort_by_key(|x| match abstract_state_value(x) {
                                SV::S(v) => {
                                    let mut t = v.clone();
                                    for (name, id) in &known {
                                        if t == *name {
                                            t = token(*id);
                                        }
                                    }
                                    t
                                }
                                o => format!("{:?}", o),
                            });
                        }
                    }
                }
                let content = s.table().get(h).and_then(coll_of).map(|c| s.coll_to_model(c));
                let expected = match &exp {
                    Exp::New(c) => c.clone(),
                    Exp::NewUnordered(v) => {
                        let mut v = v.clone();
                        v.sort();
                        Coll::Arr(v)
                    }
                    _ => unreachable!(),
                };
                match content {
                    Some(c) if c == expected => new_handle = Some((h.clone(), c)),
                    other => {
                        return Err(fail(
                            format!("{}:wrong-new-collection", o.cmd),
                            format!("{}: new collection {:?}, model {:?}", describe(), other, expected),
                        ))
                    }
                }
            }
            _ => {
                return Err(fail(
                    format!("{}:{}", o.cmd, kind_of(&got)),
                    format!("{}: output {:?}, model {:?}", describe(), got, exp),
                ))
            }
        }
        // ---- update handle bookkeeping
        if let Some(i) = release_slot {
            // plain release removes the collection; -r also releases every live collection that one of
            // its items (array), members (set) or values (map) names, recursively
            let mut doomed: Vec<u32> = vec![m.ids[i]];
            if release_recursive {
                let mut k = 0;
                while k < doomed.len() {
                    let id = doomed[k];
                    k += 1;
                    if let Some(pos) = m.ids.iter().position(|x| *x == id) {
                        let referenced: Vec<String> = match &m.live[pos] {
                            Coll::Arr(v) => v.clone(),
                            Coll::Set(v) => v.iter().cloned().collect(),
                            Coll::Map(mm) => mm.values().cloned().collect(),
                        };
                        for r in referenced {
                            if let Some(n) = r.strip_prefix(REF).and_then(|x| x.parse::<u32>().ok()) {
                                if m.ids.contains(&n) && !doomed.contains(&n) {
                                    doomed.push(n);
                                }
                            }
                        }
                    }
                }
            }
            s.released = Some(s.names[i].clone());
            m.has_released = true;
            for id in doomed {
                if let Some(pos) = m.ids.iter().position(|x| *x == id) {
                    m.ids.remove(pos);
                    m.live.remove(pos);
                    s.names.remove(pos);
                }
            }
        }
        if let Some((h, c)) = new_handle {
            s.known.push((h.clone(), m.next_id));
            s.names.push(h);
            m.live.push(c);
            m.ids.push(m.next_id);
            m.next_id += 1;
        }
        // ---- compare the whole handle table: every collection as in the model, nothing else
        let table = s.table();
        if table.len() != m.live.len() {
            return Err(fail(
                format!("{}:handle-table-size", o.cmd),
                format!("{}: {} handles in the table, model has {}: {:?}", describe(), table.len(), m.live.len(), table),
            ));
        }
        for (i, name) in s.names.iter().enumerate() {
            match table.get(name).and_then(coll_of).map(|c| s.coll_to_model(c)) {
                Some(c) if c == m.live[i] => (),
                other => {
                    return Err(fail(
                        format!("{}:collection-differs", o.cmd),
                        format!("{}: handle #{} holds {:?}, model {:?}", describe(), i, other, m.live[i]),
                    ))
                }
            }
        }
        if !s.variables.is_empty() {
            return Err(fail(
                format!("{}:variables-left", o.cmd),
                format!("{}: variables left behind: {:?}", describe(), sorted_vars(&s.variables)),
            ));
        }
        Ok(())
    }

    fn canon(&self, s: &Impl, m: &Model) -> Vec<u8> {
        // Handles are opaque tokens: the canonical form is the multiset of collection contents
        // (the alphabet is symmetric in the handles) plus whether a released name is available.
        // State outside the handle table is kept in the key, except the flow-control tables of the
        // library scripts (block-position caches, and the if/else call stack which only ever grows:
        // a passed `if` without `else` never pops its frame) -- with them the space is infinite.
        // Merging states that differ only there is an abstraction: it assumes that those tables do not
        // change what a collection command does, which is the subject of C04/C05, not of C12.
        // The for-in call stack is kept: a frame left there does change the next invocation.
        // references are written relative to the collection that holds them (exact for <= 2 live ones)
        let rel = |own: u32, v: &str| -> String {
            match v.strip_prefix(REF).and_then(|x| x.parse::<u32>().ok()) {
                Some(n) if n == own => "@self".to_string(),
                Some(n) if m.ids.contains(&n) => "@other".to_string(),
                Some(_) => "@dead".to_string(),
                None => v.to_string(),
            }
        };
        let mut contents: Vec<Coll> = m
            .live
            .iter()
            .zip(m.ids.iter())
            .map(|(c, id)| match c {
                Coll::Arr(v) => Coll::Arr(v.iter().map(|x| rel(*id, x)).collect()),
                Coll::Set(v) => Coll::Set(v.iter().map(|x| rel(*id, x)).collect()),
                Coll::Map(mm) => Coll::Map(mm.iter().map(|(k, v)| (rel(*id, k), rel(*id, v))).collect()),
            })
            .collect();
        contents.sort();
        let mut rest = abstract_state(&s.state);
        rest.remove("handles");
        for k in ["end", "ifelse", "while", "function"] {
            rest.remove(&format!("duckscriptsdk::command::{}", k));
        }
        if let Some(SV::M(f)) = rest.get_mut("duckscriptsdk::command::forin") {
            f.remove("meta_info");
            // frames left by loops that were exited through an error are never removed, so the stack
            // can grow without bound; identical frames are interchangeable (a frame is only ever
            // compared by line / context and popped one at a time), so the key keeps the set of
            // distinct frames instead of the sequence
            if let Some(SV::L(frames)) = f.get_mut("call_stack") {
                frames.sort();
                frames.dedup();
            }
        }
        format!("{:?}|{}|{:?}", contents, s.released.is_some(), rest).into_bytes()
    }
}

pub fn bounds(tier: Tier) -> Value {
    let c = C12::new(tier);
    json!({"max_live_handles": c.max_live, "max_collection_len": c.max_len, "values": c.values, "keys": c.keys})
}

pub fn run(tier: Tier, totals: &mut Totals) {
    let sys = C12::new(tier);
    let opts = BfsOpts {
        max_depth: sys.depth,
        max_states: tier.pick(3_000_000, 30_000_000),
        wall: Duration::from_secs(tier.pick(55, 3000)),
        threads: 16,
    };
    let r = bfs(&sys, &opts);
    totals.extra.insert(
        "search".into(),
        json!({"levels": r.levels, "fixpoint": r.fixpoint, "states": r.states, "transitions": r.transitions}),
    );
    into_totals(&r, totals);
    scale(tier, totals);
}

/// Sizes far beyond the search bound: collections with hundreds of items and hundreds of live handles.
fn scale(tier: Tier, totals: &mut Totals) {
    // a recursive release goes down through every kind of collection: three (and four) levels, each an
    // array, a map or a set holding the handle of the next, released from the top - nothing is left
    {
        let kinds = ["array", "map", "set"];
        let make = |kind: &str, var: &str, child: Option<&str>| -> String {
            match (kind, child) {
                ("array", None) => format!("{} = array leaf\n", var),
                ("map", None) => format!("{} = map\nmap_put ${{{}}} k leaf\n", var, var),
                (_, None) => format!("{} = set_new leaf\n", var),
                ("array", Some(c)) => format!("{} = array first ${{{}}} last\n", var, c),
                ("map", Some(c)) => format!("{} = map\nmap_put ${{{}}} a first\nmap_put ${{{}}} k ${{{}}}\n", var, var, var, c),
                (_, Some(c)) => format!("{} = set_new first ${{{}}} last\n", var, c),
            }
        };
        let probe = |kind: &str, var: &str, out: &str| -> String {
            match kind {
                "array" => format!("{} = is_array ${{{}}}\n", out, var),
                "map" => format!("{} = is_map ${{{}}}\n", out, var),
                _ => format!("{} = is_set ${{{}}}\n", out, var),
            }
        };
        for depth in tier.pick(vec![3usize], vec![3usize, 4]) {
            let mut combos: Vec<Vec<&str>> = vec![vec![]];
            for _ in 0..depth {
                combos = combos.into_iter().flat_map(|c| kinds.iter().map(move |k| { let mut n = c.clone(); n.push(*k); n })).collect();
            }
            for combo in combos {
                // combo[0] is the top, the last one the leaf collection
                let mut text = String::new();
                for level in (0..depth).rev() {
                    let child = if level + 1 < depth { Some(format!("c{}", level + 1)) } else { None };
                    text.push_str(&make(combo[level], &format!("c{}", level), child.as_deref()));
                }
                text.push_str("other = array untouched\n");
                for level in 0..depth {
                    text.push_str(&probe(combo[level], &format!("c{}", level), &format!("before{}", level)));
                }
                text.push_str("r = release -r ${c0}\n");
                let mut expect: Vec<(String, Option<String>)> = vec![("r".into(), Some("true".into()))];
                for level in 0..depth {
                    text.push_str(&probe(combo[level], &format!("c{}", level), &format!("after{}", level)));
                    expect.push((format!("before{}", level), Some("true".into())));
                    expect.push((format!("after{}", level), Some("false".into())));
                }
                text.push_str("still = is_array ${other}\nrelease ${other}\n");
                expect.push(("still".into(), Some("true".into())));
                let exp: Vec<(&str, Option<String>)> = expect.iter().map(|(k, v)| (k.as_str(), v.clone())).collect();
                crate::util::scale_case_totals(totals, &format!("recursive-release levels {:?}", combo), &text, &exp);
            }
        }
    }
    // a command that takes any number of collections, called with 2, 3, 1, 4, 2 of them in one run (in
    // every rotation): each call sees exactly its own arguments
    {
        let counts = [2usize, 3, 1, 4, 2];
        for rot in 0..counts.len() {
            let order: Vec<usize> = (0..counts.len()).map(|k| counts[(k + rot) % counts.len()]).collect();
            let mut text = String::from("a1 = array 1\na2 = array 2 2\na3 = array 3 3 3\na4 = array 4 4 4 4\n");
            let mut expect: Vec<(String, Option<String>)> = vec![];
            for (k, n) in order.iter().enumerate() {
                let args: Vec<String> = (1..=*n).map(|i| format!("${{a{}}}", i)).collect();
                text.push_str(&format!("c{} = array_concat {}\nl{} = array_length ${{c{}}}\nj{} = array_join ${{c{}}} \"\"\n", k, args.join(" "), k, k, k, k));
                let joined: String = (1..=*n).map(|i| i.to_string().repeat(i)).collect();
                expect.push((format!("l{}", k), Some((n * (n + 1) / 2).to_string())));
                expect.push((format!("j{}", k), Some(joined)));
            }
            // the same for set_from_array behind it (one argument after many) and a failing call in between
            text.push_str("bad = array_concat ${a1} nohandle ${a2}\ns = set_from_array ${a3}\nss = set_size ${s}\n");
            expect.push(("bad".into(), Some("false".into())));
            expect.push(("ss".into(), Some("1".into())));
            let exp: Vec<(&str, Option<String>)> = expect.iter().map(|(k, v)| (k.as_str(), v.clone())).collect();
            crate::util::scale_case_totals(totals, &format!("variadic-calls order {:?}", order), &text, &exp);
        }
    }
    // index texts: what is not an unsigned number (a sign in front, blanks, a fraction, another script's
    // digits, a number beyond the machine word) is an error and leaves the array alone; `+1` is 1
    {
        let idx_texts = [
            "-1", "-0", "+0", "+1", "+2", "00", "01", " 1", "1 ", "1.0", "1e0", "0x1", "18446744073709551615", "18446744073709551616", "9223372036854775808", "-9223372036854775808",
            "4294967296", "x", "١", "２", "1_0", "--1", "- 1",
        ];
        for len in [0usize, 1, 3] {
            let items: Vec<String> = ["p", "q", "r"].iter().take(len).map(|x| x.to_string()).collect();
            for it in idx_texts {
                let idx: Option<usize> = it.parse::<usize>().ok();
                let mut model = items.clone();
                let mut text = format!("a = array {}\n", items.join(" "));
                text.push_str(&crate::render::line(Some("g"), "array_get", &["${a}", it]));
                text.push('\n');
                text.push_str(&crate::render::line(Some("s"), "array_set", &["${a}", it, "new"]));
                text.push_str("\nj1 = array_join ${a} ,\n");
                text.push_str(&crate::render::line(Some("rm"), "array_remove", &["${a}", it]));
                text.push_str("\nj2 = array_join ${a} ,\nlen = array_length ${a}\n");
                let falsev = Some("false".to_string());
                let g = match idx {
                    Some(i) => model.get(i).cloned(),
                    None => falsev.clone(),
                };
                let sres = match idx {
                    Some(i) if i < model.len() => {
                        model[i] = "new".into();
                        Some("true".to_string())
                    }
                    _ => falsev.clone(),
                };
                let j1 = Some(model.join(","));
                let rm = match idx {
                    Some(i) if i < model.len() => {
                        model.remove(i);
                        Some("true".to_string())
                    }
                    _ => falsev.clone(),
                };
                let j2 = Some(model.join(","));
                crate::util::scale_case_totals(
                    totals,
                    &format!("index-text {:?} on {} items", it, len),
                    &text,
                    &[("g", g), ("s", sres), ("j1", j1), ("rm", rm), ("j2", j2), ("len", Some(model.len().to_string()))],
                );
            }
        }
    }
    // a recursive release of a structure that names the same collections more than once: an array of three
    // (thorough: four) slots, each holding one of four collections - an array, a set, a map, and an array
    // that itself holds the first array - in every combination: everything reachable is gone afterwards,
    // a collection that is not reachable stays
    {
        let slots = tier.pick(3usize, 4usize);
        let n = 4usize.pow(slots as u32);
        for code in 0..n {
            let mut picks = vec![];
            let mut c = code;
            for _ in 0..slots {
                picks.push(c % 4);
                c /= 4;
            }
            let names = ["${a}", "${s}", "${m}", "${b}"];
            let items: Vec<&str> = picks.iter().map(|&k| names[k]).collect();
            let text = format!(
                "a = array x y\ns = set_new p q\nm = map\nmap_put ${{m}} k v\nb = array first ${{a}}\nbystander = array z\nouter = array {}\nr = release -r ${{outer}}\nga = is_array ${{a}}\ngs = is_set ${{s}}\ngm = is_map ${{m}}\ngb = is_array ${{b}}\ngo = is_array ${{outer}}\nkept = is_array ${{bystander}}",
                items.join(" ")
            );
            let has = |k: usize| picks.contains(&k);
            let gone = |reachable: bool| Some((!reachable).to_string());
            crate::util::scale_case_totals(
                totals,
                &format!("recursive-release-shared slots {:?}", picks),
                &text,
                &[
                    ("r", Some("true".into())),
                    ("ga", gone(has(0) || has(3))),
                    ("gs", gone(has(1))),
                    ("gm", gone(has(2))),
                    ("gb", gone(has(3))),
                    ("go", Some("false".into())),
                    ("kept", Some("true".into())),
                ],
            );
        }
    }
    // a collection made from others is a collection of its own - also when it is made from exactly one (or
    // none): a new handle, its own items; changing or releasing either leaves the other as it was
    for (nin, inputs) in [(0usize, ""), (1, "${a}"), (2, "${a} ${a}"), (3, "${a} ${e} ${a}")] {
        let text = format!(
            "a = array x y\ne = array\nb = array_concat {inputs}\nsame = equals \"${{a}}\" \"${{b}}\"\nsame_e = equals \"${{e}}\" \"${{b}}\"\nlb0 = array_length ${{b}}\narray_push ${{b}} z\nla = array_length ${{a}}\nle = array_length ${{e}}\nlb = array_length ${{b}}\nra = release ${{a}}\nalive = is_array ${{b}}\nlb2 = array_length ${{b}}\nrb = release ${{b}}\nre = release ${{e}}",
            inputs = inputs
        );
        let n = if nin == 3 { 4 } else { 2 * nin };
        crate::util::scale_case_totals(
            totals,
            &format!("concat-is-a-copy inputs {}", nin),
            &text,
            &[
                ("same", Some("false".into())),
                ("same_e", Some("false".into())),
                ("lb0", Some(n.to_string())),
                ("la", Some("2".into())),
                ("le", Some("0".into())),
                ("lb", Some((n + 1).to_string())),
                ("ra", Some("true".into())),
                ("alive", Some("true".into())),
                ("lb2", Some((n + 1).to_string())),
                ("rb", Some("true".into())),
                ("re", Some("true".into())),
            ],
        );
    }
    // an item is data, whatever it reads like: texts that look like options of the commands the library's
    // own scripts use (-i, --ignore-case, -r, --recursive, --copy ...), words of the language, numbers,
    // brackets, blanks - held in an array, a map and a set, looked for, joined, copied, listed
    {
        let items = [
            "-i", "--ignore-case", "-I", "-r", "--recursive", "-c", "--copy", "--prefix", "--collection", "-", "--", "-1", "or", "and", "not", "true", "false", "0", "no", "(", ")", "a b", " ", "=", "handle:x", "std::set", "end", "in", "#", ";", "\u{feff}x", "x\u{feff}", "x\u{200b}", "\u{a0}", "e\u{301}", "\u{1}",
        ];
        for it in items {
            let mut text = String::new();
            text.push_str(&crate::render::line(Some("v"), "set", &[it]));
            text.push_str("\na = array first ${v} last\nidx = array_contains ${a} ${v}\nidx_last = array_contains ${a} last\nmiss = array_contains ${a} nothing\njoined = array_join ${a} ,\ngot = array_get ${a} 1\nm = map\nmap_put ${m} k1 first\nmap_put ${m} k2 ${v}\nmap_put ${m} ${v} under\nhasv = map_contains_value ${m} ${v}\nhasv_first = map_contains_value ${m} first\nhasv_no = map_contains_value ${m} nothing\nhask = map_contains_key ${m} ${v}\nmg = map_get ${m} ${v}\nmg2 = map_get ${m} k2\nsame = equals \"${mg2}\" \"${v}\"\ns = set_new first ${v}\nsc = set_contains ${s} ${v}\nss = set_size ${s}\ns2 = set_from_array ${a}\ns2c = set_contains ${s2} ${v}\ns2n = set_size ${s2}\nc = array_concat ${a} ${a}\ncn = array_length ${c}\ncg = array_get ${c} 4\nsame2 = equals \"${cg}\" \"${v}\"\nlisted = set \"\"\nfor x in ${a}\nlisted = set \"${listed}[${x}]\"\nend\nne = array_is_empty ${a}\nrelease ${a}\nrelease ${m}\nrelease ${s}\nrelease ${s2}\nrelease ${c}");
            crate::util::scale_case_totals(
                totals,
                &format!("awkward-item {:?}", it),
                &text,
                &[
                    ("idx", Some("1".into())),
                    ("idx_last", Some("2".into())),
                    ("miss", Some("false".into())),
                    ("joined", Some(format!("first,{},last", it))),
                    ("got", Some(it.to_string())),
                    ("hasv", Some("true".into())),
                    ("hasv_first", Some("true".into())),
                    ("hasv_no", Some("false".into())),
                    ("hask", Some("true".into())),
                    ("mg", Some("under".into())),
                    ("same", Some("true".into())),
                    ("sc", Some("true".into())),
                    ("ss", Some("2".into())),
                    ("s2c", Some("true".into())),
                    ("s2n", Some("3".into())),
                    ("cn", Some("6".into())),
                    ("same2", Some("true".into())),
                    ("listed", Some(format!("[first][{}][last]", it))),
                    ("ne", Some("false".into())),
                ],
            );
        }
    }
    // joins of items and separators outside ASCII (the joined text is exactly the items with the
    // separator between them, whatever the bytes)
    {
        let item_sets: [&[&str]; 5] = [&["é", "日本", "x"], &["x"], &["😀"], &["a", "", "é"], &["日", "本", "語", "é"]];
        let seps = [",", "→", "é ", "→→", "", "😀", ", "];
        for items in item_sets {
            for sep in seps {
                let mut text = String::from("a = array\n");
                for it in items {
                    text.push_str(&crate::render::line(None, "array_push", &["${a}", it]));
                    text.push('\n');
                }
                text.push_str(&crate::render::line(Some("joined"), "array_join", &["${a}", sep]));
                text.push_str("\nlen = array_length ${a}\n");
                crate::util::scale_case_totals(
                    totals,
                    &format!("join-non-ascii items {:?} separator {:?}", items, sep),
                    &text,
                    &[("joined", Some(items.join(sep))), ("len", Some(items.len().to_string()))],
                );
            }
        }
    }
    let sizes: Vec<u64> = with_thresholds(tier.pick(vec![10, 70, 300, 4000, 6000], vec![10, 70, 300, 1000, 4000, 6000, 12000, 24000]), tier.pick(1024, 8192));
    for &n in &sizes {
        let tri = (n * (n + 1) / 2).to_string();
        // array: push n items, read the ends, join, pop everything
        let text = format!(
            "a = array\ni = set 0\nwhile less_than ${{i}} {n}\ni = calc ${{i}} + 1\narray_push ${{a}} ${{i}}\nend\nlen = array_length ${{a}}\nfirst = array_get ${{a}} 0\nlastv = array_get ${{a}} {last}\nbeyond = array_get ${{a}} {n}\njoined = array_join ${{a}} ,\njl = length ${{joined}}\nhas = array_contains ${{a}} {n}\nrg = range 0 {n}\nrl = array_length ${{rg}}\nrlast = array_get ${{rg}} {last}\nrs = set 0\nfor x in ${{rg}}\nrs = calc ${{rs}} + ${{x}}\nend\nrc = array_contains ${{rg}} {last}\nrelease ${{rg}}\ns2 = set_from_array ${{a}}\nss = set_size ${{s2}}\nc2 = array_concat ${{a}} ${{a}}\ncl = array_length ${{c2}}\nrelease ${{s2}}\nrelease ${{c2}}\nsum = set 0\nwhile not array_is_empty ${{a}}\nx = array_pop ${{a}}\nsum = calc ${{sum}} + ${{x}}\nend\nlen_after = array_length ${{a}}\nrel = release ${{a}}\nalive = is_array ${{a}}",
            n = n,
            last = n - 1
        );
        let joined_len: usize = (1..=n).map(|i| i.to_string().len()).sum::<usize>() + (n as usize - 1);
        crate::util::scale_case_totals(
            totals,
            &format!("big-array items {}", n),
            &text,
            &[
                ("len", Some(n.to_string())),
                ("first", Some("1".into())),
                ("lastv", Some(n.to_string())),
                ("beyond", None),
                ("jl", Some(joined_len.to_string())),
                ("has", Some((n - 1).to_string())),
                ("ss", Some(n.to_string())),
                ("rl", Some(n.to_string())),
                ("rlast", Some((n - 1).to_string())),
                ("rs", Some((n * (n - 1) / 2).to_string())),
                ("rc", Some((n - 1).to_string())),
                ("cl", Some((2 * n).to_string())),
                ("sum", Some(tri.clone())),
                ("len_after", Some("0".into())),
                ("rel", Some("true".into())),
                ("alive", Some("false".into())),
            ],
        );
        // map: n keys, overwrite one, remove the even ones
        let text = format!(
            "m = map\ni = set 0\nwhile less_than ${{i}} {n}\ni = calc ${{i}} + 1\nmap_put ${{m}} k${{i}} ${{i}}\nend\nmap_put ${{m}} k1 one\nsize = map_size ${{m}}\nv1 = map_get ${{m}} k1\nvn = map_get ${{m}} k{n}\nmissing = map_get ${{m}} k0\nkeys = map_keys ${{m}}\nnk = array_length ${{keys}}\nrelease ${{keys}}\ni = set 0\nwhile less_than ${{i}} {n}\ni = calc ${{i}} + 2\nmap_remove ${{m}} k${{i}}\nend\nsize_after = map_size ${{m}}\nodd = map_contains_key ${{m}} k1\neven = map_contains_key ${{m}} k2\nrelease ${{m}}",
            n = n
        );
        crate::util::scale_case_totals(
            totals,
            &format!("big-map keys {}", n),
            &text,
            &[
                ("size", Some(n.to_string())),
                ("v1", Some("one".into())),
                ("vn", Some(n.to_string())),
                ("missing", None),
                ("nk", Some(n.to_string())),
                ("size_after", Some((n - n / 2).to_string())),
                ("odd", Some("true".into())),
                ("even", Some("false".into())),
            ],
        );
        // set: every value twice
        let text = format!(
            "s = set_new\ni = set 0\nwhile less_than ${{i}} {n}\ni = calc ${{i}} + 1\nset_put ${{s}} ${{i}}\nset_put ${{s}} ${{i}}\nend\nsize = set_size ${{s}}\nhas = set_contains ${{s}} {n}\nhasnot = set_contains ${{s}} 0\narr = set_to_array ${{s}}\nna = array_length ${{arr}}\nrelease ${{arr}}\nrelease ${{s}}",
            n = n
        );
        crate::util::scale_case_totals(
            totals,
            &format!("big-set members {}", n),
            &text,
            &[("size", Some(n.to_string())), ("has", Some("true".into())), ("hasnot", Some("false".into())), ("na", Some(n.to_string()))],
        );
        // n live handles held by an outer array; a recursive release takes them all
        let text = format!(
            "outer = array\ni = set 0\nwhile less_than ${{i}} {n}\ni = calc ${{i}} + 1\ninner = array ${{i}} x\narray_push ${{outer}} ${{inner}}\nend\nkeep = array_get ${{outer}} 0\nkeep_last = array_get ${{outer}} {last}\nsum = set 0\nfor h in ${{outer}}\nv = array_get ${{h}} 0\nsum = calc ${{sum}} + ${{v}}\nend\nbefore = is_array ${{keep_last}}\nrelease -r ${{outer}}\nafter_first = is_array ${{keep}}\nafter_last = is_array ${{keep_last}}\nafter_outer = is_array ${{outer}}",
            n = n,
            last = n - 1
        );
        crate::util::scale_case_totals(
            totals,
            &format!("many-handles count {}", n),
            &text,
            &[
                ("sum", Some(tri.clone())),
                ("before", Some("true".into())),
                ("after_first", Some("false".into())),
                ("after_last", Some("false".into())),
                ("after_outer", Some("false".into())),
            ],
        );
    }
}

pub fn replay(case: &Value) -> Result<String, String> {
    if let Some(r) = crate::util::scale_replay(case) {
        return r;
    }
    let sys = C12::new(Tier::Thorough);
    let mut s = sys.new_impl();
    let mut m = sys.init_model();
    let mut out = vec![];
    for h in case["history"].as_array().ok_or("no history")? {
        let want = h.to_string();
        let op = sys
            .enabled(&m)
            .into_iter()
            .find(|o| sys.op_json(o).to_string() == want)
            .ok_or_else(|| format!("operation {} is not enabled here", want))?;
        match guarded(|| sys.step(&mut s, &mut m, &op)) {
            Ok(Ok(())) => out.push(format!("{} ok", want)),
            Ok(Err(f)) => {
                out.push(format!("{} FAIL [{}] {}", want, f.sig, f.what));
                break;
            }
            Err(p) => {
                out.push(format!("{} PANIC {}", want, p));
                break;
            }
        }
    }
    Ok(out.join("\n"))
}

pub const RULE: &str = "explicit-state breadth-first search from the empty handle table: creators (array, range, map, set_new, set_from_array, array_concat, set_to_array, map_keys), every mutator and query of the statement, is_array/is_map/is_set, release and release -r, each given every live handle, a released handle, an unknown text and a text that looks like a handle, indexes {0,1,2,-1,x}, values {a, empty, 'b c', 0 (, false, look-alike handle, e-acute)} and the handle of the collection itself or of the other live collection as array item, set member, map key and map value (release -r follows such references); growing operations are disabled at 2 live handles / length 2 so the space is finite and searched to a fixpoint. Each transition runs the real command, compares its output with the model (vector / map / set per live handle) and then the complete handle table (every collection equal to the model, no other entry) and the variable map (must stay empty). States are de-duplicated on the multiset of collection contents plus the implementation's remaining state. evaluations = transitions; distinct_nontrivial = distinct states. Scale cases (scripts, results computed in Rust): an array / a map / a set with 10/70/300 (thorough 1000, 3000) items built, read at both ends, joined, searched, emptied; as many live handles held by one outer array and taken by a recursive release. Index texts: 23 texts (signs, blanks, fractions, other digits, beyond the machine word) x arrays of 0/1/3 items through array_get / array_set / array_remove against usize parsing. Joins of non-ASCII items and separators. The quick sizes include 4000 items (thorough 20000), with set_from_array and array_concat of the big array. Variadic calls: array_concat with 2, 3, 1, 4, 2 collections in one run, in every rotation, then a failing call and set_from_array. Fixed cases run at the threshold sizes (p-1, p, p+1 around powers of two and ten), each script in a child process. Recursive release: every combination of array / map / set over three and four levels, each holding the handle of the next, released from the top with -r: no level is left, a bystander is The big-array case also builds range 0 n (its length, last item, sum through for/in and array_contains of the last value). Awkward items: 30 item texts that read like options (-i, --ignore-case, -r, --copy ...), words of the language, numbers, brackets, blanks, held in an array, a map (as value and as key) and a set: array_contains, array_join, array_get, map_contains_value, map_contains_key, map_get, set_contains, set_from_array, array_concat, for/in listing, array_is_empty give what the reference gives. Recursive release of shared collections: an array of three (thorough four) slots, each holding one of four collections (array, set, map, an array holding the first array) in every combination: after release -r everything reachable is gone, what is not reachable stays. Concat is a copy: array_concat of 0, 1, 2 and 3 inputs gives a new handle with its own items; pushing to it and releasing an input leave the others as they were.";
pub const ASSUMPTIONS: &[&str] = &["listings whose order the documentation does not fix (map_keys, set_to_array) are compared as multisets and then sorted in place by the harness", "random handle names are opaque; a collision of two 20-character random names is outside the model", "operations are run through run_instruction with already-bound arguments"];
pub const EXHAUSTIVE: bool = true;
pub const WALL_CAP_S: (u64, u64) = (50, 1500);
