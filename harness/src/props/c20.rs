//! C20 — the command-line tool reports what the library decided.
//! Engine E3 (differential): every script of a pool x {file, -e, --eval}, the lint grid x {-l, --lint},
//! --version / --help; the `duck` executable built from /repo is run as a subprocess and compared
//! with the library run by this harness (`dsmc libref`, same library, default Env).

use crate::engine::*;
use serde_json::{json, Value};
use std::path::{Path, PathBuf};
use std::process::{Command, Stdio};

fn duck_path() -> PathBuf {
    std::env::var("DSMC_DUCK").map(PathBuf::from).unwrap_or_else(|_| PathBuf::from("/verif/harness/target-cli/debug/duck"))
}

pub(crate) struct ProcOut {
    pub(crate) code: Option<i32>,
    pub(crate) stdout: String,
    pub(crate) stderr: String,
}

/// Runs the executable to its end, or kills it after `LIMIT_S` seconds (then `code` is None and
/// stderr says so). Output is collected through files so that a child that never stops printing
/// cannot block on a full pipe.
const LIMIT_S: u64 = 20;

pub(crate) fn run_proc(exe: &Path, args: &[&str], cwd: &Path) -> Result<ProcOut, String> {
    use std::sync::atomic::{AtomicU64, Ordering};
    static N: AtomicU64 = AtomicU64::new(0);
    let n = N.fetch_add(1, Ordering::SeqCst);
    let out_path = cwd.join(format!(".out-{}-{}", std::process::id(), n));
    let err_path = cwd.join(format!(".err-{}-{}", std::process::id(), n));
    let out_file = std::fs::File::create(&out_path).map_err(|e| e.to_string())?;
    let err_file = std::fs::File::create(&err_path).map_err(|e| e.to_string())?;
    let mut child = Command::new(exe)
        .args(args)
        .current_dir(cwd)
        .stdin(Stdio::null())
        .stdout(Stdio::from(out_file))
        .stderr(Stdio::from(err_file))
        .env_remove("RUST_BACKTRACE")
        .spawn()
        .map_err(|e| format!("cannot run {:?}: {}", exe, e))?;
    let start = std::time::Instant::now();
    let mut killed = false;
    let status = loop {
        match child.try_wait() {
            Ok(Some(st)) => break st,
            Ok(None) => {
                if start.elapsed().as_secs() >= LIMIT_S {
                    let _ = child.kill();
                    killed = true;
                    break child.wait().map_err(|e| e.to_string())?;
                }
                std::thread::sleep(std::time::Duration::from_millis(if start.elapsed().as_millis() < 50 { 1 } else { 10 }));
            }
            Err(e) => return Err(e.to_string()),
        }
    };
    let read = |p: &Path| -> String {
        let mut b = std::fs::read(p).unwrap_or_default();
        b.truncate(64 << 20);
        String::from_utf8_lossy(&b).to_string()
    };
    let stdout = read(&out_path);
    let mut stderr = read(&err_path);
    let _ = std::fs::remove_file(&out_path);
    let _ = std::fs::remove_file(&err_path);
    if killed {
        stderr = format!("<killed after {} s without exiting> {}", LIMIT_S, stderr);
    }
    Ok(ProcOut {
        code: if killed { None } else { status.code() },
        stdout,
        stderr,
    })
}

/// `dsmc libref file <path>` / `dsmc libref eval <text>`: the library alone, default Env.
/// stdout: what the script prints; exit 0 on Ok; exit 1 and the error's Display on stderr otherwise.
pub fn libref_main(args: &[String]) -> i32 {
    let mut ctx = duckscript::types::runtime::Context::new();
    if let Err(e) = duckscriptsdk::load(&mut ctx.commands) {
        eprint!("{}", e);
        return 1;
    }
    let r = match args.first().map(|s| s.as_str()) {
        Some("file") => duckscript::runner::run_script_file(&args[1], ctx, None),
        Some("eval") => duckscript::runner::run_script(&args[1], ctx, None),
        _ => {
            eprintln!("usage: libref file|eval <arg>");
            return 2;
        }
    };
    match r {
        Ok(_) => 0,
        Err(e) => {
            eprint!("{}", e);
            1
        }
    }
}

fn scripts() -> Vec<(&'static str, String)> {
    let v: Vec<(&str, &str)> = vec![
        ("empty", ""),
        ("comments-only", "# nothing\n\n# here"),
        ("echo", "echo hello world\necho second"),
        // escapes, quoted and not, and text that reads like shell syntax: the text given to -e is the script
        ("escape-n-unquoted", "echo a\\nb\necho after"),
        ("escape-n-quoted", "echo \"a\\nb\"\necho after"),
        ("escape-t-and-backslash", "echo a\\tb c\\\\nd\necho after"),
        ("escape-in-assignment", "x = set 1\\n2\necho ${x}"),
        ("semicolons-and-pipes", "echo a; echo b | c && d\necho after"),
        ("dollar-paren-and-backticks", "echo $(date) `id` $HOME ~ *\necho after"),
        ("single-quotes", "echo 'a b' it's\necho after"),
        ("trailing-blank-lines", "echo a\n\n\n"),
        ("crlf-lines", "echo a\r\necho b\r\n"),
        ("leading-dash-text", "echo -e --eval -l\necho after"),
        ("non-ascii-output", "echo é😀 done"),
        ("loop-output", "arr = array a b c\nfor x in ${arr}\necho item ${x}\nend\nrelease ${arr}"),
        ("function-output", "fn f\necho in ${1}\nreturn r\nend\nx = f 1\necho ${x}"),
        ("if-else", "if false\necho no\nelse\necho yes\nend"),
        ("unknown-command", "echo before\nnosuchcommand a b\necho after"),
        ("unknown-command-first-line", "nosuchcommand"),
        ("exit-default", "echo a\nexit\necho b"),
        ("exit-0", "echo a\nexit 0\necho b"),
        ("exit-3", "echo a\nexit 3\necho b"),
        ("exit-minus-1", "exit -1"),
        ("exit-abc", "echo a\nexit abc\necho b"),
        ("exit-255", "exit 255"),
        ("error-continues", "x = array_pop nohandle\necho ${x}\ne = get_last_error\necho ${e}"),
        ("trigger-error-continues", "trigger_error boom\necho still here"),
        ("exit-on-error", "exit_on_error true\necho a\ntrigger_error boom\necho b"),
        ("exit-on-error-in-function", "exit_on_error true\nfn f\narray_pop nohandle\nend\necho a\nf\necho b"),
        ("assert-fail", "echo a\nassert_fail failing\necho b"),
        ("assert-false", "assert false"),
        ("assert-true", "assert true\necho fine"),
        ("assert-eq-fails", "assert_eq 1 2"),
        ("missing-label", "goto :nowhere"),
        ("goto", "goto :l\necho skipped\n:l echo reached"),
        ("parse-missing-end-quotes", "echo ok\necho \"unterminated"),
        ("parse-bad-escape", "echo \\q"),
        ("parse-quotes-location", "\"echo\" a"),
        ("parse-control-location", "e\\cho a"),
        ("parse-no-preprocessor", "echo a\n!"),
        ("parse-unknown-preprocessor", "!nothing a"),
        ("preprocessor-print", "!print compile time\necho run time"),
        ("include-missing", "!include_files ./does_not_exist.ds"),
        ("missing-end", "if true\necho a"),
        ("unmatched-end", "echo a\nend\necho b"),
        ("on-error-crash", "x = set 1\nstd::error::OnError"),
        ("println", "println one two\nprint no newline"),
        ("concat-script-command", "x = concat a b c\necho ${x}"),
        ("nested-error-with-exit-on-error", "exit_on_error true\nx = array_join nohandle ,\necho b"),
        ("while-loop", "i = set 0\nwhile less_than ${i} 3\necho ${i}\ni = calc ${i} + 1\nend"),
        ("dump-variables", "a = set 1\ndump_variables"),
        ("exit-with-spaces", "exit \" 3\""),
        ("exit-big", "exit 99999999999"),
        ("exit-256", "echo a\nexit 256"),
        ("exit-512", "exit 512"),
        ("exit-minus-256", "exit -256"),
        ("exit-65536", "exit 65536"),
        ("exit-i32-max", "exit 2147483647"),
        ("exit-i32-min", "exit -2147483648"),
        ("exit-257", "exit 257"),
        ("blank-only", "   \n\n"),
        ("child-process-output", "echo before\nexec echo child\necho after"),
        ("child-process-output-then-crash", "echo before\nexec echo child\necho after\nnosuchcommand"),
        ("child-process-in-loop", "arr = array 1 2\nfor i in ${arr}\necho item ${i}\nexec echo child ${i}\nend"),
        ("label-only", ":just_a_label"),
        ("crash-in-function", "fn f\nnosuch\nend\necho a\nf\necho b"),
        ("error-in-included-missing", "echo a\n!include_files ./nope/none.ds\necho b"),
    ];
    v.into_iter().map(|(n, s)| (n, s.to_string())).collect()
}

/// the helper files of the include cases, in `inc`
fn write_inc_files(inc: &Path) {
    let _ = std::fs::create_dir_all(inc);
    let p = |n: &str| inc.join(n).to_string_lossy().to_string();
    std::fs::write(inc.join("helper.ds"), "echo RUNS helper\n").expect("write");
    std::fs::write(inc.join("other.ds"), "x = set 1\n").expect("write");
    std::fs::write(inc.join("nested.ds"), format!("!include_files {}\necho RUNS nested\n", p("helper.ds"))).expect("write");
    std::fs::write(inc.join("twice_inside.ds"), format!("!include_files {}\n!include_files {}\n", p("helper.ds"), p("helper.ds"))).expect("write");
    std::fs::write(inc.join("broken.ds"), "echo \"unterminated\n").expect("write");
    std::fs::write(inc.join("selfish.ds"), format!("!include_files {}\n", p("selfish.ds"))).expect("write");
    // relative paths: resolved against the directory of the including file, wherever duck is started
    let _ = std::fs::create_dir_all(inc.join("sub"));
    std::fs::write(inc.join("sub").join("deep.ds"), "!include_files ../helper.ds\necho RUNS deep\n").expect("write");
    std::fs::write(inc.join("sub").join("upper.ds"), "X = set 1\n").expect("write");
    std::fs::write(inc.join("rel_root.ds"), "!include_files ./helper.ds\necho RUNS first\n").expect("write");
    std::fs::write(inc.join("rel_root_deep.ds"), "!include_files ./sub/deep.ds ./other.ds\necho RUNS first\n").expect("write");
    std::fs::write(inc.join("rel_root_upper.ds"), "!include_files ./sub/upper.ds\necho RUNS first\n").expect("write");
    std::fs::write(inc.join("rel_root_missing.ds"), "echo RUNS first\n!include_files ./sub/nothing.ds\n").expect("write");
}

/// the directory of helper files a case text refers to, if any
fn inc_dir_of(text: &str) -> Option<PathBuf> {
    let marker = "/c20/inc/";
    text.split_whitespace().find_map(|t| t.find(marker).map(|i| PathBuf::from(&t[..i + marker.len() - 1])))
}

pub fn bounds(tier: Tier) -> Value {
    json!({"generated_scripts": if tier == Tier::Thorough { "exit N for N in -600..=600 (2 forms); every script of 1..4 lines over a 14-line pool (3 forms); lint line at 3 positions" } else { "none" }, "scripts": scripts().len(), "invocation_forms": ["file", "-e", "--eval"], "lint_grid": "label x command x output, each in {absent, lower, Upper, mIxed_1, non-ASCII upper} x {parsable, unparsable second line} x {-l, --lint}", "other": ["--version", "--help", "-h"]})
}

fn sig(kind: &str, name: &str) -> String {
    format!("{}:{}", kind, name)
}

/// One script through duck and through the library alone; `class` names the signature family.
#[allow(clippy::too_many_arguments)]
fn compare_run(w: &mut Worker, duck: &Path, me: &Path, dir: &Path, name: &str, class: &str, text: &str, form: &str) {
    let duck = duck.to_path_buf();
    let me = me.to_path_buf();
    let text = text.to_string();
    let name_owned = name.to_string();
    let name = class;
    {
        {
            if !w.take() {
                return;
            }
            let cj = json!({"kind": "run", "name": name_owned, "form": form, "script": text});
            w.begin(|| cj.clone());
            let file = dir.join(format!("{} script.ds", name_owned));
            let fs = file.to_string_lossy().to_string();
            let (d, l) = if form == "file" {
                std::fs::write(&file, &text).expect("write script");
                (run_proc(&duck, &[&fs], &dir), run_proc(&me, &["libref", "file", &fs], &dir))
            } else {
                (run_proc(&duck, &[form, &text], &dir), run_proc(&me, &["libref", "eval", &text], &dir))
            };
            w.add_transitions(2);
            let (d, l) = match (d, l) {
                (Ok(d), Ok(l)) => (d, l),
                (a, b) => {
                    w.fail("harness:spawn", &format!("{:?} {:?}", a.err(), b.err()), cj);
                    return;
                }
            };
            let lib_ok = l.code == Some(0);
            let verdict: Result<(), (String, String)> = (|| {
                if l.code != Some(0) && l.code != Some(1) {
                    return Err((sig("library-run-died", name), format!("library reference exited with {:?}: {}", l.code, l.stderr)));
                }
                let duck_ok = d.code == Some(0);
                if duck_ok != lib_ok {
                    return Err((
                        sig(if lib_ok { "status-nonzero-on-success" } else { "status-zero-on-failure" }, name),
                        format!("{} {}: duck exit status {:?}, library {}", name, form, d.code, if lib_ok { "succeeded".to_string() } else { format!("failed: {}", l.stderr) }),
                    ));
                }
                if d.code.is_none() {
                    return Err((sig("duck-killed", name), format!("{} {}: duck was killed by a signal", name, form)));
                }
                if !d.stdout.starts_with(&l.stdout) {
                    return Err((sig("output-differs", name), format!("{} {}: duck printed {:?}, the library prints {:?}", name, form, d.stdout, l.stdout)));
                }
                let rest = &d.stdout[l.stdout.len()..];
                if lib_ok {
                    if !rest.is_empty() {
                        return Err((sig("extra-output", name), format!("{} {}: extra output {:?}", name, form, rest)));
                    }
                } else {
                    if !rest.starts_with("Error:") {
                        return Err((sig("no-error-message", name), format!("{} {}: output after the script's own is {:?}", name, form, rest)));
                    }
                    let expect = format!("Error: {}\n", l.stderr);
                    if rest != expect {
                        return Err((sig("error-message-differs", name), format!("{} {}: {:?} vs library error {:?}", name, form, rest, l.stderr)));
                    }
                }
                Ok(())
            })();
            match verdict {
                Ok(()) => {
                    if w.want_sample() && !lib_ok {
                        w.sample(json!({"name": name, "form": form, "exit": d.code, "stdout": d.stdout}));
                    }
                    w.pass(true, hash64(&(lib_ok, form, d.stdout.len().min(40))))
                }
                Err((s, what)) => w.fail(&s, &what, cj),
            }
        }
    }
}

pub fn worker(w: &mut Worker) {
    let duck = duck_path();
    let me = std::env::current_exe().expect("current exe");
    let dir = w.scratch.join("c20");
    let _ = std::fs::create_dir_all(&dir);
    if !duck.exists() {
        if w.take() {
            w.begin(|| json!({"kind": "setup"}));
            w.fail("harness:duck-missing", &format!("{:?} not built", duck), json!({}));
        }
        return;
    }
    // run scripts
    for (name, text) in scripts() {
        for form in ["file", "-e", "--eval"] {
            compare_run(w, &duck, &me, &dir, name, name, &text, form);
        }
    }
    // long outputs and long script files (file form only: a command-line argument is limited in size)
    for n in w.tier.pick(vec![5000usize], vec![5000usize, 100_000]) {
        let text = format!("i = set 0\nwhile less_than ${{i}} {}\ni = calc ${{i}} + 1\necho line number ${{i}} of the output\nend\necho done", n);
        compare_run(w, &duck, &me, &dir, &format!("long-output {}", n), "scale-long-output", &text, "file");
        let mut lines: Vec<String> = (1..=n).map(|k| format!("echo {}", k)).collect();
        compare_run(w, &duck, &me, &dir, &format!("long-file {}", n), "scale-long-file", &lines.join("\n"), "file");
        lines.push("nosuchcommand at the very end".into());
        compare_run(w, &duck, &me, &dir, &format!("long-file-failing {}", n), "scale-long-file-failing", &lines.join("\n"), "file");
        lines.pop();
        lines.push("echo \"unterminated".into());
        compare_run(w, &duck, &me, &dir, &format!("long-file-unparsable {}", n), "scale-long-file-unparsable", &lines.join("\n"), "file");
    }
    if w.tier == Tier::Thorough {
        // every exit code in a window around zero and around the multiples of 256 inside it
        for n in -600i64..=600 {
            let text = format!("echo a\nexit {}", n);
            for form in ["file", "-e"] {
                compare_run(w, &duck, &me, &dir, &format!("exit {}", n), "generated-exit", &text, form);
            }
        }
        // every script of 1..3 lines over a pool of lines that succeed, print, fail softly, fail
        // hard, leave, or do not parse
        const LINES: [&str; 14] = [
            "echo one",
            "x = set 1",
            "trigger_error soft",
            "exit_on_error true",
            "array_pop nohandle",
            "nosuchcommand",
            "exit",
            "exit 2",
            "exit 256",
            "assert false",
            "goto :end",
            "fn f",
            "echo \"unterminated",
            "!print compile time",
        ];
        let idx: Vec<usize> = (0..LINES.len()).collect();
        for seq in crate::util::Strings::new(&idx[..], 1, 4) {
            // the label is the last line, so every jump goes forward and every script ends
            let text = format!("{}\n:end echo at end", seq.iter().map(|&i| LINES[i]).collect::<Vec<_>>().join("\n"));
            for form in ["file", "-e", "--eval"] {
                compare_run(w, &duck, &me, &dir, "generated", "generated", &text, form);
            }
        }
    }
    // a script file that does not exist
    for form in ["file"] {
        if !w.take() {
            continue;
        }
        let cj = json!({"kind": "run", "name": "missing-script-file", "form": form, "script": ""});
        w.begin(|| cj.clone());
        let missing = dir.join("no such script.ds").to_string_lossy().to_string();
        match (run_proc(&duck, &[&missing], &dir), run_proc(&me, &["libref", "file", &missing], &dir)) {
            (Ok(d), Ok(l)) => {
                w.add_transitions(2);
                if d.code == Some(0) || l.code == Some(0) {
                    w.fail("missing-script-file:status", &format!("duck {:?} library {:?}", d.code, l.code), cj);
                } else if d.stdout != format!("{}Error: {}\n", l.stdout, l.stderr) {
                    w.fail("missing-script-file:output", &format!("duck printed {:?}, library error {:?}", d.stdout, l.stderr), cj);
                } else {
                    w.pass(true, hash64(&"missing-file"));
                }
            }
            (a, b) => w.fail("harness:spawn", &format!("{:?} {:?}", a.err(), b.err()), cj),
        }
    }
    // lint grid
    let spell = |kind: u8, base: &str| -> Option<String> {
        match kind {
            0 => None,
            1 => Some(base.to_string()),
            2 => Some(format!("{}{}", base[..1].to_uppercase(), &base[1..])),
            3 => Some(format!("m{}_1", base.to_uppercase())),
            _ => Some(format!("É{}", base)),
        }
    };
    let npos = if w.tier == Tier::Thorough { 3usize } else { 1 };
    for lk in 0..5u8 {
        for ck in 0..5u8 {
            for ok in 0..5u8 {
                for parsable in [true, false] {
                    for (flag, posn) in ["-l", "--lint"].iter().flat_map(|f| (0..npos).map(move |p| (*f, p))) {
                        if !w.take() {
                            continue;
                        }
                        let label = spell(lk, "lab");
                        let command = spell(ck, "echo");
                        let output = spell(ok, "out");
                        let mut line = String::new();
                        if let Some(l) = &label {
                            line.push_str(&format!(":{} ", l));
                        }
                        if let Some(o) = &output {
                            line.push_str(&format!("{} = ", o));
                        }
                        if let Some(c) = &command {
                            line.push_str(&format!("{} RUNS", c));
                        }
                        let mut text = match posn {
                            0 => format!("# lint me\necho RUNS first\n{}\n", line.trim_end()),
                            1 => format!("{}\n# lint me\necho RUNS first\n", line.trim_end()),
                            _ => format!("echo RUNS first\n{}\n\nx = set 1\n", line.trim_end()),
                        };
                        if !parsable {
                            text.push_str("echo \"unterminated\n");
                        }
                        let cj = json!({"kind": "lint", "flag": flag, "text": text});
                        w.begin(|| cj.clone());
                        let file = dir.join("lint.ds");
                        std::fs::write(&file, &text).expect("write");
                        let d = match run_proc(&duck, &[flag, &file.to_string_lossy()], &dir) {
                            Ok(d) => d,
                            Err(e) => {
                                w.fail("harness:spawn", &e, cj);
                                continue;
                            }
                        };
                        w.add_transitions(1);
                        let lower = |x: &Option<String>| x.as_ref().map(|s| s.to_lowercase() == *s).unwrap_or(true);
                        let expect_ok = parsable && lower(&label) && lower(&command) && lower(&output);
                        let got_ok = d.code == Some(0);
                        if d.stdout.lines().any(|l| l.trim() == "RUNS first") {
                            w.fail("lint:script-was-run", &format!("{} ran the script: {:?}", flag, d.stdout), cj);
                        } else if got_ok != expect_ok {
                            w.fail(
                                if expect_ok { "lint:rejected-a-clean-file" } else if !parsable { "lint:accepted-an-unparsable-file" } else { "lint:accepted-upper-case" },
                                &format!("{} on {:?}: exit {:?}, expected {}", flag, text, d.code, if expect_ok { "acceptance" } else { "rejection" }),
                                cj,
                            );
                        } else if !got_ok && !d.stdout.contains("Error:") {
                            w.fail("lint:no-error-message", &format!("{} on {:?}: output {:?}", flag, text, d.stdout), cj);
                        } else {
                            w.pass(true, hash64(&("lint", got_ok, lk, ck, ok)));
                        }
                    }
                }
            }
        }
    }
    // long files: every threshold size of lines, the one line that is not lower case (or does not parse)
    // at the first, the middle, the last but one and the last line, or nowhere
    {
        let sizes: Vec<usize> = crate::util::with_thresholds_usize(w.tier.pick(vec![50, 3001, 7000], vec![50, 3001, 7000, 50_000]), w.tier.pick(8192, 65_536));
        for &n in &sizes {
            for bad in ["none", "first", "middle", "last-but-one", "last", "last-unparsable"] {
                if !w.take() {
                    continue;
                }
                let cj = json!({"kind": "lint-long", "lines": n, "bad": bad});
                w.begin(|| cj.clone());
                let text = long_lint_text(n, bad);
                let file = dir.join("lint-long.ds");
                std::fs::write(&file, &text).expect("write");
                let d = match run_proc(&duck, &["-l", &file.to_string_lossy()], &dir) {
                    Ok(d) => d,
                    Err(e) => {
                        w.fail("harness:spawn", &e, cj);
                        continue;
                    }
                };
                w.add_transitions(1);
                let expect_ok = bad == "none";
                let got_ok = d.code == Some(0);
                if d.stdout.lines().any(|l| l.trim().starts_with("RUNS")) {
                    w.fail("lint:script-was-run", &format!("-l ran the {} line file: {:?}", n, &d.stdout[..d.stdout.len().min(200)]), cj);
                } else if got_ok != expect_ok {
                    w.fail(
                        if expect_ok { "lint:rejected-a-clean-file" } else if bad == "last-unparsable" { "lint:accepted-an-unparsable-file" } else { "lint:accepted-upper-case" },
                        &format!("-l on a file of {} lines, bad line: {}: exit {:?}, expected {}", n, bad, d.code, if expect_ok { "acceptance" } else { "rejection" }),
                        cj,
                    );
                } else if !got_ok && !d.stdout.contains("Error:") {
                    w.fail("lint:no-error-message", &format!("-l on a file of {} lines, bad line: {}: output {:?}", n, bad, d.stdout), cj);
                } else {
                    w.pass(true, hash64(&("lint-long", got_ok, n.min(100), bad)));
                }
            }
        }
    }
    // files that include other files: run as a file and as text against the library, and linted (a
    // file whose includes parse and are all lower case is accepted; one that includes a file that
    // does not parse, or itself, is not)
    {
        let inc = dir.join("inc");
        write_inc_files(&inc);
        let p = |n: &str| inc.join(n).to_string_lossy().to_string();
        let cases: Vec<(&str, String, bool)> = vec![
            ("include-once", format!("!include_files {}\necho RUNS first", p("helper.ds")), true),
            ("include-twice-two-lines", format!("!include_files {}\necho RUNS first\n!include_files {}", p("helper.ds"), p("helper.ds")), true),
            ("include-twice-one-line", format!("echo RUNS first\n!include_files {} {}", p("helper.ds"), p("helper.ds")), true),
            ("include-two-files-then-first-again", format!("!include_files {} {}\n!include_files {}\necho RUNS first", p("helper.ds"), p("other.ds"), p("helper.ds")), true),
            ("include-diamond", format!("!include_files {}\n!include_files {}\necho RUNS first", p("helper.ds"), p("nested.ds")), true),
            ("include-diamond-other-order", format!("!include_files {}\n!include_files {}\necho RUNS first", p("nested.ds"), p("helper.ds")), true),
            ("include-nested-twice", format!("!include_files {}\n!include_files {}\necho RUNS first", p("nested.ds"), p("nested.ds")), true),
            ("include-file-that-includes-twice", format!("!include_files {}\necho RUNS first", p("twice_inside.ds")), true),
            ("include-broken", format!("echo RUNS first\n!include_files {}", p("broken.ds")), false),
            ("include-self-including", format!("echo RUNS first\n!include_files {}", p("selfish.ds")), false),
            ("include-good-then-broken", format!("!include_files {} {}\necho RUNS first", p("helper.ds"), p("broken.ds")), false),
        ];
        for (name, text, parses) in &cases {
            for form in ["file", "-e", "--eval"] {
                compare_run(w, &duck, &me, &dir, name, name, text, form);
            }
            for flag in ["-l", "--lint"] {
                if !w.take() {
                    continue;
                }
                let cj = json!({"kind": "lint", "flag": flag, "text": text, "name": name});
                w.begin(|| cj.clone());
                let file = dir.join("lint-inc.ds");
                std::fs::write(&file, text).expect("write");
                let d = match run_proc(&duck, &[flag, &file.to_string_lossy()], &dir) {
                    Ok(d) => d,
                    Err(e) => {
                        w.fail("harness:spawn", &e, cj);
                        continue;
                    }
                };
                w.add_transitions(1);
                let got_ok = d.code == Some(0);
                if d.stdout.lines().any(|l| l.trim().starts_with("RUNS")) {
                    w.fail("lint:script-was-run", &format!("{} ran the script {}: {:?}", flag, name, d.stdout), cj);
                } else if got_ok != *parses {
                    w.fail(
                        if *parses { "lint:rejected-a-clean-file" } else { "lint:accepted-an-unparsable-file" },
                        &format!("{} on {} ({:?}): exit {:?}, output {:?}, expected {}", flag, name, text, d.code, d.stdout, if *parses { "acceptance" } else { "rejection" }),
                        cj,
                    );
                } else if !got_ok && !d.stdout.contains("Error:") {
                    w.fail("lint:no-error-message", &format!("{} on {}: output {:?}", flag, name, d.stdout), cj);
                } else {
                    w.pass(true, hash64(&("lint-inc", got_ok, *name)));
                }
            }
        }
    }
    // script files whose bare names spell options, option letters or other things the tool knows: a file
    // given by name is run as a file (alone, and with a further argument behind it)
    {
        let named = dir.join("named");
        let _ = std::fs::create_dir_all(&named);
        for name in ["version", "help", "h", "e", "eval", "l", "lint", "script", "Version", "e.ds", "lint.ds", "true", "0"] {
            for (kind, text) in [("succeeding", "echo RUNS from the file\nx = set 1"), ("failing", "echo RUNS before\nexit 3"), ("unparsable", "echo \"unterminated")] {
                for extra in [None, Some("other.ds"), Some("echo extra")] {
                    if !w.take() {
                        continue;
                    }
                    let cj = json!({"kind": "named-file", "name": name, "script": text, "extra": extra, "class": kind});
                    w.begin(|| cj.clone());
                    std::fs::write(named.join(name), text).expect("write");
                    std::fs::write(named.join("other.ds"), "echo RUNS the other file").expect("write");
                    let mut args: Vec<&str> = vec![name];
                    if let Some(x) = extra {
                        args.push(x);
                    }
                    let d = run_proc(&duck, &args, &named);
                    let l = run_proc(&me, &["libref", "file", name], &named);
                    let _ = std::fs::remove_file(named.join(name));
                    w.add_transitions(2);
                    match (d, l) {
                        (Ok(d), Ok(l)) => {
                            let lib_ok = l.code == Some(0);
                            let expect_out = if lib_ok { l.stdout.clone() } else { format!("{}Error: {}\n", l.stdout, l.stderr) };
                            if (d.code == Some(0)) != lib_ok || d.stdout != expect_out {
                                w.fail(
                                    &format!("named-file:{}", kind),
                                    &format!("duck {:?} (a {} script file of that name in the working directory): exit {:?}, output {:?}; the library run of the file {} and prints {:?}", args, kind, d.code, d.stdout, if lib_ok { "succeeds" } else { "fails" }, expect_out),
                                    cj,
                                );
                            } else {
                                w.pass(true, hash64(&("named-file", kind, extra.is_some())));
                            }
                        }
                        (a, b) => w.fail("harness:spawn", &format!("{:?} {:?}", a.err(), b.err()), cj),
                    }
                }
            }
        }
    }
    // files with relative includes, started from a directory that is not theirs (a file of the same
    // relative name exists there too, clean where the real one is not and the other way round)
    {
        let inc = dir.join("inc");
        write_inc_files(&inc);
        let elsewhere = dir.join("elsewhere");
        let _ = std::fs::create_dir_all(elsewhere.join("sub"));
        std::fs::write(elsewhere.join("sub").join("upper.ds"), "x = set 1\n").expect("write");
        std::fs::write(elsewhere.join("helper.ds"), "echo RUNS the wrong helper\nnosuchcommand\n").expect("write");
        for (root, lint_ok) in [("rel_root.ds", true), ("rel_root_deep.ds", true), ("rel_root_upper.ds", false), ("rel_root_missing.ds", false)] {
            let file = inc.join(root).to_string_lossy().to_string();
            for cwd in [&dir, &elsewhere, &inc] {
                if !w.take() {
                    continue;
                }
                let cj = json!({"kind": "relative-include", "root": root, "cwd": cwd.file_name().map(|x| x.to_string_lossy().to_string())});
                w.begin(|| cj.clone());
                let runs = (run_proc(&duck, &[&file], cwd), run_proc(&me, &["libref", "file", &file], cwd));
                let lints = (run_proc(&duck, &["-l", &file], cwd), run_proc(&duck, &["--lint", &file], cwd));
                w.add_transitions(4);
                match (runs, lints) {
                    ((Ok(d), Ok(l)), (Ok(l1), Ok(l2))) => {
                        let lib_ok = l.code == Some(0);
                        let expect_out = if lib_ok { l.stdout.clone() } else { format!("{}Error: {}\n", l.stdout, l.stderr) };
                        if (d.code == Some(0)) != lib_ok || d.stdout != expect_out {
                            w.fail("relative-include:run-differs", &format!("{} from {:?}: duck exit {:?} output {:?}, library {} output {:?} error {:?}", root, cwd, d.code, d.stdout, if lib_ok { "succeeded" } else { "failed" }, l.stdout, l.stderr), cj);
                        } else if lint_ok && !lib_ok {
                            w.fail("harness:relative-include", &format!("{} is meant to run: {:?}", root, l.stderr), cj);
                        } else if (l1.code == Some(0)) != lint_ok || (l2.code == Some(0)) != lint_ok {
                            w.fail(
                                if lint_ok { "lint:rejected-a-clean-file" } else { "lint:accepted-a-bad-file" },
                                &format!("lint of {} from {:?}: exit {:?} / {:?}, output {:?}, expected {}", root, cwd, l1.code, l2.code, l1.stdout, if lint_ok { "acceptance" } else { "rejection" }),
                                cj,
                            );
                        } else if l1.stdout.contains("RUNS") || l2.stdout.contains("RUNS") {
                            w.fail("lint:script-was-run", &format!("lint of {} ran it: {:?}", root, l1.stdout), cj);
                        } else {
                            w.pass(true, hash64(&("relative-include", root, lib_ok)));
                        }
                    }
                    other => w.fail("harness:spawn", &format!("{:?}", other.0 .0.err()), cj),
                }
            }
        }
    }
    // version / help
    for arg in ["--version", "--help", "-h"] {
        if !w.take() {
            continue;
        }
        let cj = json!({"kind": "info", "arg": arg});
        w.begin(|| cj.clone());
        match run_proc(&duck, &[arg], &dir) {
            Err(e) => w.fail("harness:spawn", &e, cj),
            Ok(d) => {
                let ok = d.code == Some(0)
                    && if arg == "--version" {
                        d.stdout.contains(&format!("Duckscript Runtime: {}", duckscript::version())) && d.stdout.contains(&format!("Duckscript SDK: {}", duckscriptsdk::version()))
                    } else {
                        d.stdout.contains("USAGE") && d.stdout.contains("--eval") && d.stdout.contains("--lint")
                    };
                if ok {
                    w.pass(true, hash64(&arg))
                } else {
                    w.fail(&format!("info:{}", arg), &format!("{}: exit {:?}, output {:?}", arg, d.code, d.stdout), cj)
                }
            }
        }
    }
}

pub fn replay(case: &Value) -> Result<String, String> {
    let duck = duck_path();
    let dir = scratch_root().join(format!("replay-c20-{}", std::process::id()));
    let _ = std::fs::create_dir_all(&dir);
    // the helper files of an include case are put back where the case text expects them
    let made_inc = case["script"].as_str().or(case["text"].as_str()).and_then(inc_dir_of).filter(|d| !d.exists());
    if let Some(d) = &made_inc {
        write_inc_files(d);
    }
    let r = match case["kind"].as_str().unwrap_or("") {
        "run" => {
            let text = case["script"].as_str().unwrap_or("");
            let form = case["form"].as_str().unwrap_or("-e");
            if form == "file" {
                let f = dir.join("replay.ds");
                std::fs::write(&f, text).map_err(|e| e.to_string())?;
                run_proc(&duck, &[&f.to_string_lossy()], &dir)?
            } else {
                run_proc(&duck, &[form, text], &dir)?
            }
        }
        "named-file" => {
            let named = dir.join("named");
            let _ = std::fs::create_dir_all(&named);
            let name = case["name"].as_str().unwrap_or("script");
            std::fs::write(named.join(name), case["script"].as_str().unwrap_or("")).map_err(|e| e.to_string())?;
            std::fs::write(named.join("other.ds"), "echo RUNS the other file").map_err(|e| e.to_string())?;
            let mut args: Vec<&str> = vec![name];
            if let Some(x) = case["extra"].as_str() {
                args.push(x);
            }
            run_proc(&duck, &args, &named)?
        }
        "relative-include" => {
            let inc = dir.join("inc");
            write_inc_files(&inc);
            let file = inc.join(case["root"].as_str().unwrap_or("rel_root.ds")).to_string_lossy().to_string();
            let a = run_proc(&duck, &[&file], &dir)?;
            let b = run_proc(&duck, &["-l", &file], &dir)?;
            ProcOut { code: a.code, stdout: format!("{}\nlint exit {:?}: {}", a.stdout, b.code, b.stdout), stderr: String::new() }
        }
        "lint-long" => {
            let f = dir.join("lint-long.ds");
            std::fs::write(&f, long_lint_text(case["lines"].as_u64().unwrap_or(1) as usize, case["bad"].as_str().unwrap_or("none"))).map_err(|e| e.to_string())?;
            run_proc(&duck, &["-l", &f.to_string_lossy()], &dir)?
        }
        "lint" => {
            let f = dir.join("lint.ds");
            std::fs::write(&f, case["text"].as_str().unwrap_or("")).map_err(|e| e.to_string())?;
            run_proc(&duck, &[case["flag"].as_str().unwrap_or("-l"), &f.to_string_lossy()], &dir)?
        }
        _ => run_proc(&duck, &[case["arg"].as_str().unwrap_or("--help")], &dir)?,
    };
    let d = dir.to_string_lossy().to_string();
    let _ = std::fs::remove_dir_all(&dir);
    if let Some(d) = &made_inc {
        let _ = std::fs::remove_dir_all(d);
        // and the (now empty) directories above it that were made for it
        let mut up = d.parent();
        while let Some(u) = up {
            if std::fs::remove_dir(u).is_err() {
                break;
            }
            up = u.parent();
        }
    }
    Ok(format!("exit {:?}\nstdout: {}", r.code, r.stdout.replace(&d, "<dir>")))
}

/// A file of `n` instruction lines, all lower case, except the one named by `bad`.
fn long_lint_text(n: usize, bad: &str) -> String {
    let at = match bad {
        "first" => Some(0),
        "middle" => Some(n / 2),
        "last-but-one" => Some(n.saturating_sub(2)),
        "last" | "last-unparsable" => Some(n - 1),
        _ => None,
    };
    let mut text = String::new();
    for i in 0..n {
        if Some(i) == at {
            if bad == "last-unparsable" {
                text.push_str("echo \"unterminated\n");
            } else {
                text.push_str(&format!("Out{} = echo RUNS {}\n", i, i));
            }
        } else {
            text.push_str(&format!("out{} = echo RUNS {}\n", i % 7, i));
        }
    }
    text
}

pub fn crash_sig(_case: &Value, kind: &str) -> String {
    kind.to_string()
}

pub const RULE: &str = "67 scripts (succeeding, printing, failing by crash / unknown command / missing label / assert, exit with no value, 0, 3, -1, 255, 256, 257, 512, -256, 65536, i32::MAX, i32::MIN, abc, ' 3', a value beyond i32, every parse error kind, pre-processor print and missing include, output of child processes interleaved with the script's own, exit_on_error at top level, in a function and inside a script-implemented command) x invocation form {file argument, -e text, --eval text}: the duck executable built from /repo's working tree is run as a subprocess and compared with the library run by the harness in a second subprocess (default Env): exit status 0 exactly when the library run succeeds; stdout equals the library's stdout, followed on failure by 'Error: <display of the library error>'. Lint: label x command x output each in {absent, lower-case, Capitalised, mIxed_1, non-ASCII upper-case} x {parsable, with an unparsable later line} x {-l, --lint} (thorough: the line at the end, at the start and in the middle of the file): accepted exactly when the file parses and the three spellings are lower-case, never runs the script, prints 'Error:' on rejection. --version, --help, -h: exit 0 and the documented content. Thorough tier in addition: `exit N` for every N in -600..=600, and every script of 1..4 lines over a pool of 14 lines (printing, assigning, soft error, exit_on_error, failing command, unknown command, exit / exit 2 / exit 256, failed assert, forward goto, unterminated function, unparsable line, pre-processor print) closed by a label line. Scale cases (file form): a loop printing 5000 (thorough 100000) lines, a script file of that many lines, the same failing / not parsing on its last line (output and message must match to the byte). Every subprocess is killed after 20 s (reported as a violation when it is duck that does not exit). Includes: 11 files that include other files by absolute path (once, twice, diamonds, nested twice, broken, self-including) through the three run forms (against the library) and lint (accepted iff everything parses); 4 roots with relative includes started from 3 directories, one of which holds decoy files of the same relative names (run against the library; lint accepted iff the real files parse and are lower case). Named files: scripts (succeeding, failing, unparsable) under 13 bare names that spell options, option letters or words the tool knows (version, help, h, e, eval, l, lint, ...), given alone and with a further argument: run as files, against the library Long files linted: every threshold size of lines up to 8193 (thorough 65537), the one bad line (upper-case output) first, in the middle, last but one, last, a last line that does not parse, or none.";
pub const ASSUMPTIONS: &[&str] = &["scripts with time- or random-dependent output are not in the pool", "the reference is the same library linked into the harness (differential), so a defect shared by both is invisible here"];
pub const EXHAUSTIVE: bool = true;
pub const WALL_CAP_S: (u64, u64) = (58, 600);
