//! C06 — conditions: one truthiness rule, and-of-ors grouping, parentheses.
//! Engine E3: every token sequence of the condition grammar up to a length, through all four
//! consumers (not, if, elseif, while), against a recursive-descent reference evaluator.

use crate::engine::*;
use crate::render;
use crate::util::*;
use duckscript::runner;
use duckscript::types::command::CommandResult;
use duckscript::types::instruction::{Instruction, InstructionMetaInfo, InstructionType, ScriptInstruction};
use duckscript::types::runtime::Context;
use serde_json::{json, Value};
use std::cell::RefCell;
use std::rc::Rc;

#[derive(Clone, Copy, PartialEq, Eq, Debug, Hash)]
pub enum Tok {
    T,
    F,
    And,
    Or,
    Open,
    Close,
}
const TOKS: [Tok; 6] = [Tok::T, Tok::F, Tok::And, Tok::Or, Tok::Open, Tok::Close];

/// The truthiness rule of the statement.
pub fn ref_truthy(v: Option<&str>) -> bool {
    match v {
        None => false,
        Some(s) => {
            let l = s.to_lowercase();
            !(l.is_empty() || l == "0" || l == "false" || l == "no")
        }
    }
}

/// Reference evaluator over arbitrary string tokens:
/// cond := disj ('and' disj)* ; disj := atom ('or' atom)* ; atom := value | '(' cond? ')'.
/// None = not a sentence of the grammar.
pub fn ref_eval(tokens: &[String]) -> Option<bool> {
    fn cond(t: &[String], p: &mut usize) -> Option<bool> {
        let mut total = disj(t, p)?;
        while *p < t.len() && t[*p] == "and" {
            *p += 1;
            let d = disj(t, p)?;
            total = total && d;
        }
        Some(total)
    }
    fn disj(t: &[String], p: &mut usize) -> Option<bool> {
        let mut v = atom(t, p)?;
        while *p < t.len() && t[*p] == "or" {
            *p += 1;
            let a = atom(t, p)?;
            v = v || a;
        }
        Some(v)
    }
    fn atom(t: &[String], p: &mut usize) -> Option<bool> {
        if *p >= t.len() {
            return None;
        }
        let tok = &t[*p];
        if tok == "(" {
            *p += 1;
            if *p < t.len() && t[*p] == ")" {
                *p += 1;
                return Some(false); // an empty group is falsy
            }
            let v = cond(t, p)?;
            if *p < t.len() && t[*p] == ")" {
                *p += 1;
                Some(v)
            } else {
                None
            }
        } else if tok == ")" || tok == "and" || tok == "or" {
            None
        } else {
            *p += 1;
            Some(ref_truthy(Some(tok)))
        }
    }
    let mut p = 0;
    let v = cond(tokens, &mut p)?;
    if p == tokens.len() {
        Some(v)
    } else {
        None
    }
}

fn spell(seq: &[Tok], t: &str, f: &str) -> Vec<String> {
    seq.iter()
        .map(|k| {
            match k {
                Tok::T => t,
                Tok::F => f,
                Tok::And => "and",
                Tok::Or => "or",
                Tok::Open => "(",
                Tok::Close => ")",
            }
            .to_string()
        })
        .collect()
}

/// All sentences of the grammar by exact token count (each sentence once: the grammar is unambiguous).
pub struct Sentences {
    pub cond: Vec<Vec<Vec<Tok>>>,
}

impl Sentences {
    pub fn upto(lmax: usize) -> Sentences {
        let mut atom: Vec<Vec<Vec<Tok>>> = vec![vec![]; lmax + 1];
        let mut disj: Vec<Vec<Vec<Tok>>> = vec![vec![]; lmax + 1];
        let mut cond: Vec<Vec<Vec<Tok>>> = vec![vec![]; lmax + 1];
        for n in 1..=lmax {
            // atoms
            if n == 1 {
                atom[1].push(vec![Tok::T]);
                atom[1].push(vec![Tok::F]);
            }
            if n == 2 {
                atom[2].push(vec![Tok::Open, Tok::Close]);
            }
            if n >= 3 {
                let inner: Vec<Vec<Tok>> = cond[n - 2].clone();
                for c in inner {
                    let mut v = vec![Tok::Open];
                    v.extend(c);
                    v.push(Tok::Close);
                    atom[n].push(v);
                }
            }
            // disj(n) = atom(n) | atom(k) or disj(n-k-1)
            let mut d = atom[n].clone();
            for k in 1..n.saturating_sub(1) {
                let rest = n - k - 1;
                for a in &atom[k] {
                    for r in &disj[rest] {
                        let mut v = a.clone();
                        v.push(Tok::Or);
                        v.extend(r.iter().cloned());
                        d.push(v);
                    }
                }
            }
            disj[n] = d;
            // cond(n) = disj(n) | disj(k) and cond(n-k-1)
            let mut c = disj[n].clone();
            for k in 1..n.saturating_sub(1) {
                let rest = n - k - 1;
                for a in &disj[k] {
                    for r in &cond[rest] {
                        let mut v = a.clone();
                        v.push(Tok::And);
                        v.extend(r.iter().cloned());
                        c.push(v);
                    }
                }
            }
            cond[n] = c;
        }
        Sentences { cond }
    }
}

pub struct Rig {
    ctx: Context,
    trace: Rc<RefCell<Vec<String>>>,
}

impl Rig {
    pub fn new() -> Rig {
        let mut ctx = sdk_context();
        let trace: Rc<RefCell<Vec<String>>> = Rc::new(RefCell::new(vec![]));
        let t2 = trace.clone();
        // emit records its arguments and raises the halt flag so that a while loop runs its body once
        ctx.commands
            .set(fn_command("emit", move |c| {
                t2.borrow_mut().push(c.arguments.join(","));
                c.env.halt.store(true, std::sync::atomic::Ordering::SeqCst);
                CommandResult::Continue(None)
            }))
            .unwrap();
        let t3 = trace.clone();
        ctx.commands
            .set(fn_command("mark", move |c| {
                t3.borrow_mut().push(c.arguments.join(","));
                CommandResult::Continue(None)
            }))
            .unwrap();
        // hands its first argument back as its output (no output without arguments)
        ctx.commands
            .set(fn_command("giveback", move |c| CommandResult::Continue(c.arguments.first().cloned())))
            .unwrap();
        Rig { ctx, trace }
    }

    /// `not` through run_instruction with the tokens as the bound arguments
    pub fn run_not(&self, tokens: &[String]) -> Result<String, String> {
        let mut ctx = self.ctx.clone();
        let mut si = ScriptInstruction::new();
        si.command = Some("not".into());
        si.arguments = if tokens.is_empty() { None } else { Some(tokens.to_vec()) };
        let ins = Instruction {
            meta_info: InstructionMetaInfo::new(),
            instruction_type: InstructionType::Script(si),
        };
        let (mut env, _o, _e, _h) = quiet_env();
        let (r, _) = runner::run_instruction(
            &mut ctx.commands,
            &mut ctx.variables,
            &mut ctx.state,
            &vec![],
            ins,
            0,
            &mut env,
        );
        match r {
            CommandResult::Continue(Some(v)) => Ok(v),
            other => Err(format!("{}", result_json(&other))),
        }
    }

    /// consumer: 1 = if, 2 = elseif, 3 = while. Ok(true) when the guarded body ran.
    pub fn run_script(&self, consumer: u8, tokens: &[String]) -> Result<bool, String> {
        let args: Vec<&str> = tokens.iter().map(|s| s.as_str()).collect();
        let script = match consumer {
            1 => format!("{}\nmark then\nelse\nmark else\nend\nmark after", render::line(None, "if", &args)),
            2 => format!(
                "if false\nmark first\n{}\nmark then\nelse\nmark else\nend\nmark after",
                render::line(None, "elseif", &args)
            ),
            _ => format!("{}\nemit then\nend\nmark after", render::line(None, "while", &args)),
        };
        self.trace.borrow_mut().clear();
        let (env, _o, _e, _h) = quiet_env();
        let r = runner::run_script(&script, self.ctx.clone(), Some(env));
        let tr = self.trace.borrow().clone();
        match r {
            Err(e) => Err(format!("run failed: {}", e)),
            Ok(_) => {
                let exp_then: Vec<String> = match consumer {
                    3 => vec!["then".into()], // halted right after the body
                    _ => vec!["then".into(), "after".into()],
                };
                let exp_else: Vec<String> = match consumer {
                    3 => vec!["after".into()],
                    _ => vec!["else".into(), "after".into()],
                };
                if tr == exp_then {
                    Ok(true)
                } else if tr == exp_else {
                    Ok(false)
                } else {
                    Err(format!("unexpected trace {:?}", tr))
                }
            }
        }
    }
}

const CONSUMERS: [&str; 4] = ["not", "if", "elseif", "while"];

/// Some(signature) when the failing statement is of a class listed as known: derived from the
/// statement itself (a group that is the first atom of the statement and is followed by 'or').
fn classify(tokens: &[String], consumer: usize, got: &Result<bool, String>) -> String {
    let kind = match got {
        Ok(_) => "wrong-value",
        Err(_) => "error",
    };
    let _ = tokens;
    format!("{}:{}", CONSUMERS[consumer], kind)
}

fn check(w: &mut Worker, rig: &Rig, tokens: &[String], phase: &str, nontrivial: bool) {
    let exp = match ref_eval(tokens) {
        Some(v) => v,
        None => return,
    };
    check_expect(w, rig, tokens, phase, nontrivial, exp)
}

fn check_expect(w: &mut Worker, rig: &Rig, tokens: &[String], phase: &str, nontrivial: bool, exp: bool) {
    for consumer in 0..4usize {
        if !w.take() {
            continue;
        }
        let cj = json!({"phase": phase, "tokens": tokens, "consumer": CONSUMERS[consumer], "expected": exp});
        w.begin(|| cj.clone());
        let got: Result<Result<bool, String>, String> = guarded(|| match consumer {
            0 => rig.run_not(tokens).and_then(|v| match v.as_str() {
                "true" => Ok(false),
                "false" => Ok(true),
                o => Err(format!("not returned {:?}", o)),
            }),
            c => rig.run_script(c as u8, tokens),
        });
        w.add_transitions(1);
        match got {
            Err(p) => w.fail(&format!("{}:panic", CONSUMERS[consumer]), &format!("panic {} on {:?}", p, tokens), cj),
            Ok(g) => {
                if g == Ok(exp) {
                    if w.want_sample() && nontrivial && tokens.len() > 4 {
                        w.sample(cj.clone());
                    }
                    w.pass(nontrivial, hash64(&(consumer, exp, tokens.len())));
                } else {
                    let sig = classify(tokens, consumer, &g);
                    w.fail(&sig, &format!("{} {:?}: expected {} got {:?}", CONSUMERS[consumer], tokens.join(" "), exp, g), cj);
                }
            }
        }
    }
}

pub fn bounds(tier: Tier) -> Value {
    match tier {
        Tier::Quick => json!({"max_tokens": 11, "spelling_pass_max_tokens": 4}),
        Tier::Thorough => json!({"max_tokens": 14, "spelling_pass_max_tokens": 5}),
    }
}

fn case_variants(s: &str) -> Vec<String> {
    let chars: Vec<char> = s.chars().collect();
    let n = chars.len();
    (0..(1u32 << n))
        .map(|m| {
            chars
                .iter()
                .enumerate()
                .map(|(i, c)| if m & (1 << i) != 0 { c.to_ascii_uppercase() } else { *c })
                .collect()
        })
        .collect()
}


/// Long and deep statements (hundreds of operands, dozens of nested groups) through if / elseif /
/// while / not, against values computed here.
fn scale(w: &mut Worker) {
    let counts: Vec<usize> = with_thresholds_usize(w.tier.pick(vec![50, 300, 6000], vec![50, 300, 3000, 6000, 50000]), w.tier.pick(1024, 16384));
    let mut cases: Vec<(String, Vec<String>, bool)> = vec![];
    for &n in &counts {
        let mut all_true: Vec<String> = vec![];
        let mut ors: Vec<String> = vec![];
        let mut groups: Vec<String> = vec![];
        for i in 0..n {
            if i > 0 {
                all_true.push("and".into());
                ors.push("or".into());
                groups.push("and".into());
            }
            all_true.push(if i % 2 == 0 { "true".into() } else { "yes".into() });
            ors.push(if i == n - 1 { "1".into() } else { "false".into() });
            groups.extend(["(", "no", "or", "x", ")"].iter().map(|s| s.to_string()));
        }
        cases.push((format!("long-and operands {}", n), all_true.clone(), true));
        let mut one_false = all_true.clone();
        let last = one_false.len() - 1;
        one_false[last] = "0".into();
        cases.push((format!("long-and-last-false operands {}", n), one_false, false));
        cases.push((format!("long-or operands {}", n), ors.clone(), true));
        let mut no_true = ors.clone();
        let last = no_true.len() - 1;
        no_true[last] = "no".into();
        cases.push((format!("long-or-all-false operands {}", n), no_true, false));
        cases.push((format!("long-groups groups {}", n), groups.clone(), true));
        let mut bad_group = groups.clone();
        let k = bad_group.len() - 2;
        bad_group[k] = "false".into();
        cases.push((format!("long-groups-last-falsy groups {}", n), bad_group, false));
    }
    let depths: Vec<usize> = with_thresholds_usize(w.tier.pick(vec![10, 60], vec![10, 60, 400]), w.tier.pick(128, 512));
    for &d in &depths {
        for leaf in ["true", "false"] {
            let mut toks: Vec<String> = vec!["(".to_string(); d];
            toks.push(leaf.to_string());
            toks.extend(vec![")".to_string(); d]);
            cases.push((format!("deep-groups depth {} leaf {}", d, leaf), toks, leaf == "true"));
            // every level also has a falsy disjunct in front: ( false or ( false or ( ... leaf ) ) )
            let mut toks: Vec<String> = vec![];
            for _ in 0..d {
                toks.extend(["(", "false", "or"].iter().map(|s| s.to_string()));
            }
            toks.push(leaf.to_string());
            toks.extend(vec![")".to_string(); d]);
            cases.push((format!("deep-or-groups depth {} leaf {}", d, leaf), toks, leaf == "true"));
        }
    }
    let rig = Rig::new();
    for (name, toks, exp) in cases {
        if let Some(r) = ref_eval(&toks) {
            assert_eq!(r, exp, "harness: the reference evaluator and the constructed expectation disagree on {}", name);
        }
        for consumer in 0..4usize {
            if !w.take() {
                continue;
            }
            let cj = json!({"phase": "scale", "name": name, "tokens": toks, "consumer": CONSUMERS[consumer], "expected": exp});
            w.begin(|| cj.clone());
            let got: Result<Result<bool, String>, String> = guarded(|| match consumer {
                0 => rig.run_not(&toks).and_then(|v| match v.as_str() {
                    "true" => Ok(false),
                    "false" => Ok(true),
                    o => Err(format!("not returned {:?}", o)),
                }),
                c => rig.run_script(c as u8, &toks),
            });
            w.add_transitions(1);
            match got {
                Err(p) => w.fail(&format!("scale:{}:panic", CONSUMERS[consumer]), &format!("{}: panic {}", name, p), cj),
                Ok(g) if g == Ok(exp) => w.pass(true, hash64(&("scale", consumer, exp))),
                Ok(g) => w.fail(&format!("scale:{}:wrong-value", CONSUMERS[consumer]), &format!("{} through {}: expected {} got {:?}", name, CONSUMERS[consumer], exp, g), cj),
            }
        }
    }
}

/// Every evaluation stands for itself: after hundreds (thousands) of conditions in one run - well-formed
/// ones, malformed ones, ones whose command reports an error, ones whose command does not exist - the
/// next one is judged by the same rule, by all four consumers.
fn history(w: &mut Worker) {
    for n in w.tier.pick(vec![70usize, 300, 1000], vec![70usize, 300, 1000, 20000]) {
        for (what, line) in [
            ("well-formed", "x = not true and ( false or yes )"),
            ("malformed", "x = not not ( true"),
            ("failing-command", "x = not equals a"),
            ("unknown-command", "x = not nosuchcommandatall a"),
            ("failing-if", "if equals a\nend"),
            ("mixed", "x = not not ( true\ny = not equals a\nif ( no\nend\nz = not false"),
        ] {
            let text = format!(
                "i = set 0\nwhile less_than ${{i}} {}\ni = calc ${{i}} + 1\n{}\nend\nr1 = not not true\nr2 = not true\nr3 = not false or ( no and yes )\nif not true\nbad = set if\nend\nif false\nelseif not true\nbad = set elseif\nend\nwhile not true\nbad = set while\ngoto :out\nend\n:out\nif not not true\ngood = set yes\nend\nafter = set reached",
                n, line
            );
            scale_case(
                w,
                &format!("history {} conditions {}", what, n),
                &text,
                &[("i", Some(n.to_string())), ("r1", Some("true".into())), ("r2", Some("false".into())), ("r3", Some("true".into())), ("bad", None), ("good", Some("yes".into())), ("after", Some("reached".into()))],
            );
        }
    }
}

/// The same statement evaluated again after hundreds (thousands) of other statements - and a value and
/// a statement spelled with the same words evaluated in one run, in both orders - gives what it gave
/// the first time (a run keeps no memory of statements).
fn revisit(w: &mut Worker) {
    for n in w.tier.pick(vec![300usize, 5000], vec![300usize, 5000, 70000]) {
        // n distinct statements: i is odd <=> the statement is true
        let stmt = |i: usize| if i % 2 == 1 { format!("v{} and ( no or yes{} )", i, i) } else { format!("v{} and ( no or 0 ) or false", i) };
        let text = format!(
            "wrong = set 0\nfor pass in ${{passes}}\ni = set 0\nwhile less_than ${{i}} {n}\ni = calc ${{i}} + 1\nodd = calc ${{i}} % 2\nif equals ${{odd}} 1\nr = not v${{i}} and ( no or yes${{i}} )\nexp = set false\nelse\nr = not v${{i}} and ( no or 0 ) or false\nexp = set true\nend\nif not equals ${{r}} ${{exp}}\nwrong = calc ${{wrong}} + 1\nend\nend\nend\nafter = set reached",
            n = n
        );
        let _ = stmt;
        let text = format!("passes = array 1 2 3\n{}\nrelease ${{passes}}", text);
        scale_case(w, &format!("revisit statements {}", n), &text, &[("wrong", Some("0".into())), ("after", Some("reached".into()))]);
    }
    // the same words as one value and as a statement
    for words in ["true and false", "false or 0", "0 or no", "no and yes", "false or false"] {
        for value_first in [true, false] {
            let as_value = format!("v = set \"{}\"\nif ${{v}}\nvalue = set truthy\nelse\nvalue = set falsy\nend\nnv = not ${{v}}", words);
            let as_statement = format!("if {}\nstatement = set true\nelse\nstatement = set false\nend\nns = not {}", words, words);
            let text = if value_first { format!("{}\n{}\n{}", as_value, as_statement, as_value.replace("value =", "value2 =").replace("nv =", "nv2 =")) } else { format!("{}\n{}\n{}", as_statement, as_value, as_statement.replace("statement =", "statement2 =").replace("ns =", "ns2 =")) };
            let toks: Vec<String> = words.split(' ').map(String::from).collect();
            let st = ref_eval(&toks).unwrap_or(false);
            let mut expect: Vec<(&str, Option<String>)> = vec![("value", Some("truthy".into())), ("nv", Some("false".into())), ("statement", Some(st.to_string())), ("ns", Some((!st).to_string()))];
            if value_first {
                expect.push(("value2", Some("truthy".into())));
                expect.push(("nv2", Some("false".into())));
            } else {
                expect.push(("statement2", Some(st.to_string())));
                expect.push(("ns2", Some((!st).to_string())));
            }
            scale_case(w, &format!("revisit same-words {:?} {}", words, if value_first { "value-first" } else { "statement-first" }), &text, &expect);
        }
    }
}

/// Every sentence of 3..5 (thorough 6) tokens, and the same words with every run of two or more of them
/// held in ONE variable (a value with blanks in it - a single, truthy atom), evaluated in one run in both
/// orders and once more: each reading gives its own value, whatever was evaluated before it.
fn same_words_grouped(w: &mut Worker) {
    let lmax = w.tier.pick(5usize, 6usize);
    let sentences = Sentences::upto(lmax);
    for n in 3..=lmax {
        for seq in &sentences.cond[n] {
            let toks = spell(seq, "1", "0");
            let plain = match ref_eval(&toks) {
                Some(v) => v,
                None => continue,
            };
            for i in 0..n {
                for j in (i + 2)..=n {
                    if j - i == n && n > 3 {
                        continue; // the whole statement in one variable is the one-token case of revisit()
                    }
                    let span = toks[i..j].join(" ");
                    let mut grouped: Vec<String> = toks[..i].to_vec();
                    grouped.push(span.clone());
                    grouped.extend(toks[j..].iter().cloned());
                    if grouped.len() < 2 {
                        continue;
                    }
                    let gval = match ref_eval(&grouped) {
                        Some(v) => v,
                        None => continue,
                    };
                    let mut written: Vec<String> = toks[..i].to_vec();
                    written.push("${v}".to_string());
                    written.extend(toks[j..].iter().cloned());
                    for plain_first in [true, false] {
                        let g = |out: &str| format!("{} = not {}", out, written.join(" "));
                        let p = |out: &str| format!("{} = not {}", out, toks.join(" "));
                        let text = if plain_first { format!("v = set \"{}\"\n{}\n{}\n{}", span, p("p1"), g("g1"), p("p2")) } else { format!("v = set \"{}\"\n{}\n{}\n{}", span, g("g1"), p("p1"), g("g2")) };
                        let mut expect: Vec<(&str, Option<String>)> = vec![("p1", Some((!plain).to_string())), ("g1", Some((!gval).to_string()))];
                        if plain_first {
                            expect.push(("p2", Some((!plain).to_string())));
                        } else {
                            expect.push(("g2", Some((!gval).to_string())));
                        }
                        scale_case(w, &format!("same-words-grouped {:?} span {}..{} {}", toks.join(" "), i, j, if plain_first { "plain-first" } else { "grouped-first" }), &text, &expect);
                    }
                }
            }
        }
    }
}

pub fn worker(w: &mut Worker) {
    let tier = w.tier;
    scale(w);
    history(w);
    same_words_grouped(w);
    revisit(w);
    let rig = Rig::new();
    // pass 1: grammar sentences with true/false, generated from the (unambiguous) grammar by length
    let lmax = tier.pick(11usize, 14usize);
    let sentences = Sentences::upto(lmax);
    for n in 1..=lmax {
        for seq in &sentences.cond[n] {
            let toks = spell(seq, "true", "false");
            let nontrivial = seq.iter().any(|t| matches!(t, Tok::And | Tok::Or | Tok::Open));
            check(w, &rig, &toks, "grammar", nontrivial);
        }
    }
    // pass 2: truthiness pool, alone and inside small statements
    let mut pool: Vec<String> = vec![];
    for base in ["false", "no", "true", "yes"] {
        pool.extend(case_variants(base));
    }
    // the operator words are lower case only: every other spelling of them is an ordinary (truthy) value
    for base in ["and", "or", "not"] {
        pool.extend(case_variants(base).into_iter().filter(|v| v != base));
    }
    // words that are keywords or operators elsewhere (other shells, other languages, other places of
    // this language) are ordinary truthy values in a condition
    for s in ["then", "do", "done", "fi", "begin", "in", "is", "else", "elseif", "end", "endif", "xor", "nor", "&&", "||", "!", "==", "!=", "=", "<", ">", "-a", "-o", "-n", "-z", "?", ":", ";", ",", "{", "}", "[", "]"] {
        pool.push(s.to_string());
    }
    // one value that reads like a whole statement is still one value: not empty, not a falsy word, so truthy
    for s in ["true and false", "false or 0", "0 or no", "false and true", "not true", "( false )", "( no ) or 0", "no and yes", "a b", "false false", "0 0", "and", "or false"] {
        pool.push(s.to_string());
    }
    for s in ["0", "1", "00", "0.0", "", " ", "off", "n", "null", "False ", " false", "é", "0 ", "-0", "nO\n", "(0)", "(false)", "(no)", "()", "(x", "x)", "f(x)", ":)", "(no", "yes)", "and)", "(or"] {
        pool.push(s.to_string());
    }
    let commands = rig.ctx.commands.get_all_command_names();
    let is_cmd = |s: &str| rig.ctx.commands.exists(s) || commands.iter().any(|c| c == s);
    let frames: Vec<Vec<&str>> = vec![
        vec!["@"],
        vec!["@", "and", "true"],
        vec!["false", "or", "@"],
        vec!["(", "@", ")"],
        vec!["true", "and", "(", "false", "or", "@", ")"],
        vec!["@", "or", "false", "and", "true"],
    ];
    for v in &pool {
        if is_cmd(v) {
            continue; // an atom that is a command name is dispatched as a command: outside the property
        }
        for f in &frames {
            let toks: Vec<String> = f.iter().map(|t| if *t == "@" { v.clone() } else { t.to_string() }).collect();
            check(w, &rig, &toks, "truthiness", true);
        }
    }
    // a command in condition position: its output value is one value, judged by the truthiness table
    // whatever it looks like (the words of the condition syntax included)
    {
        let mut outs: Vec<String> = pool.clone();
        for s in ["and", "or", "(", ")", "not", "true and false", "false or true", "( false )", "a b"] {
            outs.push(s.to_string());
        }
        for v in &outs {
            let toks = vec!["giveback".to_string(), v.clone()];
            check_expect(w, &rig, &toks, "command-output", true, ref_truthy(Some(v.as_str())));
        }
        check_expect(w, &rig, &["giveback".to_string()], "command-output", true, false);
    }
    // absent value: `not` without arguments is "Missing condition" by documentation; an undefined
    // variable is the absent value a script can write
    {
        let toks = vec!["${c06_undefined}".to_string()];
        // bound by the runner to the empty text
        for consumer in 1..4u8 {
            if !w.take() {
                continue;
            }
            let cj = json!({"phase": "absent", "tokens": toks, "consumer": CONSUMERS[consumer as usize], "expected": false});
            w.begin(|| cj.clone());
            match guarded(|| rig.run_script(consumer, &toks)) {
                Ok(Ok(false)) => w.pass(true, hash64(&("absent", consumer))),
                other => w.fail("absent-value", &format!("undefined variable as condition: {:?}", other), cj),
            }
        }
    }
    // pass 3: grammar sentences with every pair of (truthy, falsy) spellings from a small pool
    let l3 = tier.pick(4usize, 5usize);
    let truthy = ["yes", "1", "x", "TRUE", "off"];
    let falsy = ["no", "0", "", "False", "NO"];
    for seq in sentences.cond[1..=l3].iter().flatten() {
        let has_t = seq.contains(&Tok::T);
        let has_f = seq.contains(&Tok::F);
        for (ti, t) in truthy.iter().enumerate() {
            for (fi, f) in falsy.iter().enumerate() {
                if (!has_t && ti > 0) || (!has_f && fi > 0) {
                    continue; // same statement again
                }
                let toks = spell(&seq, t, f);
                if is_cmd(&toks[0]) {
                    continue;
                }
                check(w, &rig, &toks, "spellings", true);
            }
        }
    }
}

pub fn replay(case: &Value) -> Result<String, String> {
    if let Some(r) = scale_replay(case) {
        return r;
    }
    let tokens: Vec<String> = case["tokens"]
        .as_array()
        .ok_or("no tokens")?
        .iter()
        .map(|v| v.as_str().unwrap_or("").to_string())
        .collect();
    let rig = Rig::new();
    let exp = case["expected"].as_bool().or_else(|| ref_eval(&tokens));
    let c = CONSUMERS.iter().position(|c| Some(*c) == case["consumer"].as_str()).unwrap_or(0);
    let got = guarded(|| match c {
        0 => rig.run_not(&tokens).map(|v| v == "false"),
        c => rig.run_script(c as u8, &tokens),
    });
    Ok(format!("reference={:?} implementation={:?}", exp, got))
}

pub fn crash_sig(_case: &Value, kind: &str) -> String {
    kind.to_string()
}

pub const RULE: &str = "every token sequence up to the length bound over {T,F,and,or,(,)} that the grammar cond := disj ('and' disj)* ; disj := atom ('or' atom)* ; atom := value | '(' cond? ')' accepts, spelled with true/false, through each of not (run_instruction), if, elseif, while (scripts with marker commands); then the truthiness pool (all 2^n case variants of false/no/true/yes and 27 other values, among them values that start or end with a parenthesis) in 6 statement frames; then a command in condition position handing back each value of that pool and the words and, or, (, ), not, 'true and false', 'false or true', '( false )' as its output (one value, judged by the truthiness table); then all sentences up to the second bound with 5x5 truthy/falsy spellings. Oracle: recursive-descent reference evaluator. A case is (statement, consumer); non-trivial when the statement has an operator or group; states = distinct (consumer, value, length) classes; transitions = real evaluations. Scale cases: conjunctions, disjunctions and sequences of groups with 50/300 (thorough 3000) operands, groups nested 10/60 (thorough 400) deep, each with its value flipped by the last operand, through all four consumers The truthiness pool also has every case variant of and / or / not other than the lower-case one, and 33 words that are keywords or operators elsewhere (then, do, fi, &&, ==, -a ...): all ordinary truthy values History: 70 / 300 / 1000 (thorough 20000) conditions of one kind (well-formed, malformed, failing command, unknown command, failing if, mixed) in one run, then not / if / elseif / while are judged as on a fresh state. Revisit: 300 / 5000 (thorough 70000) distinct statements evaluated in three passes; five word sequences evaluated as one value and as a statement in one run, in both orders. The pool holds 13 values that read like whole statements Same words grouped: every sentence of 3..5 (thorough 6) tokens over {1, 0, and, or, parentheses} and the same words with every run of two or more of them held in one variable (a single truthy atom), evaluated under not in one run in both orders and once more: each reading gives its own value.";
pub const ASSUMPTIONS: &[&str] = &["atoms that are names of registered commands are excluded (they are dispatched as commands)", "ill-formed statements are not constrained"];
pub const EXHAUSTIVE: bool = true;
pub const WALL_CAP_S: (u64, u64) = (50, 1500);
