//! C09 — wrapping a command in if / elseif / while / not / an alias does not change its arguments.
//! Engine E3: every value up to a length over the syntax alphabet, in first and second argument
//! position, through every wrapper; a capture command records what it receives.

use crate::engine::*;
use crate::util::*;
use duckscript::parser;
use duckscript::runner;
use duckscript::types::command::CommandResult;
use duckscript::types::instruction::InstructionType;
use duckscript::types::runtime::Context;
use serde_json::{json, Value};
use std::cell::RefCell;
use std::rc::Rc;

const SIGMA: [&str; 14] = ["a", " ", "\"", "#", "\\", "$", "{", "}", "%", "\n", "\r", "=", "\t", "é"];
const SPECIAL: [&str; 18] = ["${v}", "%{v}", "\\${v}", "${w}", "a b", "\"a b\"", "a  b", "x=y", "and", "or", "not", "(", ")", "true", "false", "al", "cap", "p"];
const WRAPPERS: [&str; 20] = ["direct", "if", "elseif", "while", "not", "alias-stored", "alias-passed", "function", "alias-of-not", "alias-of-not-stored", "alias-stored-then-refused-redefinition", "if-not", "while-not", "not-not", "if-alias", "alias-of-alias", "elseif-after-failed-elseif", "alias-chain-inner-default", "alias-chain-both-defaults", "alias-chain-three-levels"];

struct Rig {
    ctx: Context,
    got: Rc<RefCell<Vec<Vec<String>>>>,
    /// what the command `after` received (a probe placed behind the wrapping line)
    after: Rc<RefCell<Vec<Vec<String>>>>,
}

impl Rig {
    fn new() -> Rig {
        let mut ctx = sdk_context();
        let got: Rc<RefCell<Vec<Vec<String>>>> = Rc::new(RefCell::new(vec![]));
        let g = got.clone();
        ctx.commands
            .set(fn_command("cap", move |c| {
                let first = g.borrow().is_empty();
                g.borrow_mut().push(c.arguments.clone());
                CommandResult::Continue(Some(if first { "true" } else { "false" }.to_string()))
            }))
            .unwrap();
        let after: Rc<RefCell<Vec<Vec<String>>>> = Rc::new(RefCell::new(vec![]));
        let a2 = after.clone();
        ctx.commands
            .set(fn_command("after", move |c| {
                a2.borrow_mut().push(c.arguments.clone());
                CommandResult::Continue(None)
            }))
            .unwrap();
        Rig { ctx, got, after }
    }

    /// runs a script and returns what the probe command `after` received
    fn run_after(&self, script: &str, v: &str) -> Result<Vec<Vec<String>>, String> {
        self.run_after_vars(script, v).map(|(a, _)| a)
    }

    /// the same, with the final variables
    fn run_after_vars(&self, script: &str, v: &str) -> Result<(Vec<Vec<String>>, std::collections::HashMap<String, String>), String> {
        self.got.borrow_mut().clear();
        self.after.borrow_mut().clear();
        let mut ctx = self.ctx.clone();
        ctx.variables.insert("v".into(), v.to_string());
        let (env, _o, _e, _h) = quiet_env();
        match runner::run_script(script, ctx, Some(env)) {
            Ok(c) => Ok((self.after.borrow().clone(), c.variables)),
            Err(e) => Err(e.to_string()),
        }
    }

    /// `place` 0: the wrapping line at the top level of the script; 1: inside the body of a user
    /// function that was itself called with two arguments
    fn script(wrapper: usize, pos: usize, place: usize) -> String {
        let args = if pos == 0 { "${v} z" } else { "z ${v}" };
        let (defs, body): (&str, String) = match wrapper {
            0 => ("", format!("cap {}", args)),
            1 => ("", format!("if cap {}\nend", args)),
            2 => ("", format!("if false\nelseif cap {}\nend", args)),
            3 => ("", format!("while cap {}\nend", args)),
            4 => ("", format!("r = not cap {}", args)),
            5 => (
                "",
                if pos == 0 {
                    "alias al cap ${v}\nal z".to_string()
                } else {
                    "alias al cap z ${v}\nal".to_string()
                },
            ),
            6 => ("", format!("alias al cap\nal {}", args)),
            8 => ("", format!("alias al not cap\nr = al {}", args)),
            9 => (
                "",
                if pos == 0 {
                    "alias al not cap ${v}\nr = al z".to_string()
                } else {
                    "alias al not cap z ${v}\nr = al".to_string()
                },
            ),
            // a second definition under the same name is refused and must not touch the first
            10 => (
                "",
                if pos == 0 {
                    "alias al cap ${v}\nrr = alias al cap other\nal z".to_string()
                } else {
                    "alias al cap z ${v}\nrr = alias al cap z other\nal".to_string()
                },
            ),
            // wrappers inside wrappers
            11 => ("", format!("if not cap {}\nend", args)),
            12 => ("", format!("while not cap {}\ngoto :out\nend\n:out", args)),
            13 => ("", format!("r = not not cap {}", args)),
            14 => ("", format!("alias al cap\nif al {}\nend", args)),
            15 => ("", format!("alias a1 cap\nalias a2 a1\na2 {}", args)),
            16 => ("", format!("if false\nelseif equals a b\nelseif cap {}\nend", args)),
            // chains of aliases that carry some of the arguments themselves: what an alias stores comes
            // right behind its command word, in front of what the invocation adds
            17 => (
                "",
                if pos == 0 {
                    "alias a1 cap ${v}\nalias a2 a1\na2 z".to_string()
                } else {
                    "alias a1 cap z\nalias a2 a1\na2 ${v}".to_string()
                },
            ),
            18 => (
                "",
                if pos == 0 {
                    "alias a1 cap ${v}\nalias a2 a1 z\na2".to_string()
                } else {
                    "alias a1 cap z\nalias a2 a1 ${v}\na2".to_string()
                },
            ),
            19 => (
                "",
                if pos == 0 {
                    "alias a1 cap\nalias a2 a1 ${v}\nalias a3 a2\na3 z".to_string()
                } else {
                    "alias a1 cap\nalias a2 a1 z\nalias a3 a2\na3 ${v}".to_string()
                },
            ),
            _ => ("fn p\ncap ${1} ${2}\nreturn true\nend\n", format!("if p {}\nend", args)),
        };
        if place == 0 {
            format!("{}{}", defs, body)
        } else {
            format!("{}fn outer\n{}\nend\nouter outer-one outer-two", defs, body)
        }
    }

    /// any script, with `v` preset; what the capture command received on its first invocation
    fn run_text(&self, script: &str, v: &str) -> Result<Option<Vec<String>>, String> {
        self.got.borrow_mut().clear();
        let mut ctx = self.ctx.clone();
        ctx.variables.insert("v".into(), v.to_string());
        let (env, _o, _e, _h) = quiet_env();
        match runner::run_script(script, ctx, Some(env)) {
            Ok(_) => Ok(self.got.borrow().first().cloned()),
            Err(e) => Err(e.to_string()),
        }
    }

    /// what the capture command received on its first invocation (None: it was not invoked)
    fn run(&self, wrapper: usize, pos: usize, place: usize, v: &str, halt: Option<std::sync::Arc<WatchSlot>>) -> Result<Option<Vec<String>>, String> {
        self.got.borrow_mut().clear();
        let mut ctx = self.ctx.clone();
        ctx.variables.insert("v".into(), v.to_string());
        ctx.variables.insert("w".into(), "W".to_string());
        // positional variables of an enclosing call: a predicate function must see its own arguments
        ctx.variables.insert("1".into(), "outer-one".to_string());
        ctx.variables.insert("2".into(), "outer-two".to_string());
        let (env, _o, _e, h) = quiet_env();
        if let Some(slot) = halt {
            *slot.halt.lock().unwrap() = Some(h.clone());
        }
        match runner::run_script(&Rig::script(wrapper, pos, place), ctx, Some(env)) {
            Ok(_) => Ok(self.got.borrow().first().cloned()),
            Err(e) => Err(e.to_string()),
        }
    }

    /// The known defect, as a model: conditions and aliases turn the bound values back into a text line
    /// (transcribed from utils/eval.rs `parse`), parse that line and bind it again. Returns what the
    /// command would receive then (None: not invoked).
    fn predicted_by_reserialisation(&self, v: &str, pos: usize, function: bool) -> Option<Vec<String>> {
        let args: Vec<String> = if pos == 0 { vec!["cap".into(), v.into(), "z".into()] } else { vec!["cap".into(), "z".into(), v.into()] };
        let mut line = String::new();
        for a in &args {
            if a.is_empty() {
                line.push_str("\"\"");
            } else if a.starts_with('"') && a.ends_with('"') {
                line.push('\\');
                line.push_str(a);
                line.push('\\');
            } else {
                if a.contains(' ') {
                    line.push('"');
                }
                line.push_str(a);
                if a.contains(' ') {
                    line.push('"');
                }
            }
            line.push(' ');
        }
        let line = line.replace('\r', "").replace('\n', "").replace('\\', "\\\\");
        let ins = match parser::parse_text(&line) {
            Ok(v) if !v.is_empty() => v[0].clone(),
            _ => return None,
        };
        match &ins.instruction_type {
            InstructionType::Script(s) if s.command.as_deref() == Some("cap") && s.label.is_none() => (),
            _ => return None,
        }
        self.got.borrow_mut().clear();
        let mut ctx = self.ctx.clone();
        ctx.variables.insert("v".into(), v.to_string());
        ctx.variables.insert("w".into(), "W".to_string());
        let (mut env, _o, _e, _h) = quiet_env();
        let _ = runner::run_instruction(&mut ctx.commands, &mut ctx.variables, &mut ctx.state, &vec![], ins, 0, &mut env);
        let r = self.got.borrow().first().cloned();
        if function {
            // the function receives the values as ${1} ${2} and hands exactly two arguments on
            r.map(|a| vec![a.first().cloned().unwrap_or_default(), a.get(1).cloned().unwrap_or_default()])
        } else {
            r
        }
    }
}

/// input class of a value, for keeping known findings apart (first match wins)
fn class_of(v: &str) -> &'static str {
    if v.contains('\n') || v.contains('\r') {
        "line-break"
    } else if v.contains("${") || v.contains("%{") {
        "variable-reference"
    } else if v.contains('"') {
        "double-quote"
    } else if v.contains('\\') {
        "backslash"
    } else if v.contains('#') {
        "hash"
    } else if v.starts_with('=') {
        "leading-equals"
    } else if v.contains('\t') || v.ends_with(' ') || v.starts_with(' ') || v.contains("  ") {
        "blank-or-tab-edges"
    } else if v.contains('$') || v.contains('%') {
        "dollar-or-percent"
    } else if v.is_empty() {
        "empty"
    } else {
        "plain"
    }
}

pub fn bounds(tier: Tier) -> Value {
    match tier {
        Tier::Quick => json!({"value_len": 3, "alphabet": 14, "special_values": 18, "positions": 2, "wrappers": 17}),
        Tier::Thorough => json!({"value_len": 4, "alphabet": 14, "special_values": 18, "positions": 2, "wrappers": 17}),
    }
}


/// Many arguments and long values through every wrapper: hundreds of arguments, the first and the
/// last being a value of thousands of characters full of the characters a wrapper must not touch.
fn scale(w: &mut Worker, rig: &Rig) {
    let sizes: Vec<(usize, usize)> = w.tier.pick(vec![(300, 5_000)], vec![(300, 5_000), (3000, 100_000)]);
    for (nargs, vlen) in sizes {
        let unit = "a b ${v} %{w} \\ # \" = \t";
        let mut v = String::new();
        while v.len() < vlen {
            v.push_str(unit);
        }
        let mut written: Vec<String> = vec!["${v}".to_string()];
        let mut expected: Vec<String> = vec![v.clone()];
        for i in 0..nargs {
            written.push(format!("a{}", i));
            expected.push(format!("a{}", i));
        }
        written.push("${v}".to_string());
        expected.push(v.clone());
        let with = |head: &[&str]| -> String {
            let mut a: Vec<&str> = head[1..].to_vec();
            a.extend(written.iter().map(|s| s.as_str()));
            crate::render::line(None, head[0], &a)
        };
        let scripts: Vec<(&str, String)> = vec![
            ("direct", with(&["cap"])),
            ("if", format!("{}\nend", with(&["if", "cap"]))),
            ("elseif", format!("if false\n{}\nend", with(&["elseif", "cap"]))),
            ("while", format!("{}\nend", with(&["while", "cap"]))),
            ("not", with(&["not", "cap"])),
            ("alias-passed", format!("alias al cap\n{}", with(&["al"]))),
            ("alias-of-not", format!("alias al not cap\n{}", with(&["al"]))),
            ("function", format!("fn p\ncap ${{1}} ${{2}} ${{{}}}\nreturn true\nend\n{}\nend", nargs + 2, with(&["if", "p"]))),
        ];
        for (wrapper, script) in scripts {
            if !w.take() {
                continue;
            }
            let cj = json!({"kind": "scale", "wrapper": wrapper, "arguments": nargs + 2, "value_length": v.len(), "script": script, "value": v});
            w.begin(|| cj.clone());
            w.add_transitions(1);
            let exp: Vec<String> = if wrapper == "function" { vec![v.clone(), "a0".to_string(), v.clone()] } else { expected.clone() };
            match guarded(|| rig.run_text(&script, &v)) {
                Err(p) => w.fail("scale:panic", &format!("{}: panic {}", wrapper, p), cj),
                Ok(Err(e)) => w.fail(&format!("scale:run-failed:{}", wrapper), &format!("{} with {} arguments: {}", wrapper, nargs + 2, e), cj),
                Ok(Ok(got)) => {
                    if got.as_ref() == Some(&exp) {
                        w.pass(true, hash64(&("scale", wrapper)));
                    } else {
                        let (gl, first_diff) = match &got {
                            None => (0, "the command was not invoked".to_string()),
                            Some(g) => (g.len(), g.iter().zip(exp.iter()).position(|(a, b)| a != b).map(|i| format!("argument {} differs", i)).unwrap_or_else(|| "the lists differ in length".into())),
                        };
                        w.fail(&format!("scale:arguments-differ:{}", wrapper), &format!("{}: received {} arguments, expected {}; {}", wrapper, gl, exp.len(), first_diff), cj);
                    }
                }
            }
        }
    }
}

/// An alias stands for its command wherever it is invoked: at the bottom of a recursion that runs through
/// condition position (`if walk ...` inside walk), of every threshold depth, the alias and the direct
/// call of the same command give the same result - an alias of a command, an alias of an alias, an
/// alias in condition position.
fn alias_under_nesting(w: &mut Worker) {
    let depths: Vec<usize> = crate::util::with_thresholds_usize(w.tier.pick(vec![1, 10, 70, 300], vec![1, 10, 70, 300, 600]), w.tier.pick(256, 512));
    for &d in &depths {
        for how in ["condition", "assignment", "statement"] {
            let call = match how {
                "condition" => "if walk ${n}\nreturn true\nend\nreturn false",
                "assignment" => "sub = walk ${n}\nreturn ${sub}",
                _ => "walk ${n}\nreturn true",
            };
            let text = format!(
                "fn walk\nif equals ${{1}} 0\ndirect = equals a a\nvia = same_text a a\ndirect_no = equals a b\nvia_no = same_text a b\nd2 = concat x y\nv2 = joined x y\nv3 = deep x y\nif same_text a a\nbranch = set then\nelse\nbranch = set else\nend\nif same_text a b\nbranch_no = set then\nelse\nbranch_no = set else\nend\nreturn true\nend\nn = calc ${{1}} - 1\n{}\nend\nalias same_text equals\nalias joined concat\nalias deep joined\nr = walk {}\nafter = same_text a a",
                call, d
            );
            crate::util::scale_case(
                w,
                &format!("alias-under-nesting depth {} through {}", d, how),
                &text,
                &[
                    ("direct", Some("true".into())),
                    ("via", Some("true".into())),
                    ("direct_no", Some("false".into())),
                    ("via_no", Some("false".into())),
                    ("d2", Some("xy".into())),
                    ("v2", Some("xy".into())),
                    ("v3", Some("xy".into())),
                    ("branch", Some("then".into())),
                    ("branch_no", Some("else".into())),
                    ("r", Some("true".into())),
                    ("after", Some("true".into())),
                ],
            );
        }
    }
}

/// An alias stands for whatever its target NAME means when the alias is invoked: the name re-aliased, taken
/// by a function defined later, or re-defined - the alias and the direct call of the name agree each time,
/// as a value and as the condition of if / while / not.
fn alias_follows_its_name(w: &mut Worker) {
    let text = "alias pred contains\nalias probe pred\nd1 = pred \"hello world\" world\np1 = probe \"hello world\" world\nunalias pred\nalias pred starts_with\nd2 = pred \"hello world\" world\np2 = probe \"hello world\" world\nif probe \"hello world\" world\nb2 = set then\nelse\nb2 = set else\nend\nn2 = not probe \"hello world\" world\nalias same is_it\nfn is_it\nreturn yes-${1}\nend\ns1 = same a\nalias eqv equals\ne1 = eqv a a\nfn equals\nreturn false\nend\ne2 = eqv a a\ne2d = equals a a\nloops = set 0\nwhile eqv a a\nloops = calc ${loops} + 1\ngoto :out\nend\n:out after = set reached";
    crate::util::scale_case(
        w,
        "alias-follows-its-name retargeted",
        text,
        &[
            ("d1", Some("true".into())),
            ("p1", Some("true".into())),
            ("d2", Some("false".into())),
            ("p2", Some("false".into())),
            ("b2", Some("else".into())),
            ("n2", Some("true".into())),
            ("s1", Some("yes-a".into())),
            ("e1", Some("true".into())),
            ("e2", Some("false".into())),
            ("e2d", Some("false".into())),
            ("loops", Some("0".into())),
            ("after", Some("reached".into())),
        ],
    );
}

/// The branch taken follows the direct call's output, whatever the predicate's body looks like: a user
/// function that returns a value, returns its argument, falls off its end or returns bare after a
/// command that produced a (truthy) output of its own.
fn branch_follows_output(w: &mut Worker, rig: &Rig) {
    let bodies: [(&str, &str); 14] = [
        ("returns-true", "return true"),
        ("returns-argument", "return ${1}"),
        ("falls-off-end-after-output", "noted = set ${1}"),
        ("bare-return-after-output", "noted = set ${1}\nreturn"),
        ("falls-off-end-after-true", "noted = set true"),
        ("returns-false-after-true", "noted = set true\nreturn false"),
        // predicates that run blocks of their own (and leave them through return, or not at all)
        ("inner-if-returns", "if equals ${1} ${1}\nreturn ${1}\nend\nreturn false"),
        ("inner-if-then-falls-through", "if true\nnoted = set 1\nend\nreturn ${1}"),
        ("inner-if-else-returns", "if is_empty ${1}\nreturn false\nelse\nreturn ${1}\nend"),
        ("inner-loop-returns", "inner_i = set 0\nwhile less_than ${inner_i} 2\ninner_i = calc ${inner_i} + 1\nif equals ${inner_i} 2\nreturn ${1}\nend\nend\nreturn false"),
        ("calls-library-script-with-blocks", "found = array_contains ${1} ${1}\njoined = concat ${1} \"\"\nreturn ${joined}"),
        // predicates that call other user functions for a value - which may not come: the variable the call
        // was to fill is then undefined, whatever it held before
        ("valueless-call-into-a-set-variable", "r0 = set true\nr0 = helper_no_value\nreturn ${r0}"),
        ("call-with-value-into-a-set-variable", "r0 = set false\nr0 = helper_value ${1}\nreturn ${r0}"),
        ("valueless-call-then-is-defined", "r0 = set x\nr0 = helper_no_value\nd0 = is_defined r0\nreturn ${d0}"),
    ];
    let values = ["x", "", "false", "0", "no", "a b", "true"];
    for (bname, body) in bodies {
        for scoped in [false, true] {
            for v in values {
                let head = if scoped { "fn <scope> p" } else { "fn p" };
                let defs = format!("fn helper_no_value\nhelper_q = set 1\nend\nfn helper_value\nreturn ${{1}}\nend\n{}\n{}\nend\n", head, body);
                // the direct call decides
                let direct = guarded(|| rig.run_after_vars(&format!("{}r = p ${{v}} z", defs), v));
                let expected = match direct {
                    Ok(Ok((_, vars))) => crate::props::c06::ref_truthy(vars.get("r").map(|s| s.as_str())),
                    other => {
                        if w.take() {
                            let cj = json!({"kind": "branch", "body": bname, "value": v, "scoped": scoped, "wrapper": "direct"});
                            w.begin(|| cj.clone());
                            w.fail("branch:direct-call-failed", &format!("{:?}", other.map(|x| x.map(|y| y.0))), cj);
                        }
                        continue;
                    }
                };
                for (name, line) in [
                    ("if", "if p ${v} z\ntaken = set yes\nend"),
                    ("elseif", "if false\nelseif p ${v} z\ntaken = set yes\nend"),
                    ("while", "while p ${v} z\ntaken = set yes\ngoto :out\nend\n:out"),
                    ("not", "r = not p ${v} z\nif not ${r}\ntaken = set yes\nend"),
                    ("alias", "alias al p\nr = al ${v} z\nif ${r}\ntaken = set yes\nend"),
                    // an alias that is invoked again while it is still running: applied to itself, and around a
                    // function whose body uses it
                    ("alias-twice", "alias isnt not\nr = isnt isnt p ${v} z\nif ${r}\ntaken = set yes\nend"),
                    ("alias-reentered", "alias isnt not\nfn q\nif isnt p ${1} z\nreturn false\nend\nreturn true\nend\nr = isnt isnt q ${v}\nif ${r}\ntaken = set yes\nend"),
                    // chains that go on behind the wrapped call: exactly one branch is taken
                    ("if-else", "if p ${v} z\ntaken = set yes\nelse\nother = set yes\nend\nlast = set reached"),
                    ("elseif-else", "if false\nelseif p ${v} z\ntaken = set yes\nelse\nother = set yes\nend\nlast = set reached"),
                    ("elseif-elseif", "if false\nelseif p ${v} z\ntaken = set yes\nelseif true\nother = set yes\nend\nlast = set reached"),
                    ("second-elseif-else", "if false\nelseif false\nelseif p ${v} z\ntaken = set yes\nelse\nother = set yes\nend\nlast = set reached"),
                    ("elseif-elseif-else", "if false\nelseif p ${v} z\ntaken = set yes\nelseif p ${v} z\nother = set second\nelse\nother = set yes\nend\nlast = set reached"),
                    ("if-in-while-else", "n = set 0\nwhile less_than ${n} 2\nn = calc ${n} + 1\nif false\nelseif p ${v} z\ntaken = set yes\nelse\nother = set yes\nend\nend\nlast = set reached"),
                ] {
                    if !w.take() {
                        continue;
                    }
                    let script = format!("{}{}", defs, line);
                    let cj = json!({"kind": "branch", "body": bname, "value": v, "scoped": scoped, "wrapper": name, "script": script, "expected_taken": expected});
                    w.begin(|| cj.clone());
                    w.add_transitions(2);
                    // `if ${r}` on a value with a blank would be a two-token statement: the alias form is
                    // judged on its output directly
                    match guarded(|| rig.run_after_vars(&script, v)) {
                        Err(p) => w.fail("branch:panic", &p, cj),
                        Ok(Err(e)) => w.fail(&format!("branch:run-failed:{}", name), &e, cj),
                        Ok(Ok((_, vars))) => {
                            let taken = if name.starts_with("alias") { crate::props::c06::ref_truthy(vars.get("r").map(|s| s.as_str())) } else { vars.get("taken").map(|s| s == "yes").unwrap_or(false) };
                            let chain = line.contains("last = set reached");
                            let other = vars.get("other").map(|s| s == "yes").unwrap_or(false);
                            if chain && (vars.get("last").map(|s| s.as_str()) != Some("reached") || other == taken || vars.get("other").map(|s| s.as_str()) == Some("second")) {
                                w.fail(
                                    &format!("branch:{}:{}", name, bname),
                                    &format!("predicate body {:?} ({}) with value {:?} in a chain: taken={:?} other={:?} last={:?} (the direct call's output is {})", body, if scoped { "scoped" } else { "plain" }, v, vars.get("taken"), vars.get("other"), vars.get("last"), if expected { "truthy" } else { "falsy" }),
                                    cj,
                                );
                            } else if taken == expected {
                                w.pass(true, hash64(&("branch", name, bname, expected)));
                            } else {
                                w.fail(
                                    &format!("branch:{}:{}", name, bname),
                                    &format!("predicate body {:?} ({}) with value {:?}: the direct call's output is {}, `{}` {} the branch", body, if scoped { "scoped" } else { "plain" }, v, if expected { "truthy" } else { "falsy" }, name, if taken { "took" } else { "did not take" }),
                                    cj,
                                );
                            }
                        }
                    }
                }
            }
        }
    }
}

/// What a wrapped call leaves behind: after `if pred a b` (elseif / while / not) the variables a later
/// line can see - the positional variables above all - are the ones a direct call `pred a b` leaves.
/// Differential: the probe `after ${1} ${2} ${v} ${keep}` behind the wrapping line against the same
/// probe behind a direct call.
fn aftermath(w: &mut Worker, rig: &Rig) {
    let values = ["x", "a b", "", "${w}", "#", "é"];
    for v in values {
        for scoped in [false, true] {
            for place in 0..2usize {
                let head = if scoped { "fn <scope> p" } else { "fn p" };
                let defs = format!("{}\ncap ${{1}} ${{2}}\nreturn true\nend\nkeep = set kept\n", head);
                let probe = "after ${1} ${2} ${v} ${keep}";
                let wrap = |line: &str| -> String {
                    let body = format!("{}\n{}", line, probe);
                    if place == 0 {
                        format!("{}{}", defs, body)
                    } else {
                        format!("{}fn outer\n{}\nend\nouter outer-one outer-two", defs, body)
                    }
                };
                let direct = match guarded(|| rig.run_after(&wrap("r = p ${v} z"), v)) {
                    Ok(Ok(d)) => d,
                    other => {
                        if w.take() {
                            let cj = json!({"kind": "aftermath", "value": v, "scoped": scoped, "place": place, "wrapper": "direct"});
                            w.begin(|| cj.clone());
                            w.fail("aftermath:direct-call-failed", &format!("{:?}", other), cj);
                        }
                        continue;
                    }
                };
                for (name, line) in [
                    ("if", "if p ${v} z\nend"),
                    ("elseif", "if false\nelseif p ${v} z\nend"),
                    ("while", "n = set 0\nwhile p ${v} z\nn = calc ${n} + 1\nif greater_than ${n} 0\ngoto :out\nend\nend\n:out"),
                    ("not", "r = not p ${v} z"),
                ] {
                    if !w.take() {
                        continue;
                    }
                    let script = wrap(line);
                    let cj = json!({"kind": "aftermath", "value": v, "scoped": scoped, "place": place, "wrapper": name, "script": script});
                    w.begin(|| cj.clone());
                    w.add_transitions(2);
                    match guarded(|| rig.run_after(&script, v)) {
                        Err(p) => w.fail("aftermath:panic", &p, cj),
                        Ok(Err(e)) => w.fail(&format!("aftermath:run-failed:{}", name), &e, cj),
                        Ok(Ok(got)) => {
                            if got == direct {
                                w.pass(true, hash64(&("aftermath", name, scoped, place)));
                            } else {
                                w.fail(
                                    &format!("aftermath:{}:{}", name, if scoped { "scoped" } else { "plain" }),
                                    &format!("after `{} p ${{v}} z` (value {:?}, {}) the probe received {:?}; after the direct call it receives {:?}", name, v, if place == 0 { "top level" } else { "inside a function" }, got, direct),
                                    cj,
                                );
                            }
                        }
                    }
                }
            }
        }
    }
}

pub fn worker(w: &mut Worker) {
    let tier = w.tier;
    w.risky = true;
    w.set_case_limit_ms(5_000);
    let rig = Rig::new();
    scale(w, &rig);
    aftermath(w, &rig);
    branch_follows_output(w, &rig);
    alias_under_nesting(w);
    alias_follows_its_name(w);
    let vl = tier.pick(3usize, 4usize);
    let mut values: Vec<String> = Strings::new(&SIGMA[..], 0, vl).map(|v| v.concat()).collect();
    for s in SPECIAL {
        values.push(s.to_string());
    }
    // the wide one-character alphabet (util::wide_chars), alone and at the ends and in the middle of a value
    for c in wide_chars() {
        for v in [c.to_string(), format!("a{}", c), format!("{}a", c), format!("a {} b", c)] {
            if !values.contains(&v) {
                values.push(v);
            }
        }
    }
    for v in &values {
        for pos in 0..2usize {
            // the direct call is the reference
            let expected: Vec<String> = if pos == 0 { vec![v.clone(), "z".into()] } else { vec!["z".into(), v.clone()] };
            for (wr, place) in (0..WRAPPERS.len()).flat_map(|x| [(x, 0usize), (x, 1usize)]) {
                if !w.take() {
                    continue;
                }
                let cj = json!({"value": v, "position": pos, "wrapper": WRAPPERS[wr], "place": place});
                w.begin(|| cj.clone());
                let slot = w.watch_slot();
                let r = guarded(|| rig.run(wr, pos, place, v, Some(slot)));
                w.add_transitions(1);
                let nontrivial = class_of(v) != "plain";
                match r {
                    Err(p) => w.fail(&format!("panic:{}", class_of(v)), &format!("{} with value {:?}: panic {}", WRAPPERS[wr], v, p), cj),
                    Ok(Err(e)) => w.fail(&format!("run-failed:{}:{}", WRAPPERS[wr], class_of(v)), &format!("{} with value {:?}: {}", WRAPPERS[wr], v, e), cj),
                    Ok(Ok(got)) => {
                        if got.as_ref() == Some(&expected) {
                            if w.want_sample() && nontrivial && wr > 0 {
                                w.sample(cj.clone());
                            }
                            w.pass(nontrivial, hash64(&(wr, class_of(v))));
                        } else if wr == 0 {
                            w.fail("direct-call-differs", &format!("direct call with value {:?} received {:?}", v, got), cj);
                        } else {
                            // is it the recorded defect (values re-serialised to a line and parsed again)?
                            let pred = guarded(|| rig.predicted_by_reserialisation(v, pos, wr == 7)).unwrap_or(None);
                            let sig = if pred == got {
                                format!("eval-reserialise:{}", class_of(v))
                            } else {
                                format!("unexplained:{}:{}", WRAPPERS[wr], class_of(v))
                            };
                            w.fail(
                                &sig,
                                &format!("{} (position {}) with value {:?}: received {:?}, direct call receives {:?}", WRAPPERS[wr], pos, v, got, expected),
                                cj,
                            );
                        }
                    }
                }
            }
        }
    }
}

pub fn replay(case: &Value) -> Result<String, String> {
    if case["kind"].as_str() == Some("branch") {
        let rig = Rig::new();
        return Ok(format!("{:?}", rig.run_after_vars(case["script"].as_str().unwrap_or(""), case["value"].as_str().unwrap_or("")).map(|(_, v)| (v.get("taken").cloned(), v.get("r").cloned()))));
    }
    if case["kind"].as_str() == Some("aftermath") {
        let rig = Rig::new();
        return Ok(format!("{:?}", rig.run_after(case["script"].as_str().unwrap_or(""), case["value"].as_str().unwrap_or(""))));
    }
    if case["kind"].as_str() == Some("scale") && case.get("wrapper").is_none() {
        if let Some(r) = crate::util::scale_replay(case) {
            return r;
        }
    }
    if case["kind"].as_str() == Some("scale") {
        let rig = Rig::new();
        let got = rig.run_text(case["script"].as_str().unwrap_or(""), case["value"].as_str().unwrap_or(""));
        return Ok(match got {
            Ok(Some(g)) => format!("received {} arguments; lengths {:?}", g.len(), g.iter().map(|a| a.len()).take(6).collect::<Vec<_>>()),
            other => format!("{:?}", other),
        });
    }
    let rig = Rig::new();
    let v = case["value"].as_str().ok_or("value")?;
    let pos = case["position"].as_u64().unwrap_or(0) as usize;
    let wr = WRAPPERS.iter().position(|x| Some(*x) == case["wrapper"].as_str()).unwrap_or(0);
    let place = case["place"].as_u64().unwrap_or(0) as usize;
    Ok(format!(
        "through {}: {:?}; direct: {:?}; predicted by the re-serialisation model: {:?}",
        WRAPPERS[wr],
        rig.run(wr, pos, place, v, None),
        rig.run(0, pos, 0, v, None),
        rig.predicted_by_reserialisation(v, pos, wr == 7)
    ))
}

pub fn crash_sig(case: &Value, kind: &str) -> String {
    format!("{}:{}:{}", kind, case["wrapper"].as_str().unwrap_or("?"), class_of(case["value"].as_str().unwrap_or("")))
}

pub const RULE: &str = "values: every string up to the length bound over {a SP \" # \\\\ $ { } % LF CR = TAB e-acute} plus 8 special values (${v}, %{v}, \\\\${v}, ${w}, 'a b', '\"a b\"', 'a  b', x=y), held in a variable and written as ${v} in first or second argument position of a capture command invoked directly, as the condition of if / elseif / while, under not, through an alias that stores the value, through an alias that is passed the value, through a user function used as predicate, through aliases whose target is `not <predicate>` (value passed or stored), and through an alias that stores the value and whose name a second alias definition then tries to take (refused); also wrappers inside wrappers (if not, while not, not not, an alias in condition position, an alias of an alias, an elseif behind a failed elseif); every wrapping line both at the top level of the script and inside the body of a user function that was itself called with two arguments. Branch family: for six predicate bodies (returning true / its argument / false after a truthy command output, falling off the end or returning bare after a command that produced an output) x plain and <scope> x 7 values the branch taken by if / elseif / while / not / an alias is the one the direct call's output dictates. Aftermath family: behind `if / elseif / while / not <user function> ${v} z` (plain and <scope> function, at top level and inside a called function, 6 values) a probe receives ${1} ${2} ${v} and a caller variable exactly as it does behind the direct call. Scale cases: 302 (thorough 3002) arguments, the first and last a value of 5000 (thorough 100000) characters of such text, through the direct call and seven wrappers. Oracle: the arguments received through the wrapper equal those received by the direct call. A failing case is classified by whether the received arguments equal what re-serialising the values into a line and parsing/binding it again yields (the recorded defect, one signature per input class) or not (a new violation). Non-trivial: the value contains a character other than plain letters. Branch families: 14 predicate bodies (3 of them calling other user functions for a value that may not come; 5 of them with blocks of their own: inner if returning, falling through, if/else, a loop left by return, calls of library scripts) x 7 values x plain / scoped x 11 wrapping shapes, 6 of which go on behind the wrapped call (else, elseif, a second elseif, inside a while): exactly the branch decided by the direct call is taken, and the script reaches its last line. Three more wrappers: chains of aliases that store part of the arguments themselves (inner, both, three levels). Branch family also re-enters an alias: applied to itself, and around a function whose body uses it. Alias under nesting: at the bottom of a recursion of every threshold depth up to 300 (thorough 600) that runs through condition position, an assignment or a statement, an alias of a command, an alias of an alias and an alias in condition position give what the direct call gives. Alias follows its name: an alias of a name that is re-aliased, taken by a function defined later or re-defined runs what the name means when the alias is invoked (value, if, while, not)";
pub const ASSUMPTIONS: &[&str] = &["the capture command returns true on its first call and false afterwards (so a while loop ends)", "classification of known findings uses the real parser and binder on a transcription of the line building in utils/eval.rs"];
pub const EXHAUSTIVE: bool = true;
pub const WALL_CAP_S: (u64, u64) = (55, 1500);
