//! C10 — command errors are reported, positioned and survivable (or fatal when asked).
//! Engine E3: every program made of up to k error sites (context x error kind x leading blank
//! lines) x exit_on_error schedule x run mode (text, file, file including the failing file),
//! against the error protocol model.

use crate::engine::*;
use crate::util::*;
use duckscript::runner;
use duckscript::types::error::ScriptError;
use serde_json::{json, Value};
use std::collections::BTreeMap;

#[derive(Clone, Copy, Debug, PartialEq, Eq, Hash)]
enum Ctx {
    Top,
    Function,
    ForBody,
    WhileBody,
    IfBranch,
    ElseBranch,
    ScriptCommand,
    Included,
    /// a function whose body holds the site, called from inside a for body (two iterations)
    FunctionCalledInLoop,
    /// a function whose body holds a for loop (two iterations) around the site
    LoopInFunction,
    /// the failing command is the condition of if / elseif / while, or the operand of not: the wrapping
    /// library command reports the error on its own line, and the script goes on with the next line
    CondIf,
    CondElseIf,
    CondWhile,
    NotOperand,
    /// a function whose body holds the site, called as the condition of an if (the function goes on after
    /// the error like any other call, returns true, and the branch is taken)
    FunctionInCondition,
    /// the same inside a for body (two iterations) with the call as the operand of `not`
    FunctionInConditionInLoop,
}
const CTXS: [Ctx; 16] = [
    Ctx::Top,
    Ctx::Function,
    Ctx::ForBody,
    Ctx::WhileBody,
    Ctx::IfBranch,
    Ctx::ElseBranch,
    Ctx::ScriptCommand,
    Ctx::Included,
    Ctx::FunctionCalledInLoop,
    Ctx::LoopInFunction,
    Ctx::CondIf,
    Ctx::CondElseIf,
    Ctx::CondWhile,
    Ctx::NotOperand,
    Ctx::FunctionInCondition,
    Ctx::FunctionInConditionInLoop,
];

#[derive(Clone, Copy, Debug, PartialEq, Eq, Hash)]
struct Site {
    ctx: Ctx,
    kind: u8,
    blanks: u8,
}

#[derive(Clone, Copy, Debug, PartialEq, Eq, Hash)]
enum RunMode {
    Text,
    File,
    FileIncluding,
}

struct Built {
    files: Vec<(String, String)>,
    /// per site: (message, 1-based line, file index or None for the main text)
    expect: Vec<(String, usize, usize)>,
    counters: Vec<(String, String)>,
    ctxs: Vec<Ctx>,
    /// per site: the line of the top-level instruction that wraps the site (a call in condition position),
    /// which a fatal failure may carry instead of the site's own line
    wrap_lines: Vec<Option<usize>>,
}

const REAL_FAILING: &str = "array_pop nohandle";
/// the message `array_join nohandle ,` reports when run alone (differential: the wording is not
/// part of the property, its propagation to the caller's line is)
fn script_cmd_message() -> String {
    thread_local! {
        static MSG: String = {
            let mut s = Session::new();
            match s.call("array_join", &["nohandle", ","]) {
                Out::Err(m) => m,
                o => format!("<{:?}>", o),
            }
        };
    }
    MSG.with(|m| m.clone())
}

fn site_line(i: usize, s: &Site, real_msg: &str) -> (String, String) {
    match s.ctx {
        Ctx::ScriptCommand => (format!("o{} = array_join nohandle ,", i), script_cmd_message()),
        _ => match s.kind {
            0 => (format!("o{} = trigger_error m{}", i, i), format!("m{}", i)),
            1 => (format!("o{} = assert_error \"a {}\"", i, i), format!("a {}", i)),
            2 => (format!("o{} = {}", i, REAL_FAILING), real_msg.to_string()),
            4 => (format!("o{} = array_join nohandle ,", i), script_cmd_message()),
            _ => (format!("o{} = trigger_error \"bad \\${{x}} z{}\"", i, i), format!("bad ${{x}} z{}", i)),
        },
    }
}

fn probes(i: usize) -> Vec<String> {
    vec![
        format!("e{} = get_last_error", i),
        format!("l{} = get_last_error_line", i),
        format!("s{} = get_last_error_source", i),
    ]
}

/// exit mode: 0 never, 1 on from the start, 2 turned on after the first site, 3 on then off before the first site
/// `inc_prefix`: what an include directive puts in front of the included file's relative name (`./` for
/// scripts run from a file; the absolute scratch directory for a script run from text)
fn build(sites: &[Site], exit_mode: u8, mode: RunMode, real_msg: &str, inc_prefix: &str) -> Built {
    // file 0 is the script that holds the sites (or the main text); with FileIncluding file 1 is the
    // including root; every Included site adds its own file
    let mut files: Vec<(String, Vec<String>)> = vec![("main.ds".into(), vec![])];
    let mut expect = vec![];
    // (variable, expected final value; empty = must stay undefined) when the script runs to its end
    let mut counters: Vec<(String, String)> = vec![];
    let mut wrap_lines: Vec<Option<usize>> = vec![];
    {
        let l = &mut files[0].1;
        l.push("x = set X".into());
        match exit_mode {
            1 => l.push("exit_on_error true".into()),
            3 => {
                l.push("exit_on_error true".into());
                l.push("r = exit_on_error false".into());
            }
            _ => (),
        }
    }
    for (i, s) in sites.iter().enumerate() {
        let (line, msg) = site_line(i, s, real_msg);
        let mut block: Vec<String> = vec![];
        let pad = |b: &mut Vec<String>| {
            if s.blanks == 3 {
                // statements that touch the error record and the mode without being errors
                b.push(format!("set_error \"noise {}\"", i));
                b.push("qq = exit_on_error".into());
                return;
            }
            for k in 0..s.blanks {
                b.push(if k == 0 { String::new() } else { "# note".into() });
            }
        };
        // returns the index (within block) of the site line
        let mut site_idx = 0usize;
        let mut wrap_idx: Option<usize> = None;
        match s.ctx {
            Ctx::Top | Ctx::ScriptCommand => {
                pad(&mut block);
                site_idx = block.len();
                block.push(line);
                block.extend(probes(i));
            }
            Ctx::Function => {
                block.push(format!("fn fun{}", i));
                pad(&mut block);
                site_idx = block.len();
                block.push(line);
                block.extend(probes(i));
                block.push("end".into());
                block.push(format!("fun{}", i));
            }
            Ctx::FunctionInCondition => {
                block.push(format!("fn fun{}", i));
                pad(&mut block);
                site_idx = block.len();
                block.push(line);
                block.extend(probes(i));
                block.push("return true".into());
                block.push("end".into());
                wrap_idx = Some(block.len());
                block.push(format!("if fun{}", i));
                block.push(format!("taken{} = set yes", i));
                block.push("end".into());
                counters.push((format!("taken{}", i), "yes".to_string()));
            }
            Ctx::FunctionInConditionInLoop => {
                block.push(format!("fn fun{}", i));
                pad(&mut block);
                site_idx = block.len();
                block.push(line);
                block.extend(probes(i));
                block.push("return true".into());
                block.push("end".into());
                block.push(format!("arr{} = array one two", i));
                block.push(format!("for it{} in ${{arr{}}}", i, i));
                wrap_idx = Some(block.len());
                block.push(format!("neg{} = not fun{}", i, i));
                block.push(format!("cnt{} = set \"${{cnt{}}}${{neg{}}}\"", i, i, i));
                block.push("end".into());
                block.push(format!("release ${{arr{}}}", i));
                counters.push((format!("cnt{}", i), "falsefalse".to_string()));
            }
            Ctx::FunctionCalledInLoop => {
                block.push(format!("fn fun{}", i));
                pad(&mut block);
                site_idx = block.len();
                block.push(line);
                block.extend(probes(i));
                block.push("end".into());
                block.push(format!("arr{} = array one two", i));
                block.push(format!("for it{} in ${{arr{}}}", i, i));
                block.push(format!("fun{}", i));
                block.push(format!("cnt{} = set \"${{cnt{}}}x\"", i, i));
                block.push("end".into());
                block.push(format!("release ${{arr{}}}", i));
                counters.push((format!("cnt{}", i), "xx".to_string()));
            }
            Ctx::LoopInFunction => {
                block.push(format!("fn fun{}", i));
                block.push(format!("arr{} = array one two", i));
                block.push(format!("for it{} in ${{arr{}}}", i, i));
                pad(&mut block);
                site_idx = block.len();
                block.push(line);
                block.extend(probes(i));
                block.push(format!("cnt{} = set \"${{cnt{}}}x\"", i, i));
                block.push("end".into());
                block.push(format!("release ${{arr{}}}", i));
                block.push("end".into());
                block.push(format!("fun{}", i));
                counters.push((format!("cnt{}", i), "xx".to_string()));
            }
            Ctx::ForBody => {
                // two iterations: the loop must go on after the error
                block.push(format!("arr{} = array one two", i));
                block.push(format!("for it{} in ${{arr{}}}", i, i));
                pad(&mut block);
                site_idx = block.len();
                block.push(line);
                block.extend(probes(i));
                block.push(format!("cnt{} = set \"${{cnt{}}}x\"", i, i));
                block.push("end".into());
                block.push(format!("release ${{arr{}}}", i));
                counters.push((format!("cnt{}", i), "xx".to_string()));
            }
            Ctx::WhileBody => {
                // two iterations: the loop must go on after the error
                block.push(format!("w{} = set go", i));
                block.push(format!("while not equals ${{w{}}} gogogo", i));
                pad(&mut block);
                site_idx = block.len();
                block.push(line);
                block.extend(probes(i));
                block.push(format!("w{} = set \"${{w{}}}go\"", i, i));
                block.push("end".into());
                counters.push((format!("w{}", i), "gogogo".to_string()));
            }
            Ctx::IfBranch => {
                // the else branch must not run after an error in the then branch
                block.push("if true".into());
                pad(&mut block);
                site_idx = block.len();
                block.push(line);
                block.extend(probes(i));
                block.push("else".into());
                block.push(format!("wrong{} = set reached", i));
                block.push("end".into());
                counters.push((format!("wrong{}", i), String::new()));
            }
            Ctx::ElseBranch => {
                block.push("if false".into());
                block.push("y = set 1".into());
                block.push("else".into());
                pad(&mut block);
                site_idx = block.len();
                block.push(line);
                block.extend(probes(i));
                block.push("end".into());
            }
            Ctx::CondIf | Ctx::CondElseIf | Ctx::CondWhile | Ctx::NotOperand => {
                // the failing command without its output variable, in front of it the wrapping keyword
                let bare = line.splitn(2, " = ").nth(1).unwrap_or(&line).to_string();
                pad(&mut block);
                match s.ctx {
                    Ctx::CondIf => {
                        site_idx = block.len();
                        block.push(format!("if {}", bare));
                        block.extend(probes(i));
                        block.push("end".into());
                    }
                    Ctx::CondElseIf => {
                        block.push("if false".into());
                        block.push("y = set 1".into());
                        site_idx = block.len();
                        block.push(format!("elseif {}", bare));
                        block.extend(probes(i));
                        block.push("end".into());
                    }
                    Ctx::CondWhile => {
                        site_idx = block.len();
                        block.push(format!("while {}", bare));
                        block.extend(probes(i));
                        block.push(format!("goto :past{}", i));
                        block.push("end".into());
                        block.push(format!(":past{}", i));
                    }
                    _ => {
                        site_idx = block.len();
                        block.push(format!("o{} = not {}", i, bare));
                        block.extend(probes(i));
                    }
                }
            }
            Ctx::Included => {
                let mut inc: Vec<String> = vec![];
                pad(&mut inc);
                let idx = inc.len();
                inc.push(line);
                inc.extend(probes(i));
                let fname = format!("sub/inc{}.ds", i);
                files.push((fname.clone(), inc));
                expect.push((msg.clone(), idx + 1, files.len() - 1));
                wrap_lines.push(None);
                files[0].1.push(format!("!include_files {}{}", inc_prefix, fname));
                if exit_mode == 2 && i == 0 {
                    files[0].1.push("exit_on_error true".into());
                }
                continue;
            }
        }
        let base = files[0].1.len();
        expect.push((msg, base + site_idx + 1, 0));
        wrap_lines.push(wrap_idx.map(|x| base + x + 1));
        files[0].1.extend(block);
        if exit_mode == 2 && i == 0 {
            files[0].1.push("exit_on_error true".into());
        }
    }
    files[0].1.push("done = set yes".into());
    let mut out: Vec<(String, String)> = files.into_iter().map(|(n, l)| (n, l.join("\n"))).collect();
    if mode == RunMode::FileIncluding {
        out.push(("root.ds".into(), "# root\n!include_files ./main.ds\nroot_done = set yes".into()));
    }
    Built { files: out, expect, counters, ctxs: sites.iter().map(|s| s.ctx).collect(), wrap_lines }
}

pub fn bounds(tier: Tier) -> Value {
    match tier {
        Tier::Quick => json!({"sites_per_program": 2, "contexts": 16, "error_kinds": 4, "leading_lines": ["none", "blank", "blank+comment", "set_error+exit_on_error query"], "exit_on_error_schedules": 4, "run_modes": 3}),
        Tier::Thorough => json!({"sites_per_program": 3, "contexts": 16, "error_kinds": 4, "leading_lines": ["none", "blank", "blank+comment", "set_error+exit_on_error query"], "exit_on_error_schedules": 4, "run_modes": 3}),
    }
}

fn run_case(w: &mut Worker, sites: &[Site], exit_mode: u8, mode: RunMode, real_msg: &str) {
    let inc_prefix = if mode == RunMode::Text { format!("{}/", w.scratch.join("c10").to_string_lossy()) } else { "./".to_string() };
    let b = build(sites, exit_mode, mode, real_msg, &inc_prefix);
    let cj = json!({"sites": sites.iter().map(|s| json!([format!("{:?}", s.ctx), s.kind, s.blanks])).collect::<Vec<_>>(), "exit_mode": exit_mode, "mode": format!("{:?}", mode), "inc_prefix": inc_prefix,
        "files": b.files.iter().map(|(n, t)| json!({"name": n, "text": t})).collect::<Vec<_>>()});
    w.begin(|| cj.clone());
    let slot = w.watch_slot();
    let r = guarded(|| execute(&b, exit_mode, mode, &w.scratch, Some(slot)));
    w.add_transitions(1);
    match r {
        Err(p) => w.fail("panic", &p, cj),
        Ok(Ok(class)) => {
            if w.want_sample() && sites.len() > 1 && w.idx() % 11 == 0 {
                w.sample(cj.clone());
            }
            w.pass(true, class)
        }
        Ok(Err((sig, what))) => {
            let ctx = sites.iter().map(|s| format!("{:?}", s.ctx)).collect::<Vec<_>>().join("+");
            let _ = ctx;
            w.fail(&sig, &what, cj)
        }
    }
}

/// two source tags name the same file (the spelling of the path is not part of the property)
fn same_source(a: &str, b: &str) -> bool {
    if a == b {
        return true;
    }
    if a.is_empty() || b.is_empty() {
        return false;
    }
    match (std::fs::canonicalize(a), std::fs::canonicalize(b)) {
        (Ok(x), Ok(y)) => x == y,
        _ => false,
    }
}

fn execute(b: &Built, exit_mode: u8, mode: RunMode, scratch: &std::path::Path, slot: Option<std::sync::Arc<WatchSlot>>) -> Result<u64, (String, String)> {
    // scripts run from files live in a directory with an awkward name (a blank, a backslash, a multi-byte
    // and an upper-case letter, a '#'); the text mode writes absolute paths into directives and keeps a plain one
    let dir = if mode == RunMode::Text { scratch.join("c10") } else { scratch.join("c10 d\\ir É#1") };
    let ctx = sdk_context();
    let (env, _o, _e, h) = quiet_env();
    if let Some(s) = slot {
        // a run that does not end is halted by the watchdog and then fails the oracle below
        *s.halt.lock().unwrap() = Some(h);
    }
    let mut paths: Vec<String> = vec![];
    let has_included = b.files.iter().any(|(n, _)| n.starts_with("sub/"));
    let result = match mode {
        RunMode::Text => {
            if has_included {
                // the text names its included files by absolute path
                let _ = std::fs::remove_dir_all(&dir);
                std::fs::create_dir_all(dir.join("sub")).map_err(|e| ("harness-io".to_string(), e.to_string()))?;
                for (n, t) in &b.files {
                    std::fs::write(dir.join(n), t).map_err(|e| ("harness-io".to_string(), e.to_string()))?;
                    paths.push(dir.join(n).to_string_lossy().to_string());
                }
            }
            runner::run_script(&b.files[0].1, ctx, Some(env))
        }
        _ => {
            let _ = std::fs::remove_dir_all(&dir);
            std::fs::create_dir_all(dir.join("sub")).map_err(|e| ("harness-io".to_string(), e.to_string()))?;
            for (n, t) in &b.files {
                std::fs::write(dir.join(n), t).map_err(|e| ("harness-io".to_string(), e.to_string()))?;
                paths.push(dir.join(n).to_string_lossy().to_string());
            }
            let root = if mode == RunMode::FileIncluding { dir.join("root.ds") } else { dir.join("main.ds") };
            runner::run_script_file(&root.to_string_lossy(), ctx, Some(env))
        }
    };
    // expected source text per file index
    let source_of = |fi: usize| -> String {
        match mode {
            RunMode::Text => {
                if fi == 0 {
                    String::new()
                } else {
                    std::fs::canonicalize(&paths[fi]).map(|p| p.to_string_lossy().to_string()).unwrap_or_default()
                }
            }
            RunMode::File => {
                if fi == 0 {
                    paths[0].clone()
                } else {
                    // included files are tagged with the canonical path
                    std::fs::canonicalize(&paths[fi]).map(|p| p.to_string_lossy().to_string()).unwrap_or_default()
                }
            }
            RunMode::FileIncluding => std::fs::canonicalize(&paths[fi]).map(|p| p.to_string_lossy().to_string()).unwrap_or_default(),
        }
    };
    // which site is the first fatal one
    let fatal: Option<usize> = match exit_mode {
        1 => {
            if b.expect.is_empty() {
                None
            } else {
                Some(0)
            }
        }
        2 => {
            if b.expect.len() > 1 {
                Some(1)
            } else {
                None
            }
        }
        _ => None,
    };
    match (result, fatal) {
        (Ok(c), None) => {
            let vars: BTreeMap<String, String> = sorted_vars(&c.variables);
            if vars.get("done").map(|s| s.as_str()) != Some("yes") {
                return Err(("script-did-not-continue".into(), format!("the script did not reach its last line: {:?}", vars)));
            }
            for (i, (msg, line, fi)) in b.expect.iter().enumerate() {
                let get = |k: &str| vars.get(&format!("{}{}", k, i)).cloned();
                let has_output = !matches!(b.ctxs.get(i), Some(Ctx::CondIf) | Some(Ctx::CondElseIf) | Some(Ctx::CondWhile));
                if has_output && get("o") != Some("false".into()) {
                    return Err(("output-not-false".into(), format!("site {}: output variable is {:?}", i, get("o"))));
                }
                if get("e") != Some(msg.clone()) {
                    return Err(("last-error-message".into(), format!("site {}: get_last_error {:?}, expected {:?}", i, get("e"), msg)));
                }
                if get("l") != Some(line.to_string()) {
                    return Err(("last-error-line".into(), format!("site {}: get_last_error_line {:?}, expected {}", i, get("l"), line)));
                }
                let src = source_of(*fi);
                if !same_source(&get("s").unwrap_or_default(), &src) {
                    return Err(("last-error-source".into(), format!("site {}: get_last_error_source {:?}, expected {:?}", i, get("s"), src)));
                }
            }
            for (name, value) in &b.counters {
                let got = vars.get(name).cloned().unwrap_or_default();
                if got != *value {
                    return Err((
                        "block-did-not-continue".into(),
                        format!("after the error the enclosing block did not go on as written: {} = {:?}, expected {:?}", name, got, value),
                    ));
                }
            }
            Ok(hash64(&("ok", b.expect.len(), exit_mode)))
        }
        (Ok(c), Some(k)) => Err((
            "exit_on_error-did-not-stop".into(),
            format!("exit_on_error was on but the script ran on after site {} (done={:?})", k, c.variables.get("done")),
        )),
        (Err(e), None) => Err(("unexpected-failure".into(), format!("the run failed: {}", e))),
        (Err(e), Some(k)) => {
            let (msg, line, fi) = &b.expect[k];
            match &e {
                ScriptError::Runtime(m, meta) => {
                    let meta = meta.clone().unwrap_or_default();
                    if m != msg {
                        return Err(("fatal-message".into(), format!("failure message {:?}, expected {:?}", m, msg)));
                    }
                    // a site inside a function that runs in condition position: the failure may carry the line of
                    // the instruction the runner was executing (the wrapping line) instead of the site's own
                    let wrap = b.wrap_lines.get(k).copied().flatten();
                    if meta.line != Some(*line) && !(wrap.is_some() && meta.line == wrap) {
                        return Err(("fatal-line".into(), format!("failure line {:?}, expected {}", meta.line, line)));
                    }
                    let line = &meta.line.unwrap_or(*line);
                    let src = source_of(*fi);
                    if !same_source(&meta.source.clone().unwrap_or_default(), &src) {
                        return Err(("fatal-source".into(), format!("failure source {:?}, expected {:?}", meta.source, src)));
                    }
                    // the failure as it is reported (its Display text, what the command-line tool prints)
                    // carries the message and the line too, whatever the wording
                    let shown = e.to_string();
                    let has_line = shown.split(|c: char| !c.is_ascii_alphanumeric()).any(|t| t == line.to_string());
                    if !shown.contains(msg.as_str()) || !has_line {
                        return Err(("fatal-report-text".into(), format!("the failure is reported as {:?}: message {:?} and line {} expected in it", shown, msg, line)));
                    }
                    Ok(hash64(&("fatal", k, exit_mode)))
                }
                other => Err(("fatal-kind".into(), format!("failed with {}", other))),
            }
        }
    }
}


/// Many errors in one run: the latest wins after hundreds of them, in a loop and on hundreds of
/// different lines; the first error after exit_on_error is fatal with its own line however far down.
fn scale(w: &mut Worker) {
    let sizes: Vec<usize> = with_thresholds_usize(w.tier.pick(vec![300, 3000, 12000], vec![300, 3000, 12000, 30000, 70000]), w.tier.pick(1024, 16384));
    for &n in &sizes {
        // a loop raising n errors
        let text = format!(
            "i = set 0\nwhile less_than ${{i}} {n}\ni = calc ${{i}} + 1\no = trigger_error \"loop error ${{i}}\"\nend\ne = get_last_error\nl = get_last_error_line\ndone = set yes",
            n = n
        );
        scale_case(w, &format!("errors-in-loop count {}", n), &text, &[("e", Some(format!("loop error {}", n))), ("l", Some("4".into())), ("o", Some("false".into())), ("done", Some("yes".into()))]);
        // n different failing lines
        let mut lines: Vec<String> = (1..=n).map(|k| format!("o{} = trigger_error m{}", k % 7, k)).collect();
        lines.push("e = get_last_error".into());
        lines.push("l = get_last_error_line".into());
        lines.push("done = set yes".into());
        scale_case(w, &format!("errors-on-lines count {}", n), &lines.join("\n"), &[("e", Some(format!("m{}", n))), ("l", Some(n.to_string())), ("done", Some("yes".into()))]);
        // fatal on line n + 2
        if !w.take() {
            continue;
        }
        let mut lines: Vec<String> = (1..=n).map(|k| format!("o = trigger_error m{}", k)).collect();
        lines.push("exit_on_error true".into());
        lines.push("o = trigger_error fatal".into());
        lines.push("done = set yes".into());
        let text = lines.join("\n");
        let cj = json!({"kind": "scale", "name": format!("fatal-far-down line {}", n + 2), "script": text});
        w.begin(|| cj.clone());
        w.add_transitions(1);
        let ctx = sdk_context();
        let (env, _o, _e, _h) = quiet_env();
        match guarded(|| runner::run_script(&text, ctx, Some(env))) {
            Err(p) => w.fail("scale:panic", &p, cj),
            Ok(Ok(_)) => w.fail("scale:exit_on_error-did-not-stop", &format!("{} errors, then exit_on_error, then an error: the script ran on", n), cj),
            Ok(Err(ScriptError::Runtime(m, meta))) => {
                let line = meta.and_then(|x| x.line);
                if m == "fatal" && line == Some(n + 2) {
                    w.pass(true, hash64(&"scale-fatal"));
                } else {
                    w.fail("scale:fatal-position", &format!("failure {:?} at line {:?}, expected \"fatal\" at line {}", m, line, n + 2), cj);
                }
            }
            Ok(Err(e)) => w.fail("scale:fatal-kind", &format!("failed with {}", e), cj),
        }
    }
}

/// The message is data: whatever its text looks like (placeholders of formatting libraries, percent
/// signs, brackets, quotes, words that read as false) it is what get_last_error returns and what a
/// fatal error carries, at top level, inside a function and behind an alias.
fn message_texts(w: &mut Worker) {
    const TEXTS: [&str; 44] = [
        "{}", "a {} b", "{} {}", "{0}", "{name}", "{{}}", "{:?}", "%s", "%d%%", "100%", "%", "a=b", "x: y", "[1]", "<a>", "'q'", "it's", "say \"hi\"",
        "back\\slash", "tab\there", "line\nbreak", " lead", "trail ", "é😀", "$", "$x", "#", "a # b", "false", "0", "no", "true", "Error", "-", "--flag", "a  b",
        // characters that do not show, at the ends and inside
        "\u{feff}bom first", "bom last\u{feff}", "zero\u{200b}width", "\u{a0}nbsp\u{a0}", "\u{202e}rtl", "nul\u{1}ctl", "e\u{301}", "\u{85}nel",
    ];
    for raw in TEXTS {
        // the table is written with Rust escapes for tab / line break / backslash
        let msg = raw.replace("\\t", "\t").replace("\\n", "\n").replace("\\\\", "\\");
        for cmd in ["trigger_error", "assert_error"] {
            for place in 0..3u8 {
                let raise = crate::render::line(Some("o"), cmd, &[&msg]);
                let (pre, call) = match place {
                    0 => (String::new(), raise.clone()),
                    1 => (format!("fn failing\n{}\nend\n", raise), "failing".to_string()),
                    _ => (format!("alias raise {}\n", cmd), crate::render::line(Some("o"), "raise", &[&msg])),
                };
                let text = format!("{}{}\ne = get_last_error\ndone = set yes", pre, call);
                scale_case(w, &format!("message-text {} place {} text {:?}", cmd, place, msg), &text, &[("e", Some(msg.clone())), ("o", Some("false".into())), ("done", Some("yes".into()))]);
                // and fatal
                if !w.take() {
                    continue;
                }
                let text = format!("{}exit_on_error true\n{}\ndone = set yes", pre, call);
                let cj = json!({"kind": "scale", "name": format!("message-text-fatal {} place {} text {:?}", cmd, place, msg), "script": text});
                w.begin(|| cj.clone());
                w.add_transitions(1);
                let ctx = sdk_context();
                let (env, _o, _e, _h) = quiet_env();
                match guarded(|| runner::run_script(&text, ctx, Some(env))) {
                    Err(p) => w.fail("message-text:panic", &p, cj),
                    Ok(Ok(_)) => w.fail("message-text:exit_on_error-did-not-stop", &format!("{} {:?} under exit_on_error: the script ran on", cmd, msg), cj),
                    Ok(Err(ScriptError::Runtime(m, _))) if m == msg => w.pass(true, hash64(&("message-text-fatal", place))),
                    Ok(Err(e)) => w.fail("message-text:fatal-message", &format!("{} {:?} under exit_on_error failed with {:?}", cmd, msg, e.to_string()), cj),
                }
            }
        }
    }
}

/// The latest error wins, whatever the two messages are: every ordered pair of a small pool that has the
/// empty message, a message of blanks, one that repeats the other and ordinary ones.
fn latest_wins(w: &mut Worker) {
    let msgs = ["", " ", "first", "first failure", "0", "false", "Error", "{}", "é"];
    for a in msgs {
        for b in msgs {
            for cmds in [("trigger_error", "trigger_error"), ("trigger_error", "assert_error"), ("assert_error", "trigger_error")] {
                let text = format!(
                    "{}\nea = get_last_error\nla = get_last_error_line\n{}\neb = get_last_error\nlb = get_last_error_line\ndone = set yes",
                    crate::render::line(Some("oa"), cmds.0, &[a]),
                    crate::render::line(Some("ob"), cmds.1, &[b])
                );
                scale_case(
                    w,
                    &format!("latest-wins {} {:?} then {} {:?}", cmds.0, a, cmds.1, b),
                    &text,
                    &[("oa", Some("false".into())), ("ob", Some("false".into())), ("ea", Some(a.to_string())), ("la", Some("1".into())), ("eb", Some(b.to_string())), ("lb", Some("4".into())), ("done", Some("yes".into()))],
                );
            }
        }
    }
}

/// An error that comes and goes: the condition of a loop that is already running reports an error in
/// one of its evaluations (an unknown handle for that one evaluation) and answers normally again
/// afterwards. The error is recorded with the line of the loop, the script goes on with the next
/// instruction - the first line of the body - and the loop goes on as written: its end comes back to
/// the condition, and the enclosing loops are not disturbed.
fn transient_errors(w: &mut Worker) {
    for bad_round in 1..=3u32 {
        for (form, cond) in [("while-command", "while not array_is_empty ${h}"), ("while-alias", "while notempty ${h}"), ("while-function", "while has_items ${h}")] {
            for nested in [false, true] {
                let inner = format!(
                    "arr = array a b c d\nh = set ${{arr}}\nrounds = set 0\n{}\nrounds = calc ${{rounds}} + 1\nx = array_pop ${{arr}}\nif equals ${{rounds}} {}\nh = set nohandle\nelse\nh = set ${{arr}}\nend\nend\nleft = array_length ${{arr}}\nrelease ${{arr}}",
                    cond, bad_round
                );
                let defs = "alias notempty not array_is_empty\nfn has_items\ne = array_is_empty ${1}\nr = not ${e}\nreturn ${r}\nend\n";
                let text = if nested {
                    format!("{}outer = set 0\nwhile less_than ${{outer}} 2\nouter = calc ${{outer}} + 1\n{}\ntotal = set \"${{total}}${{rounds}}\"\nend\nlast = set reached", defs, inner)
                } else {
                    format!("{}{}\nlast = set reached", defs, inner)
                };
                // four items, one popped per round; the failing evaluation still runs the body once
                let mut expect: Vec<(&str, Option<String>)> = vec![("rounds", Some("4".into())), ("left", Some("0".into())), ("last", Some("reached".into()))];
                if nested {
                    expect.push(("outer", Some("2".into())));
                    expect.push(("total", Some("44".into())));
                }
                scale_case(w, &format!("transient-error {} in evaluation {} {}", form, bad_round + 1, if nested { "nested" } else { "flat" }), &text, &expect);
            }
        }
    }
}

pub fn worker(w: &mut Worker) {
    let tier = w.tier;
    w.risky = true;
    w.set_case_limit_ms(20_000);
    scale(w);
    message_texts(w);
    transient_errors(w);
    latest_wins(w);
    w.set_case_limit_ms(1_000);
    let real_msg = {
        let mut s = Session::new();
        match s.call("array_pop", &["nohandle"]) {
            Out::Err(m) => m,
            o => format!("<{:?}>", o),
        }
    };
    let mut variants: Vec<Site> = vec![];
    for ctx in CTXS {
        for kind in 0..5u8 {
            if ctx == Ctx::ScriptCommand && kind > 0 {
                continue;
            }
            if kind == 4 && (ctx == Ctx::Top || ctx == Ctx::Included) {
                continue; // the same as the ScriptCommand context
            }
            if matches!(ctx, Ctx::CondIf | Ctx::CondElseIf | Ctx::CondWhile | Ctx::NotOperand) && (kind == 1 || kind == 3) {
                continue; // three kinds of failing command in condition position
            }
            for blanks in 0..4u8 {
                variants.push(Site { ctx, kind, blanks });
            }
        }
    }
    let modes = [RunMode::Text, RunMode::File, RunMode::FileIncluding];
    let mut go = |w: &mut Worker, sites: &[Site]| {
        for exit_mode in 0..4u8 {
            for mode in modes {
                if w.take() {
                    run_case(w, sites, exit_mode, mode, &real_msg);
                }
            }
        }
    };
    for a in &variants {
        go(w, &[*a]);
    }
    for a in &variants {
        for b in &variants {
            // in pairs the second site comes without lines in front or with the neutral statements
            if tier == Tier::Quick && (b.blanks == 1 || b.blanks == 2) {
                continue;
            }
            go(w, &[*a, *b]);
        }
    }
    if tier == Tier::Thorough {
        let small: Vec<Site> = variants.iter().filter(|s| (s.blanks == 1 && s.kind != 1) || (s.blanks == 3 && s.kind == 0)).cloned().collect();
        for a in &small {
            for b in &small {
                for c in &small {
                    go(w, &[*a, *b, *c]);
                }
            }
        }
    }
}

pub fn replay(case: &Value) -> Result<String, String> {
    if case["kind"].as_str() == Some("scale") {
        let text = case["script"].as_str().unwrap_or("");
        let (env, _o, _e, _h) = quiet_env();
        return Ok(match runner::run_script(text, sdk_context(), Some(env)) {
            Ok(c) => format!("{:?}", sorted_vars(&c.variables).into_iter().filter(|(k, _)| !k.starts_with('o')).collect::<Vec<_>>()),
            Err(e) => format!("failed: {}", e),
        });
    }
    let files: Vec<(String, String)> = case["files"]
        .as_array()
        .ok_or("files")?
        .iter()
        .map(|f| (f["name"].as_str().unwrap_or("").to_string(), f["text"].as_str().unwrap_or("").to_string()))
        .collect();
    let dir = scratch_root().join(format!("replay-c10-{}", std::process::id()));
    let _ = std::fs::remove_dir_all(&dir);
    std::fs::create_dir_all(dir.join("sub")).map_err(|e| e.to_string())?;
    for (n, t) in &files {
        std::fs::write(dir.join(n), t).map_err(|e| e.to_string())?;
    }
    let ctx = sdk_context();
    let (env, _o, _e, _h) = quiet_env();
    let r = match case["mode"].as_str().unwrap_or("Text") {
        "Text" => {
            // included files are named by absolute path: point them at the replay directory
            let text = match case["inc_prefix"].as_str() {
                Some(pre) if pre.starts_with('/') => files[0].1.replace(pre, &format!("{}/", dir.to_string_lossy())),
                _ => files[0].1.clone(),
            };
            runner::run_script(&text, ctx, Some(env))
        }
        "File" => runner::run_script_file(&dir.join("main.ds").to_string_lossy(), ctx, Some(env)),
        _ => runner::run_script_file(&dir.join("root.ds").to_string_lossy(), ctx, Some(env)),
    };
    let d = dir.to_string_lossy().to_string();
    let out = match r {
        Ok(c) => format!("{:?}", sorted_vars(&c.variables).into_iter().filter(|(k, _)| !k.starts_with("arr")).collect::<Vec<_>>()),
        Err(e) => format!("failed: {}", e),
    };
    let _ = std::fs::remove_dir_all(&dir);
    Ok(out.replace(&d, "<dir>"))
}

pub fn crash_sig(_case: &Value, kind: &str) -> String {
    kind.to_string()
}

pub const RULE: &str = "programs: every sequence of 1..k error sites, each site = context {top level, function body, for body, while body, if branch, else branch, inside a script-implemented library command, included file, a function called from a loop, a loop inside a function, as the condition of if / elseif / while and as the operand of not, inside a function that is called as the condition of an if or as the operand of not inside a for body} x error kind {trigger_error, assert_error with a message containing a space, a real failing command, a message containing the literal text ${x}, a failing script-implemented command} x lines in front of the site {none, a blank line, blank + comment, `set_error` + an `exit_on_error` query (statements that touch the error record and the mode without being errors)}; each site assigns an output variable and is followed by get_last_error / get_last_error_line / get_last_error_source probes; x exit_on_error schedule {never, on from the start, turned on after the first site, on then off before the first site} x run mode {text (included files named by absolute path), file, file that includes the file with the sites}. Oracle (error protocol): output variable 'false'; message, 1-based line and source file of the instruction the runner was executing (the caller's line for the script-implemented command, the included file's own path and line for included code); the latest error wins; the script reaches its last line and the enclosing blocks go on as written (a for body with two elements and a while body run twice, the else branch of an if whose then-branch failed does not run); under exit_on_error the run fails with Runtime(message, line, source) of the first error after it was turned on, and the text the failure is reported with contains that message and line. Scale cases: 300/3000 (thorough 30000) errors raised in a loop and on as many different lines (the latest wins, with its line), and a fatal error that far down after exit_on_error. Message texts: 36 awkward texts (format placeholders, percent signs, brackets, quotes, escapes, blanks at the ends, words that read as false, option look-alikes) x {trigger_error, assert_error} x {top level, inside a function, behind an alias} x {recorded, fatal}: the text comes back unchanged. evaluations = programs run. Transient errors: the condition of a running while loop (a command, an alias, a function) reports an error in its 2nd / 3rd / 4th evaluation only, flat and inside another loop: the body runs, the loop goes on to its natural end. Latest wins: every ordered pair of 9 messages (the empty one, a blank, one that repeats the other ...) x 3 pairs of commands: after the second error the queries show the second message and line. Scripts run from files live in a directory with a blank, a backslash, multi-byte and upper-case letters and a '#' in its name";
pub const ASSUMPTIONS: &[&str] = &["the message of the real failing command is taken from running that command alone (differential)", "a failing command in condition position makes the wrapping library command (if / elseif / while / not) report that error on its own line; the script then goes on with the next line, which is the first line of the body (what the body's own end / else lines do afterwards is not looked at: the generated blocks have no else and a while body leaves through goto)"];
pub const EXHAUSTIVE: bool = true;
pub const WALL_CAP_S: (u64, u64) = (55, 1500);
