//! C17 — encodings round-trip.
//! Engine E3: all texts up to a length over {a e-acute emoji NUL LF SP = U+FEFF}; all integers of a range
//! plus powers-of-two neighbourhoods; all JSON documents up to a depth/width; all small maps.

use crate::engine::*;
use crate::util::*;
use serde_json::{json, Map, Value};

const TSIG: [&str; 8] = ["a", "é", "😀", "\0", "\n", " ", "=", "\u{feff}"];
const PSIG: [&str; 9] = ["a", " ", "=", ":", "#", "!", "\\", "é", "\n"];

pub fn bounds(tier: Tier) -> Value {
    match tier {
        Tier::Quick => json!({"text_len": 5, "hex_upto": 65535, "json_depth": 2, "json_width": 2, "props_key_len": 2, "props_value_len": 2}),
        Tier::Thorough => json!({"text_len": 7, "hex_upto": 16777216, "json_depth": 3, "json_width": 2, "props_key_len": 2, "props_value_len": 4}),
    }
}

fn fail_kind(o: &Out) -> &'static str {
    match o {
        Out::Panic(_) => "panic",
        Out::Crash(_) => "crash",
        Out::Err(_) => "error",
        _ => "wrong-value",
    }
}

fn text_roundtrip(s: &mut Session, t: &str) -> Result<(), (String, String)> {
    // bytes_to_string(string_to_bytes(t)) == t
    let h = match s.call("string_to_bytes", &[t]) {
        Out::Val(Some(h)) => h,
        o => return Err((format!("string_to_bytes:{}", fail_kind(&o)), format!("string_to_bytes {:?}: {:?}", t, o))),
    };
    match s.call("bytes_to_string", &[&h]) {
        Out::Val(Some(x)) if x == t => (),
        o => return Err((format!("bytes_to_string:{}", fail_kind(&o)), format!("bytes_to_string(string_to_bytes({:?})) = {:?}", t, o))),
    }
    // base64_decode(base64_encode(bytes)) gives back the bytes
    let enc = match s.call("base64_encode", &[&h]) {
        Out::Val(Some(e)) => e,
        o => return Err((format!("base64_encode:{}", fail_kind(&o)), format!("base64_encode of {:?}: {:?}", t, o))),
    };
    if t.is_empty() && enc.is_empty() {
        // the empty text encodes to the empty text, which cannot be passed on as a value-less
        // argument list; decode of "" is exercised below through the argument
    }
    let h2 = match s.call("base64_decode", &[&enc]) {
        Out::Val(Some(h2)) => h2,
        o => return Err((format!("base64_decode:{}", fail_kind(&o)), format!("base64_decode({:?}) for text {:?}: {:?}", enc, t, o))),
    };
    if h2 == h {
        return Err(("base64_decode:same-handle".into(), "decode returned the handle of the encoded array".into()));
    }
    match (s.handle(&h), s.handle(&h2)) {
        (Some(SV::Bytes(a)), Some(SV::Bytes(b))) if a == b && a == t.as_bytes() => (),
        (a, b) => return Err(("base64:bytes-differ".into(), format!("text {:?}: bytes {:?} decoded {:?}", t, a, b))),
    }
    match s.call("bytes_to_string", &[&h2]) {
        Out::Val(Some(x)) if x == t => (),
        o => return Err((format!("base64-roundtrip:{}", fail_kind(&o)), format!("bytes_to_string(base64_decode(base64_encode({:?}))) = {:?}", t, o))),
    }
    s.call("release", &[&h]);
    s.call("release", &[&h2]);
    Ok(())
}

fn hex_roundtrip(s: &mut Session, n: u64) -> Result<(), (String, String)> {
    let ns = n.to_string();
    let e = match s.call("hex_encode", &[&ns]) {
        Out::Val(Some(e)) => e,
        o => return Err((format!("hex_encode:{}", fail_kind(&o)), format!("hex_encode {}: {:?}", n, o))),
    };
    match s.call("hex_decode", &[&e]) {
        Out::Val(Some(d)) if d == ns => Ok(()),
        o => Err((format!("hex_decode:{}", fail_kind(&o)), format!("hex_decode(hex_encode({})) = hex_decode({:?}) = {:?}", n, e, o))),
    }
}

/// the documented normalisation: scalars become strings, nulls are dropped
fn normalise(v: &Value) -> Option<Value> {
    match v {
        Value::Null => None,
        Value::Bool(b) => Some(Value::String(b.to_string())),
        Value::Number(n) => Some(Value::String(n.to_string())),
        Value::String(s) => Some(Value::String(s.clone())),
        Value::Array(a) => Some(Value::Array(a.iter().filter_map(normalise).collect())),
        Value::Object(m) => Some(Value::Object(m.iter().filter_map(|(k, v)| normalise(v).map(|x| (k.clone(), x))).collect())),
    }
}

/// exact decimal value of a JSON number text: (negative, significant digits, exponent of the last digit)
fn exact_decimal(t: &str) -> Option<(bool, String, i64)> {
    let t = t.trim();
    let (neg, rest) = match t.strip_prefix('-') {
        Some(r) => (true, r),
        None => (false, t.strip_prefix('+').unwrap_or(t)),
    };
    let (mant, exp) = match rest.find(|c| c == 'e' || c == 'E') {
        Some(i) => (&rest[..i], rest[i + 1..].parse::<i64>().ok()?),
        None => (rest, 0i64),
    };
    let (int, frac) = match mant.find('.') {
        Some(i) => (&mant[..i], &mant[i + 1..]),
        None => (mant, ""),
    };
    if int.is_empty() && frac.is_empty() {
        return None;
    }
    if !int.chars().all(|c| c.is_ascii_digit()) || !frac.chars().all(|c| c.is_ascii_digit()) {
        return None;
    }
    let mut digits: String = format!("{}{}", int, frac);
    let mut e = exp - frac.len() as i64;
    while digits.len() > 1 && digits.ends_with('0') {
        digits.pop();
        e += 1;
    }
    let digits = digits.trim_start_matches('0').to_string();
    if digits.is_empty() {
        return Some((false, "0".into(), 0));
    }
    Some((neg, digits, e))
}

/// does `got` equal `doc` up to the documented normalisation (scalars become strings, nulls are
/// dropped)? Numbers must keep their exact decimal value; their spelling may change (1.50 -> 1.5).
fn same_document(doc: &Value, got: &Value) -> bool {
    match (doc, got) {
        (Value::Bool(b), Value::String(s)) => *s == b.to_string(),
        (Value::Number(n), Value::String(s)) => {
            let a = exact_decimal(&n.to_string());
            a.is_some() && a == exact_decimal(s)
        }
        (Value::String(a), Value::String(b)) => a == b,
        (Value::Array(a), Value::Array(b)) => {
            let a: Vec<&Value> = a.iter().filter(|v| !v.is_null()).collect();
            a.len() == b.len() && a.iter().zip(b.iter()).all(|(x, y)| same_document(x, y))
        }
        (Value::Object(a), Value::Object(b)) => {
            let a: Vec<(&String, &Value)> = a.iter().filter(|(_, v)| !v.is_null()).collect();
            a.len() == b.len() && a.iter().all(|(k, v)| b.get(*k).map(|w| same_document(v, w)).unwrap_or(false))
        }
        _ => false,
    }
}

fn json_roundtrip(s: &mut Session, doc: &Value) -> Result<(), (String, String)> {
    let text = doc.to_string();
    let exp = normalise(doc);
    let before = s.handles().len();
    let h = match s.call_out("json_parse", &["--collection", &text], Some("out")) {
        Out::Val(h) => h,
        o => return Err((format!("json_parse:{}", fail_kind(&o)), format!("json_parse --collection {}: {:?}", text, o))),
    };
    let res = match (&h, &exp) {
        (None, None) => Ok(()),
        (None, Some(_)) => Err(("json_parse:no-output".to_string(), format!("json_parse --collection {} gave no output", text))),
        (Some(_), None) => Err(("json_parse:output-for-null".to_string(), format!("json_parse --collection {} gave {:?}", text, h))),
        (Some(h), Some(exp)) => match s.call("json_encode", &["--collection", h]) {
            Out::Val(Some(t2)) => match serde_json::from_str::<Value>(&t2) {
                Ok(v2) if same_document(doc, &v2) => Ok(()),
                Ok(v2) => Err(("json-roundtrip:wrong-document".to_string(), format!("{} came back as {} (expected {})", text, v2, exp))),
                Err(e) => Err(("json_encode:invalid-json".to_string(), format!("{} came back as unparsable {:?}: {}", text, t2, e))),
            },
            o => Err((format!("json_encode:{}", fail_kind(&o)), format!("json_encode --collection for {}: {:?}", text, o))),
        },
    };
    if let Some(h) = &h {
        if is_handle_text(h) {
            s.call("release", &["-r", h]);
        }
    }
    if res.is_ok() && s.handles().len() != before {
        // recursive release of what json_parse built must give back every handle
        let n = s.handles().len();
        if let Some(StateValue::SubState(m)) = s.state.get_mut("handles") {
            m.clear();
        }
        return Err(("json:handles-left".into(), format!("{} handles left after release -r of the parsed document {}", n - before, text)));
    }
    res
}

use duckscript::types::runtime::StateValue;

fn props_roundtrip(s: &mut Session, entries: &[(String, String)]) -> Result<(), (String, String)> {
    let m1 = match s.call("map", &[]) {
        Out::Val(Some(h)) => h,
        o => return Err(("map:failed".into(), format!("{:?}", o))),
    };
    for (k, v) in entries {
        match s.call("map_put", &[&m1, k, v]) {
            Out::Val(_) => (),
            o => return Err((format!("map_put:{}", fail_kind(&o)), format!("map_put {:?} {:?}: {:?}", k, v, o))),
        }
    }
    let text = match s.call("map_to_properties", &[&m1]) {
        Out::Val(Some(t)) => t,
        Out::Val(None) => String::new(),
        o => {
            s.call("release", &[&m1]);
            return Err((format!("map_to_properties:{}:{}", fail_kind(&o), class_of(entries)), format!("map_to_properties of {:?}: {:?}", entries, o)));
        }
    };
    let m2 = match s.call("map", &[]) {
        Out::Val(Some(h)) => h,
        o => return Err(("map:failed".into(), format!("{:?}", o))),
    };
    let r = s.call("map_load_properties", &[&m2, &text]);
    let got = s.handle(&m2);
    s.call("release", &[&m1]);
    s.call("release", &[&m2]);
    match r {
        Out::Val(_) => (),
        o => return Err((format!("map_load_properties:{}:{}", fail_kind(&o), class_of(entries)), format!("map_load_properties of {:?} (from {:?}): {:?}", text, entries, o))),
    }
    let exp: std::collections::BTreeMap<String, SV> = entries.iter().map(|(k, v)| (k.clone(), SV::S(v.clone()))).collect();
    match got {
        Some(SV::M(m)) if m == exp => Ok(()),
        other => Err((format!("properties-roundtrip:{}", class_of(entries)), format!("map {:?} written as {:?} read back as {:?}", entries, text, other))),
    }
}

/// coarse class of a failing map, from the input alone (used to keep distinct defects apart)
fn class_of(entries: &[(String, String)]) -> &'static str {
    let all: String = entries.iter().map(|(k, v)| format!("{}{}", k, v)).collect();
    if all.chars().any(|c| c as u32 > 0xffff) {
        "non-bmp-char"
    } else if all.chars().any(|c| c as u32 > 0x7f) {
        "non-ascii-char"
    } else if entries.iter().any(|(_, v)| v.ends_with(' ') || v.ends_with('\n')) {
        "value-ends-in-whitespace"
    } else {
        "ascii"
    }
}

const JKEYS: [&str; 4] = ["k", "a.b", "a b", "x[0]"];

fn json_leaves() -> Vec<Value> {
    vec![json!("a"), json!("a.b"), json!(""), json!(1), json!(1.5), json!(true), Value::Null]
}

/// number leaves at the edges of the integer and floating point ranges (used at depth <= 1)
fn json_number_leaves() -> Vec<Value> {
    ["0", "-1", "1.0", "-0.0", "0.1", "1e100", "1E-7", "2.50", "18446744073709551615", "9223372036854775808", "-9223372036854775808", "123456789012345678", "1.7976931348623157e308", "5e-324"]
        .iter()
        .map(|t| serde_json::from_str::<Value>(t).expect("number"))
        .collect()
}

/// every container of width <= 2 over `elems` (arrays: ordered pairs; objects: 1 or 2 distinct keys)
fn for_each_container(elems: &[Value], f: &mut dyn FnMut(Value)) {
    f(json!([]));
    for a in elems {
        f(json!([a]));
    }
    for a in elems {
        for b in elems {
            f(json!([a, b]));
        }
    }
    f(json!({}));
    for k in JKEYS {
        for a in elems {
            let mut m = Map::new();
            m.insert(k.to_string(), a.clone());
            f(Value::Object(m));
        }
    }
    for (i, k1) in JKEYS.iter().enumerate() {
        for k2 in JKEYS.iter().skip(i + 1) {
            for a in elems {
                for b in elems {
                    let mut m = Map::new();
                    m.insert(k1.to_string(), a.clone());
                    m.insert(k2.to_string(), b.clone());
                    f(Value::Object(m));
                }
            }
        }
    }
}

/// documents of exactly the given depth bound; the last level is generated lazily
fn for_each_doc(depth: usize, reduced: bool, f: &mut dyn FnMut(Value)) {
    let leaves = json_leaves();
    for l in &leaves {
        f(l.clone());
    }
    let mut elems: Vec<Value> = leaves.clone();
    for d in 1..=depth {
        if d == depth {
            for_each_container(&elems, f);
        } else {
            let mut next = leaves.clone();
            for_each_container(&elems, &mut |v| next.push(v));
            if reduced {
                // a covering subset: every leaf, one document per container shape, thinned to at most
                // 40 containers (evenly spaced) so that the next level stays enumerable
                let mut seen = std::collections::HashSet::new();
                next.retain(|x| !(x.is_array() || x.is_object()) || seen.insert(shape_of(x)));
                let containers: Vec<Value> = next.iter().filter(|x| x.is_array() || x.is_object()).cloned().collect();
                if containers.len() > 40 {
                    let step = containers.len() / 40 + 1;
                    let keep: Vec<Value> = containers.into_iter().step_by(step).collect();
                    next.retain(|x| !(x.is_array() || x.is_object()));
                    next.extend(keep);
                }
            }
            elems = next;
        }
    }
}

fn shape_of(v: &Value) -> String {
    match v {
        Value::Null => "n".into(),
        Value::Bool(_) => "b".into(),
        Value::Number(_) => "1".into(),
        Value::String(s) => format!("s{}", s.len().min(1)),
        Value::Array(a) => format!("[{}]", a.iter().map(shape_of).collect::<Vec<_>>().join(",")),
        Value::Object(m) => format!("{{{}}}", m.iter().map(|(k, v)| format!("{}:{}", k, shape_of(v))).collect::<Vec<_>>().join(",")),
    }
}


/// Sizes far beyond the enumerated ones: long texts, long and deep JSON documents, large maps.
fn scale(w: &mut Worker) {
    let sizes: Vec<usize> = w.tier.pick(vec![4095, 65537], vec![4095, 8192, 65537, 1_000_003]);
    for &n in &sizes {
        for variant in 0..2u8 {
            // a text of n bytes built by doubling; variant 1 has a two-byte character across the middle
            let mut text = format!("len = set 16\ns = set 0123456789abcdef\nwhile less_than ${{len}} {}\ns = set ${{s}}${{s}}\nlen = length ${{s}}\nend\n", n + 1);
            if variant == 0 {
                text.push_str(&format!("s = substring ${{s}} 0 {}\n", n));
            } else {
                let half = n / 2;
                text.push_str(&format!("h1 = substring ${{s}} 0 {}\nh2 = substring ${{s}} 0 {}\ns = set ${{h1}}é${{h2}}\nh1 = set done\nh2 = set done\n", half - 1, n - half - 1));
            }
            text.push_str("b = string_to_bytes ${s}\nt = bytes_to_string ${b}\nsame_bytes = equals ${t} ${s}\ne = base64_encode ${b}\nel = length ${e}\nb2 = base64_decode ${e}\nt2 = bytes_to_string ${b2}\nsame_base64 = equals ${t2} ${s}\nrelease ${b}\nrelease ${b2}\ns = set done\nt = set done\nt2 = set done\ne = set done");
            scale_case(
                w,
                &format!("long-text bytes {} variant {}", n, variant),
                &text,
                &[("same_bytes", Some("true".into())), ("same_base64", Some("true".into())), ("el", Some((n.div_ceil(3) * 4).to_string()))],
            );
        }
    }
    let counts: Vec<usize> = with_thresholds_usize(w.tier.pick(vec![10, 300, 6000], vec![10, 300, 3000, 6000, 30000, 70000]), w.tier.pick(1024, 16384));
    for &n in &counts {
        // a flat array of n numbers and an object of n members
        let arr = format!("[{}]", (1..=n).map(|i| i.to_string()).collect::<Vec<_>>().join(","));
        let arr_norm = format!("[{}]", (1..=n).map(|i| format!("\"{}\"", i)).collect::<Vec<_>>().join(","));
        let text = format!(
            "{}\nh = json_parse --collection ${{doc}}\nn = array_length ${{h}}\nout = json_encode --collection ${{h}}\nsame = equals ${{out}} ${{want}}\nrelease -r ${{h}}\ndoc = set done\nout = set done\nwant = set done",
            [crate::render::line(Some("doc"), "set", &[&arr]), crate::render::line(Some("want"), "set", &[&arr_norm])].join("\n")
        );
        scale_case(w, &format!("long-json-array items {}", n), &text, &[("n", Some(n.to_string())), ("same", Some("true".into()))]);
        let obj = format!("{{{}}}", (1..=n).map(|i| format!("\"k{}\":{}", i, i)).collect::<Vec<_>>().join(","));
        let text = format!(
            "{}\nh = json_parse --collection ${{doc}}\nn = map_size ${{h}}\nfirst = map_get ${{h}} k1\nlast = map_get ${{h}} k{}\nout = json_encode --collection ${{h}}\nh2 = json_parse --collection ${{out}}\nn2 = map_size ${{h2}}\nlast2 = map_get ${{h2}} k{}\nrelease -r ${{h}}\nrelease -r ${{h2}}\ndoc = set done\nout = set done",
            crate::render::line(Some("doc"), "set", &[&obj]),
            n,
            n
        );
        scale_case(
            w,
            &format!("wide-json-object members {}", n),
            &text,
            &[("n", Some(n.to_string())), ("first", Some("1".into())), ("last", Some(n.to_string())), ("n2", Some(n.to_string())), ("last2", Some(n.to_string()))],
        );
        // a map of n entries through the properties text and back
        let text = format!(
            "m = map\ni = set 0\nwhile less_than ${{i}} {n}\ni = calc ${{i}} + 1\nmap_put ${{m}} key.${{i}} \"value ${{i}} \"\nend\ntext = map_to_properties ${{m}}\nm2 = map\nmap_load_properties ${{m2}} ${{text}}\nn2 = map_size ${{m2}}\nfirst = map_get ${{m2}} key.1\nlast = map_get ${{m2}} key.{n}\nrelease ${{m}}\nrelease ${{m2}}\ntext = set done",
            n = n
        );
        scale_case(
            w,
            &format!("large-properties entries {}", n),
            &text,
            &[("n2", Some(n.to_string())), ("first", Some("value 1 ".into())), ("last", Some(format!("value {} ", n)))],
        );
    }
    // deep nesting
    let depths: Vec<usize> = w.tier.pick(vec![10, 60, 101, 127], vec![10, 60, 100, 101, 120, 126, 127]);
    for &d in &depths {
        let doc = format!("{}\"x\"{}", "[".repeat(d), "]".repeat(d));
        let text = format!(
            "{}\nh = json_parse --collection ${{doc}}\nout = json_encode --collection ${{h}}\nsame = equals ${{out}} ${{doc}}\nrelease -r ${{h}}",
            crate::render::line(Some("doc"), "set", &[&doc])
        );
        scale_case(w, &format!("deep-json-array depth {}", d), &text, &[("same", Some("true".into()))]);
    }
}

/// Several documents parsed one after the other into the SAME output variable, their handles kept
/// only inside another collection (an array, or a map), then encoded from there: each comes back as
/// what it was, whatever was parsed after it.
fn documents_in_sequence(w: &mut Worker) {
    let docs: [(&str, &str); 6] = [
        ("{\"a\":\"1\"}", "{\"a\":\"1\"}"),
        ("[1,2]", "[\"1\",\"2\"]"),
        ("{\"k\":{\"z\":[]}}", "{\"k\":{\"z\":[]}}"),
        ("[]", "[]"),
        ("[[\"x\"],{\"y\":true}]", "[[\"x\"],{\"y\":\"true\"}]"),
        ("{\"a\":\"1\"}", "{\"a\":\"1\"}"),
    ];
    for keep_in in ["array", "map", "variables"] {
        for n in 2..=docs.len() {
            let mut text = String::from(if keep_in == "map" { "docs = map\n" } else { "docs = array\n" });
            for (i, (d, _)) in docs.iter().take(n).enumerate() {
                text.push_str(&crate::render::line(Some("v"), "json_parse", &["--collection", d]));
                text.push('\n');
                match keep_in {
                    "array" => text.push_str("array_push ${docs} ${v}\n"),
                    "map" => text.push_str(&format!("map_put ${{docs}} k{} ${{v}}\n", i)),
                    _ => text.push_str(&format!("keep{} = set ${{v}}\n", i)),
                }
            }
            let mut expect: Vec<(String, Option<String>)> = vec![];
            for (i, (_, e)) in docs.iter().take(n).enumerate() {
                match keep_in {
                    "array" => text.push_str(&format!("h = array_get ${{docs}} {}\n", i)),
                    "map" => text.push_str(&format!("h = map_get ${{docs}} k{}\n", i)),
                    _ => text.push_str(&format!("h = set ${{keep{}}}\n", i)),
                }
                text.push_str(&format!("e{} = json_encode --collection ${{h}}\n", i));
                expect.push((format!("e{}", i), Some(e.to_string())));
            }
            text.push_str("after = set reached");
            expect.push(("after".to_string(), Some("reached".to_string())));
            let exp: Vec<(&str, Option<String>)> = expect.iter().map(|(k, v)| (k.as_str(), v.clone())).collect();
            scale_case(w, &format!("documents-in-sequence kept in {} count {}", keep_in, n), &text, &exp);
        }
    }
}

/// Between the two halves of a round trip the script applies a command of another kind to the handle
/// (an array command to bytes, a map command to an array ...): that command reports an error - and the
/// value behind the handle is what it was, so the second half gives back the original.
fn wrong_kind_in_between(w: &mut Worker) {
    let wrong: [&str; 12] = [
        "array_push ${h} x", "array_pop ${h}", "array_clear ${h}", "array_set ${h} 0 x", "array_remove ${h} 0", "map_put ${h} k v", "map_remove ${h} k", "map_clear ${h}",
        "map_load_properties ${h} a=1", "set_put ${h} x", "set_remove ${h} x", "set_clear ${h}",
    ];
    // (name, first half producing ${h}, second half producing ${back}, expected, kinds of commands that are NOT wrong for it)
    let trips: [(&str, &str, &str, &str, &str); 6] = [
        ("bytes", "h = string_to_bytes \"text é\"", "back = bytes_to_string ${h}", "text é", ""),
        ("base64", "h = base64_decode dGV4dA==", "back = base64_encode ${h}", "dGV4dA==", ""),
        ("json-array", "h = json_parse --collection [1,[2],{\\\"k\\\":3}]", "back = json_encode --collection ${h}", "[\"1\",[\"2\"],{\"k\":\"3\"}]", "array_"),
        ("json-object", "h = json_parse --collection {\\\"a\\\":[1],\\\"b\\\":\\\"x\\\"}", "back = json_encode --collection ${h}", "{\"a\":[\"1\"],\"b\":\"x\"}", "map_"),
        ("properties", "h = map\nmap_put ${h} key \"the value\"", "back = map_to_properties ${h}", "key=the\\ value", "map_"),
        ("set-to-array", "h = set_new only", "a2 = set_to_array ${h}\nback = array_join ${a2} ,", "only", "set_"),
    ];
    for (name, first, second, expected, own_kind) in trips {
        for cmd in wrong {
            if !own_kind.is_empty() && cmd.starts_with(own_kind) {
                continue;
            }
            let text = format!("{}\nr = {}\n{}\nafter = set reached", first, cmd, second);
            scale_case(w, &format!("wrong-kind-in-between {} then {:?}", name, cmd), &text, &[("r", Some("false".into())), ("back", Some(expected.to_string())), ("after", Some("reached".into()))]);
        }
    }
}

pub fn worker(w: &mut Worker) {
    let tier = w.tier;
    scale(w);
    documents_in_sequence(w);
    wrong_kind_in_between(w);
    let mut s = Session::new();
    macro_rules! run {
        ($cj:expr, $nt:expr, $class:expr, $body:expr) => {{
            let cj: Value = $cj;
            w.begin(|| cj.clone());
            let r = guarded(|| $body);
            w.add_transitions(1);
            match r {
                Err(p) => w.fail("panic", &p, cj),
                Ok(Ok(())) => {
                    if $nt && w.want_sample() && w.idx() % 7 == 3 {
                        w.sample(cj.clone());
                    }
                    w.pass($nt, hash64(&$class))
                }
                Ok(Err((sig, what))) => w.fail(&sig, &what, cj),
            }
        }};
    }
    // texts
    let tl = tier.pick(5usize, 7usize);
    for t in Strings::new(&TSIG[..], 0, tl) {
        if !w.take() {
            continue;
        }
        let t = t.concat();
        if t.is_empty() {
            // a command cannot be given "no bytes" other than through the empty argument; string_to_bytes "" is the case
        }
        let nt = !t.is_ascii() || t.contains('\0');
        run!(json!({"kind": "text", "text": t}), nt, ("text", t.len()), text_roundtrip(&mut s, &t));
    }
    // the wide one-character alphabet (util::wide_chars) and every control character, through every
    // round trip: as a text, as a JSON string / key / array item, as a properties key and value
    {
        let mut chars = wide_chars();
        chars.extend((0u32..0x20).chain([0x7f, 0x80, 0x9f, 0xd7ff, 0xe000, 0xfffd, 0xffff, 0x10000, 0x10ffff]).filter_map(char::from_u32));
        // ... and the characters that do not show (byte order mark, zero-width characters, controls)
        chars.extend(invisible_chars());
        chars.sort();
        chars.dedup();
        for c in chars {
            for t in [c.to_string(), format!("a{}b", c), format!("{}{}", c, c)] {
                if w.take() {
                    run!(json!({"kind": "text", "text": t}), true, ("text-wide", t.len()), text_roundtrip(&mut s, &t));
                }
                for d in [json!(t), json!([t, "x"]), json!({t.clone(): "v"}), json!({"k": {t.clone(): [t.clone()]}})] {
                    // keys with a dot or brackets are covered by the key pool; here the character is the point
                    if w.take() {
                        run!(json!({"kind": "json", "doc": d.to_string()}), true, ("json-wide", d.is_array(), d.is_object()), json_roundtrip(&mut s, &d));
                    }
                }
                for e in [vec![(t.clone(), "v".to_string())], vec![("k".to_string(), t.clone())], vec![(t.clone(), t.clone())], vec![(format!("k{}", t), "1".to_string()), ("k".to_string(), format!("{}2", t))]] {
                    if w.take() {
                        let ej: Vec<Value> = e.iter().map(|(k, v)| json!([k, v])).collect();
                        run!(json!({"kind": "props", "entries": ej}), true, ("props-wide", class_of(&e)), props_roundtrip(&mut s, &e));
                    }
                }
            }
        }
    }
    // integers
    let hi = tier.pick(65535u64, 1 << 24);
    let mut ints: Vec<u64> = (0..=hi).collect();
    for k in 0..=64u32 {
        let p: u128 = 1u128 << k;
        for d in [-1i128, 0, 1] {
            let v = p as i128 + d;
            if v >= 0 && v <= u64::MAX as i128 && (v as u64) > hi {
                ints.push(v as u64);
            }
        }
    }
    ints.dedup();
    for n in ints {
        if !w.take() {
            continue;
        }
        run!(json!({"kind": "int", "n": n.to_string()}), n > 255, ("int", 64 - n.leading_zeros()), hex_roundtrip(&mut s, n));
    }
    // JSON documents
    {
        let (depth, reduced) = tier.pick((2usize, false), (3usize, true));
        let mut body = |d: Value| {
            if !w.take() {
                return;
            }
            let nt = d.is_array() || d.is_object();
            run!(json!({"kind": "json", "doc": d.to_string()}), nt, ("json", shape_of(&d).len().min(12), d.is_array()), json_roundtrip(&mut s, &d));
        };
        if tier == Tier::Thorough {
            // everything the quick tier covers (all documents of depth 2) ...
            for_each_doc(2, false, &mut body);
        }
        // ... and, for thorough, depth 3 over a covering subset of the depth-2 shapes
        for_each_doc(depth, reduced, &mut body);
        // number leaves: alone, in an array, as an object member
        let nums = json_number_leaves();
        for n in &nums {
            body(n.clone());
            body(json!([n, "x", n]));
            body(json!({"k": n, "a.b": [n]}));
        }
    }
    // chains of containers of every depth up to 120, objects and arrays in turn, the keys on the way down
    // taken in rotation from a pool of keys that read like path syntax (JSON pointer escapes, slashes,
    // dots, indexes, the empty key); every container on the way has a sibling leaf
    {
        let keys = ["k", "~", "~0", "~1", "/", "a/b", "~01", "~10", "", "0", "1", "-", "a.b", "a b", "$", "#", "é", "[0]", "..", "\\"];
        let max_depth = 120usize;
        for rot in 0..keys.len() {
            for depth in (1..=max_depth).filter(|d| tier == Tier::Thorough || *d <= 8 || d % 8 <= 2 || (28..=40).contains(d)) {
                if !w.take() {
                    continue;
                }
                let mut d: Value = json!("leaf");
                for level in (0..depth).rev() {
                    let key = keys[(level + rot) % keys.len()];
                    d = if level % 3 == 2 { json!([d, "s"]) } else { json!({key: d, "zz": "s"}) };
                }
                run!(json!({"kind": "json", "doc": d.to_string()}), true, ("json-chain", depth.min(40), rot), json_roundtrip(&mut s, &d));
            }
        }
    }
    // properties
    let vl = tier.pick(2usize, 4usize);
    let keys: Vec<String> = Strings::new(&PSIG[..], 1, 2).map(|v| v.concat()).collect();
    let values: Vec<String> = Strings::new(&PSIG[..], 0, vl).map(|v| v.concat()).collect();
    for k in &keys {
        for v in &values {
            if !w.take() {
                continue;
            }
            let e = vec![(k.clone(), v.clone())];
            run!(json!({"kind": "props", "entries": [[k, v]]}), true, ("props1", class_of(&e), k.len(), v.len()), props_roundtrip(&mut s, &e));
        }
    }
    let k1: Vec<String> = Strings::new(&PSIG[..], 1, 1).map(|v| v.concat()).collect();
    let v1: Vec<String> = Strings::new(&PSIG[..], 0, 1).map(|v| v.concat()).collect();
    let mut v1x = v1.clone();
    v1x.push("a ".into());
    v1x.push(" a".into());
    v1x.push("😀".into());
    for (i, ka) in k1.iter().enumerate() {
        for kb in k1.iter().skip(i + 1) {
            for va in &v1x {
                for vb in &v1x {
                    if !w.take() {
                        continue;
                    }
                    let e = vec![(ka.clone(), va.clone()), (kb.clone(), vb.clone())];
                    run!(json!({"kind": "props", "entries": [[ka, va], [kb, vb]]}), true, ("props2", class_of(&e)), props_roundtrip(&mut s, &e));
                }
            }
        }
    }
    for (k, v) in [("😀", "a"), ("a", "😀"), ("k", "a😀b"), ("k", "\u{ffff}"), ("k", "\u{100}")] {
        if !w.take() {
            continue;
        }
        let e = vec![(k.to_string(), v.to_string())];
        run!(json!({"kind": "props", "entries": [[k, v]]}), true, ("props1", class_of(&e)), props_roundtrip(&mut s, &e));
    }
}

pub fn replay(case: &Value) -> Result<String, String> {
    if let Some(r) = scale_replay(case) {
        return r;
    }
    let mut s = Session::new();
    let r = match case["kind"].as_str().unwrap_or("") {
        "text" => text_roundtrip(&mut s, case["text"].as_str().unwrap_or("")),
        "int" => hex_roundtrip(&mut s, case["n"].as_str().unwrap_or("0").parse().unwrap_or(0)),
        "json" => json_roundtrip(&mut s, &serde_json::from_str(case["doc"].as_str().unwrap_or("null")).map_err(|e| e.to_string())?),
        "props" => {
            let e: Vec<(String, String)> = case["entries"]
                .as_array()
                .ok_or("entries")?
                .iter()
                .map(|p| (p[0].as_str().unwrap_or("").to_string(), p[1].as_str().unwrap_or("").to_string()))
                .collect();
            props_roundtrip(&mut s, &e)
        }
        k => return Err(format!("unknown kind {}", k)),
    };
    Ok(format!("{:?}", r))
}

pub fn crash_sig(_case: &Value, kind: &str) -> String {
    kind.to_string()
}

pub const RULE: &str = "texts: every string up to the length bound over {a e-acute emoji NUL LF SP = U+FEFF} through string_to_bytes/bytes_to_string and base64_encode/base64_decode (bytes compared in the handle table as well); integers: every n in 0..=bound plus 2^k-1,2^k,2^k+1 for k<=64 through hex_encode/hex_decode; JSON: every document of the stated depth with width<=2 over leaves {\"a\",\"a.b\",\"\",1,1.5,true,null} plus 14 number leaves at the edges of the i64/u64/f64 ranges (numbers must keep their exact decimal value) and keys {k,a.b,'a b',x[0]} (depth 3 over a covering subset of depth-2 shapes) through json_parse --collection / json_encode --collection compared (as JSON values) with the documented normalisation, then release -r must free every handle; properties: every 1-entry map with key length 1..2 and value length 0..bound over {a SP = : # ! \\\\ e-acute LF}, every 2-entry map over length-1 keys/values plus a few non-BMP entries, through map_to_properties/map_load_properties. Non-trivial: non-ASCII or NUL text, n>255, container documents, every properties case. states = distinct (kind, size class) outcomes; transitions = round trips executed. Scale cases: texts of 4095/65537 (thorough 1000003) bytes, plain and with a two-byte character across the middle, through the bytes and base64 round trips (and the length of the base64 text); JSON arrays and objects of 10/300 (thorough 30000) members and arrays nested 10/60/101/127 deep (127 is the deepest document the parser accepts) through json_parse --collection / json_encode --collection; maps of as many entries through the properties text. Documents in sequence: 2..6 documents parsed into one variable, their handles kept in an array / a map / other variables, then encoded from there. The wide one-character alphabet, every control character and the characters that do not show (byte order mark, zero-width characters, directional marks, C1 controls) as a text, a JSON string / key / item, a properties key and value. Wrong kind in between: 12 commands of another kind applied to the handle between the two halves of 6 round trips (bytes, base64, JSON array, JSON object, properties, set): they report an error and the second half gives back the original Container chains: every depth up to 120 (quick: 1..8, the neighbourhoods of the multiples of 8 and 28..40), objects and arrays in turn, the keys on the way down in rotation (20 rotations) from a pool of 20 keys that read like path syntax (~ ~0 ~1 / a/b ~01 ~10, the empty key, 0 1 - a.b [0] .. $ # and a backslash), every container with a sibling leaf.";
pub const ASSUMPTIONS: &[&str] = &["values are handed to the commands as already-bound arguments (no '$' or '%' in the alphabets)", "JSON equality is serde_json value equality (object key order is not significant)"];
pub const EXHAUSTIVE: bool = true;
pub const WALL_CAP_S: (u64, u64) = (50, 1500);
