//! C08 — parsing is total, one instruction per line, malformed lines rejected in place.
//! Engine E3: all texts up to a length over the syntax alphabet, all short token sequences,
//! planted malformed lines at every position.

use crate::engine::*;
use crate::util::*;
use duckscript::parser;
use serde_json::{json, Value};

const SIGMA_Q: [&str; 12] = ["a", " ", "\"", "\\", "#", "=", ":", "!", "$", "{", "\n", "\r"];
const SIGMA_T: [&str; 14] = ["a", " ", "\"", "\\", "#", "=", ":", "!", "$", "{", "\n", "\r", "\t", "é"];
const TOKENS: [&str; 14] = [
    "!print", "!x", "!", "cmd", "x =", ":l", "\"a b\"", "\"open", "\\q", "\\", "#c", " ", "\n", "\r\n",
];

type Parsed = Result<Vec<(Option<usize>, Option<String>, PI)>, (&'static str, Option<usize>)>;

fn parse(text: &str) -> Result<Parsed, String> {
    guarded(|| match parser::parse_text(text) {
        Ok(v) => Ok(v
            .iter()
            .map(|i| (i.meta_info.line, i.meta_info.source.clone(), plain(i)))
            .collect()),
        Err(e) => Err((err_kind(&e), err_line(&e))),
    })
}

/// Lines as a line-oriented reader sees them: terminated by LF or CRLF, no phantom line after a
/// final terminator.
pub fn ref_lines(text: &str) -> Vec<&str> {
    let mut v: Vec<&str> = text.split('\n').collect();
    if v.last() == Some(&"") {
        v.pop();
    }
    v.into_iter().map(|l| l.strip_suffix('\r').unwrap_or(l)).collect()
}

fn is_blank_or_comment(line: &str) -> bool {
    // blank = nothing but white space, in the sense of the Unicode White_Space property
    let t = line.trim();
    t.is_empty() || t.starts_with('#')
}

/// The oracle for one text without include directives. Ok((nontrivial, outcome)) or Err((sig, what)).
pub fn check_text(text: &str, planted: &[(usize, &'static str)]) -> Result<(bool, u64), (String, String)> {
    let whole = parse(text).map_err(|p| ("panic".to_string(), format!("parse_text panicked: {}", p)))?;
    let lines: Vec<&str> = ref_lines(text);
    let n = lines.len();
    // single-line verdicts (differential: the same parser on each line alone)
    let mut singles: Vec<Parsed> = Vec::with_capacity(n);
    if n == 1 && lines[0] == text {
        singles.push(whole.clone());
    } else {
        for l in &lines {
            if l.is_empty() {
                singles.push(Ok(vec![(Some(1), None, PI::Empty)]));
            } else {
                singles.push(parse(l).map_err(|p| ("panic".to_string(), format!("parse_text panicked on line {:?}: {}", l, p)))?);
            }
        }
    }
    let nontrivial = text.chars().any(|c| "\"\\#=:!".contains(c));
    match &whole {
        Ok(v) => {
            if v.len() != n {
                return Err(("count".into(), format!("{} instructions for {} lines in {:?}", v.len(), n, text)));
            }
            for (k, (line, source, pi)) in v.iter().enumerate() {
                if *line != Some(k + 1) {
                    return Err(("line-number".into(), format!("instruction {} carries line {:?} in {:?}", k + 1, line, text)));
                }
                if source.is_some() {
                    return Err(("source".into(), format!("parse_text produced a source tag {:?}", source)));
                }
                if is_blank_or_comment(lines[k]) && *pi != PI::Empty {
                    return Err(("blank-not-empty".into(), format!("blank/comment line {:?} became {}", lines[k], pi_json(pi))));
                }
                match &singles[k] {
                    Ok(s) => {
                        if s.len() != 1 || s[0].2 != *pi {
                            return Err(("not-line-local".into(), format!("line {} of {:?} parses differently alone", k + 1, text)));
                        }
                    }
                    Err((kind, _)) => {
                        return Err(("malformed-line-accepted".into(), format!("line {} {:?} is rejected alone ({}) but accepted inside {:?}", k + 1, lines[k], kind, text)));
                    }
                }
            }
            if !planted.is_empty() {
                return Err(("planted-error-accepted".into(), format!("text {:?} with a malformed line was accepted", text)));
            }
            Ok((nontrivial, hash64(&("ok", n, v.iter().filter(|x| x.2 != PI::Empty).count()))))
        }
        Err((kind, line)) => {
            let k = match line {
                Some(k) if *k >= 1 && *k <= n => *k,
                other => {
                    return Err(("error-line-out-of-range".into(), format!("{} reported at line {:?} of {} lines in {:?}", kind, other, n, text)));
                }
            };
            match &singles[k - 1] {
                Err((k1, l1)) => {
                    if k1 != kind {
                        return Err(("error-kind-not-line-local".into(), format!("line {} alone gives {} but inside {:?} gives {}", k, k1, text, kind)));
                    }
                    if *l1 != Some(1) {
                        return Err(("error-line-number".into(), format!("single line reports line {:?}", l1)));
                    }
                }
                Ok(_) => {
                    return Err(("error-at-wellformed-line".into(), format!("{} reported at line {} of {:?} but that line parses alone", kind, k, text)));
                }
            }
            if !planted.is_empty() && !planted.iter().any(|(pl, pk)| *pl == k && pk == kind) {
                return Err(("planted-error-misreported".into(), format!("planted {:?} but got {} at line {} in {:?}", planted, kind, k, text)));
            }
            Ok((nontrivial, hash64(&("err", kind, k, n))))
        }
    }
}

const MALFORMED: [(&str, &[&str]); 6] = [
    ("MissingEndQuotes", &["cmd \"abc", "x = cmd a \"b c", "cmd \"a\\\"", ":l cmd \"", "cmd \"a\" \"b", "!print \"abc", "!print \"never closed\\\""]),
    ("ControlWithoutValidValue", &["cmd \\q", "cmd \"a\\qb\"", "cmd a\\", "x = cmd \\$a", "cmd a\\ b", "!print bad\\q", "!print a\\"]),
    ("InvalidQuotesLocation", &["\"cmd\" a", "x = \"cmd\"", ":\"l\" cmd", "\"x\" = cmd", ":l \"cmd\""]),
    ("InvalidControlLocation", &["c\\md a", "x = c\\nmd", ":l\\a cmd", "x\\y = cmd", "\\cmd"]),
    ("PreProcessNoCommandFound", &["!", "  !", "!   ", "\t! "]),
    ("UnknownPreProcessorCommand", &["!x", "!Print a", "!include a", "!print2", "!unknown a b", "!!print x", "!!!include_files f.ds", "!print! x", "!PRINT x", "!printx", "!include_file f.ds", "!-print x", "!:print x"]),
];

const WELLFORMED: [&str; 12] = [
    "été = set é",
    "  中 \"ü ö\" # ß",
    "",
    "# comment \"x \\q",
    "cmd a b",
    "x = cmd \"a b\" \\n",
    ":l",
    ":l y = ns::Cmd \"\" # c",
    "!print hi",
    "   ",
    "goto :l",
    "x =",
];

pub fn bounds(tier: Tier) -> Value {
    match tier {
        Tier::Quick => json!({"text_len_12chars": 7, "text_len_14chars": 5, "token_seq": 4, "planted_lines": 3}),
        Tier::Thorough => json!({"text_len_12chars": 8, "text_len_14chars": 7, "token_seq": 5, "planted_lines": 4}),
    }
}

fn run_text(w: &mut Worker, text: &str, planted: &[(usize, &'static str)], kind: &str) {
    w.begin(|| json!({"kind": kind, "text": text}));
    match check_text(text, planted) {
        Ok((nt, oc)) => {
            if nt && w.want_sample() && text.len() > 3 {
                w.sample(json!({"text": text, "phase": kind}));
            }
            w.pass(nt, oc)
        }
        Err((sig, what)) => w.fail(&sig, &what, json!({"kind": kind, "text": text, "planted": planted.iter().map(|(l, k)| json!([l, k])).collect::<Vec<_>>()})),
    }
}

pub fn worker(w: &mut Worker) {
    let tier = w.tier;
    // (c) planted errors first (small, sharpest oracle)
    let nmax = tier.pick(3usize, 4usize);
    let wf: Vec<usize> = (0..WELLFORMED.len()).collect();
    for n in 1..=nmax {
        for pos in 0..n {
            for (kind, spellings) in MALFORMED {
                for bad in spellings {
                    for others in Strings::new(&wf[..], n - 1, n - 1) {
                        for eol in ["\n", "\r\n"] {
                            if !w.take() {
                                continue;
                            }
                            let mut ls: Vec<&str> = others.iter().map(|&k| WELLFORMED[k]).collect();
                            ls.insert(pos, bad);
                            let text = ls.join(eol);
                            run_text(w, &text, &[(pos + 1, kind)], "planted");
                        }
                    }
                }
            }
        }
    }
    // the escape table: a backslash followed by each character of the alphabet, and `\$` followed by
    // each character; only \\ \" \n \r \t and \${ are documented, everything else must be rejected
    // with ControlWithoutValidValue at that line
    let mut follow: Vec<String> = ["a", "n", "r", "t", "\\", "\"", "$", "{", "}", " ", "#", "=", ":", "%", "q", "0", "é", ""].iter().map(|x| x.to_string()).collect();
    // ... and for every character that completes a documented escape, the characters of eight other planes
    // that share its low byte (what a narrowing cast or a byte-indexed table would take for it), the
    // upper-case letters, and characters that do not show
    for base in ['n', 'r', 't', '\\', '"', '{', '$'] {
        for plane in [0x100u32, 0x400, 0x2000, 0x2100, 0x3000, 0xff00, 0x1f600, 0xe0000] {
            if let Some(c) = char::from_u32(plane + base as u32) {
                follow.push(c.to_string());
            }
        }
    }
    for extra in ["N", "R", "T", "\u{feff}", "\u{200b}", "\u{a0}", "\u{1}", "\u{301}"] {
        follow.push(extra.to_string());
    }
    for prefix in ["cmd ", "cmd \"", "x = cmd a", ":l cmd b ", "!print ", "!print a \""].iter() {
        let in_quotes = prefix.ends_with('"');
        for dollar in [false, true] {
            for c in follow.iter().map(|x| x.as_str()) {
                // what follows the escape keeps the line otherwise well-formed; the escape in the
                // middle of an argument, at the very end of the line, in front of trailing white
                // space and of a comment, and right in front of the closing quote
                let tails: &[&str] = if in_quotes { &["z\"", "\""] } else { &["z", "", " ", " # c"] };
                let leads = ["", "\\${v}", "\\n", "\\\\m"];
                let mut combos: Vec<(usize, &str, &str)> = vec![];
                for p in 0..3usize {
                    for t in tails.iter() {
                        for l in leads.iter() {
                            combos.push((p, *t, *l));
                        }
                    }
                }
                for (pos, tail, lead) in combos {
                    if c.is_empty() && !dollar && tail == "\"" {
                        // `"\"` is an escaped quote in an unterminated argument: another error kind
                        continue;
                    }
                    if !w.take() {
                        continue;
                    }
                    let esc = if dollar { format!("\\${}", c) } else { format!("\\{}", c) };
                    // alone in its argument, and behind an earlier well-formed escape of the same
                    // argument (what one escape leaves in the scanner must not change how the next is read)
                    let line = format!("{}{}{}{}", prefix, lead, esc, tail);
                    let valid = if dollar { c == "{" } else { matches!(c, "n" | "r" | "t" | "\\" | "\"") };
                    let mut ls = vec!["echo before", "x = set 1", "echo after"];
                    ls.insert(pos, &line);
                    let text = ls.join("\n");
                    if !dollar && c == "$" {
                        // `\$z`: the dollar form with a non-brace follower, covered by dollar=true
                        w.begin(|| json!({"kind": "escape-table", "text": text}));
                        w.pass(false, 0);
                        continue;
                    }
                    let planted: Vec<(usize, &'static str)> = if valid { vec![] } else { vec![(pos + 1, "ControlWithoutValidValue")] };
                    run_text(w, &text, &planted, "escape-table");
                }
            }
        }
    }
    // white space other than the blank and TAB at the ends of a line (vertical tab, form feed, next
    // line, no-break space, the U+2000 block, line / paragraph separator, ideographic space ...): a
    // line of nothing else is blank, a comment behind it is a comment, a malformed line stays
    // malformed with the same kind, and a well-formed line parses to what it parses to without it
    for ws in UNICODE_WHITE_SPACE.iter().copied().filter(|c| *c != '\n' && *c != '\r') {
        let wss = ws.to_string();
        for blank in [wss.clone(), format!("{}{}", ws, ws), format!(" {} ", ws), format!("{}# c \"x", ws), format!(" {}#", ws), format!("{}\t# c", ws)] {
            for pos in 0..3usize {
                if !w.take() {
                    continue;
                }
                let mut ls = vec!["echo before", "x = set 1", "echo after"];
                ls.insert(pos, &blank);
                run_text(w, &ls.join("\n"), &[], "unicode-blank");
            }
        }
        for (kind, spellings) in MALFORMED {
            for bad in spellings {
                for (lead, trail) in [(wss.as_str(), ""), ("", wss.as_str()), (wss.as_str(), wss.as_str())] {
                    if !w.take() {
                        continue;
                    }
                    let line = format!("{}{}{}", lead, bad, trail);
                    let text = format!("echo before\n{}\necho after", line);
                    run_text(w, &text, &[(2, kind)], "unicode-blank-planted");
                }
            }
        }
        for good in WELLFORMED.iter().copied().filter(|g| !g.is_empty()) {
            for (lead, trail) in [(wss.as_str(), ""), ("", wss.as_str()), (wss.as_str(), wss.as_str())] {
                if !w.take() {
                    continue;
                }
                let line = format!("{}{}{}", lead, good, trail);
                let cj = json!({"kind": "unicode-blank-same", "text": line, "without": good});
                w.begin(|| cj.clone());
                match (parse(&line), parse(good)) {
                    (Ok(a), Ok(b)) if a == b => w.pass(true, hash64(&("unicode-blank-same", a.is_ok()))),
                    (Ok(a), Ok(b)) => w.fail(
                        "unicode-blank:differs",
                        &format!("line {:?} parses to {:?}, without the white space at its ends to {:?}", line, a.map(|v| v.into_iter().map(|x| pi_json(&x.2)).collect::<Vec<_>>()), b.map(|v| v.into_iter().map(|x| pi_json(&x.2)).collect::<Vec<_>>())),
                        cj,
                    ),
                    (a, b) => w.fail("panic", &format!("{:?} {:?}", a.err(), b.err()), cj),
                }
            }
        }
    }
    // characters that do not show (byte order mark, zero-width space / joiners, word joiner, soft hyphen,
    // Arabic letter mark, Mongolian vowel separator, NUL and the other C0 controls, DEL, C1 controls,
    // variation selectors, a lone combining mark, a tag character) alone on a line, doubled, between
    // blanks, in front of and behind a command, a comment, a directive: parsing stays total and line-local
    {
        let mut invisible: Vec<char> = vec!['\u{feff}', '\u{200b}', '\u{200c}', '\u{200d}', '\u{2060}', '\u{ad}', '\u{61c}', '\u{180e}', '\u{7f}', '\u{fe0f}', '\u{301}', '\u{e0041}', '\u{fffd}', '\u{ffff}', '\u{10ffff}'];
        invisible.extend((0u32..0x20).filter(|c| *c != 0x0a && *c != 0x0d).filter_map(char::from_u32));
        invisible.extend((0x80u32..0xa0).filter_map(char::from_u32));
        for c in invisible {
            for line in [
                c.to_string(),
                format!("{}{}", c, c),
                format!(" {} ", c),
                format!("{}cmd a", c),
                format!("cmd a{}", c),
                format!("cmd {} b", c),
                format!("{} cmd a", c),
                format!("{}# note", c),
                format!("{}!print x", c),
                format!("!{}", c),
                format!(":{}", c),
                format!("x{} = set 1", c),
                format!("cmd \"{}\"", c),
            ] {
                for pos in 0..3usize {
                    if !w.take() {
                        continue;
                    }
                    let mut ls = vec!["echo before", "x = set 1", "echo after"];
                    ls.insert(pos, &line);
                    run_text(w, &ls.join("\n"), &[], "invisible-character");
                }
                for eol in ["", "\n", "\r\n"] {
                    if !w.take() {
                        continue;
                    }
                    run_text(w, &format!("{}{}", line, eol), &[], "invisible-character");
                }
            }
        }
    }
    // two malformed lines: the reported error must be one of them
    for (k1, s1) in MALFORMED {
        for (k2, s2) in MALFORMED {
            for a in s1.iter().take(2) {
                for b in s2.iter().take(2) {
                    for mid in [None, Some("cmd a")] {
                        if !w.take() {
                            continue;
                        }
                        let (text, planted) = match mid {
                            None => (format!("{}\n{}", a, b), vec![(1, k1), (2, k2)]),
                            Some(m) => (format!("{}\n{}\n{}", a, m, b), vec![(1, k1), (3, k2)]),
                        };
                        run_text(w, &text, &planted, "planted2");
                    }
                }
            }
        }
    }
    // from here on single cases are large (many lines, long lines, thousands of arguments): a case that
    // kills the process (stack overflow) is pinned to itself and reported
    w.risky = true;
    // very many lines: instruction count and line numbers far down, a malformed line in the middle and
    // at the very end
    for n in tier.pick(vec![20_000usize], vec![20_000usize, 1_000_000]) {
        for bad in [None, Some((n / 2, 0usize)), Some((n, 1usize)), Some((n, 3usize))] {
            if !w.take() {
                continue;
            }
            let cj = json!({"kind": "many-lines", "lines": n, "bad": bad.map(|(l, k)| json!([l, k]))});
            w.begin(|| cj.clone());
            let (text, planted) = many_lines(n, bad);
            match check_text(&text, &planted) {
                Ok((_, oc)) => w.pass(true, oc),
                Err((sig, what)) => {
                    let short: String = what.chars().take(300).collect();
                    w.fail(&format!("many-lines:{}", sig), &format!("{} lines, malformed line {:?}: {}", n, bad, short), cj)
                }
            }
        }
    }
    // very long lines (one character class repeated, and a long well-formed line among malformed ones)
    for (n, (unit, planted)) in [
        ("a", None),
        (" ", None),
        ("\"a\" ", None),
        ("#", None),
        ("\\\\", None),
        ("a=", None),
        (":", None),
        ("\"", Some("MissingEndQuotes")),
    ]
    .iter()
    .enumerate()
    {
        for reps in [10_000usize, 100_001usize] {
            if !w.take() {
                continue;
            }
            let _ = n;
            let long = if planted.is_some() { format!("cmd {}", unit.repeat(reps)) } else { format!("cmd {}", unit.repeat(reps)) };
            let text = format!("x = set 1\n{}\ny = set 2", long);
            let pl: Vec<(usize, &'static str)> = match planted {
                Some(k) => vec![(2, *k)],
                None => vec![],
            };
            // an odd number of quotes leaves the last one unterminated; an even number is well-formed
            let pl = if planted.is_some() && reps % 2 == 0 { vec![] } else { pl };
            run_text(w, &text, &pl, "long-line");
        }
    }
    // a line with very many arguments (the length of a line is one thing, the number of its arguments another)
    for n in tier.pick(vec![20_000usize, 200_000], vec![20_000usize, 200_000, 2_000_000]) {
        for bad in [false, true] {
            if !w.take() {
                continue;
            }
            let mut line = String::from("cmd");
            for i in 0..n {
                line.push_str(if i % 3 == 0 { " \"a b\"" } else { " a" });
            }
            if bad {
                line.push_str(" \"unterminated");
            }
            let text = format!("x = set 1\n{}\ny = set 2", line);
            let cj = json!({"kind": "many-arguments", "arguments": n, "unterminated": bad});
            w.begin(|| cj.clone());
            let pl: Vec<(usize, &'static str)> = if bad { vec![(2, "MissingEndQuotes")] } else { vec![] };
            match check_text(&text, &pl) {
                Ok((_, oc)) => w.pass(true, oc),
                Err((sig, what)) => {
                    let short: String = what.chars().take(200).collect();
                    w.fail(&format!("many-arguments:{}", sig), &format!("line with {} arguments: {}", n, short), cj)
                }
            }
        }
    }
    w.risky = false;
    // (b) token sequences
    let tl = tier.pick(4usize, 5usize);
    for seq in Strings::new(&TOKENS[..], 0, tl) {
        if w.take() {
            run_text(w, &seq.concat(), &[], "tokens");
        }
    }
    // (a) all texts
    let l12 = tier.pick(7usize, 8usize);
    for s in Strings::new(&SIGMA_Q[..], 0, l12) {
        if w.take() {
            run_text(w, &s.concat(), &[], "text");
        }
    }
    // texts that use the two extra characters (TAB, a non-ASCII letter)
    {
        let l14 = tier.pick(5usize, 7usize);
        for s in Strings::new(&SIGMA_T[..], 1, l14) {
            // only texts that use one of the two extra characters are new
            if !s.iter().any(|c| *c == "\t" || *c == "é") {
                continue;
            }
            if w.take() {
                run_text(w, &s.concat(), &[], "text14");
            }
        }
    }
}

/// n lines cycling through the well-formed pool, optionally one malformed line (1-based line,
/// index into MALFORMED)
fn many_lines(n: usize, bad: Option<(usize, usize)>) -> (String, Vec<(usize, &'static str)>) {
    let mut lines: Vec<&str> = (0..n).map(|i| WELLFORMED[i % WELLFORMED.len()]).collect();
    let mut planted = vec![];
    if let Some((l, k)) = bad {
        lines[l - 1] = MALFORMED[k].1[0];
        planted.push((l, MALFORMED[k].0));
    }
    (lines.join("\n"), planted)
}

pub fn replay(case: &Value) -> Result<String, String> {
    if case["kind"].as_str() == Some("many-arguments") {
        return Ok("re-run the check: the line is rebuilt from the number of arguments by the generator (a failing case kills the process)".to_string());
    }
    if case["kind"].as_str() == Some("many-lines") {
        let n = case["lines"].as_u64().unwrap_or(1) as usize;
        let bad = case["bad"].as_array().map(|a| (a[0].as_u64().unwrap_or(1) as usize, a[1].as_u64().unwrap_or(0) as usize));
        let (text, planted) = many_lines(n, bad);
        let r = check_text(&text, &planted).map_err(|(s, w)| (s, w.chars().take(300).collect::<String>()));
        return Ok(format!("oracle: {:?}", r));
    }
    let text = case["text"].as_str().ok_or("no text")?;
    let planted: Vec<(usize, &'static str)> = case["planted"]
        .as_array()
        .map(|a| {
            a.iter()
                .filter_map(|p| {
                    let l = p[0].as_u64()? as usize;
                    let k = p[1].as_str()?;
                    MALFORMED.iter().find(|(n, _)| *n == k).map(|(n, _)| (l, *n))
                })
                .collect()
        })
        .unwrap_or_default();
    Ok(format!("{:?} / oracle: {:?}", parse(text), check_text(text, &planted)))
}

pub fn crash_sig(_case: &Value, kind: &str) -> String {
    kind.to_string()
}

pub const RULE: &str = "enumeration (no duplicates within a phase): planted malformed line (6 kinds x 4-5 spellings) at every position among every choice of well-formed lines (pool of 10), LF and CRLF; pairs of malformed lines; the escape table (a backslash, and a backslash-dollar, followed by each of 18 characters in 6 argument positions (four on command lines, two on pre-processor lines), in the middle of an argument / at the end of the line / before trailing white space / before a comment / before the closing quote, alone and behind an earlier well-formed escape (\\${v}, \\n, \\\\) of the same argument, at every line position: only the documented escapes parse, all others are rejected with ControlWithoutValidValue); every sequence of tokens from a pool of 14; lines of 10^4 and 10^5 repeated characters of each class; a line with 20000 / 200000 (thorough 2000000) arguments, well-formed and ending in an unterminated quote; texts of 20000 (thorough 10^6) lines, well-formed and with a malformed line in the middle / at the end; every text up to the length bound over {a SP \" \\ # = : ! $ { LF CR} (+TAB, e-acute). Oracle: no panic; Ok => one instruction per line with line numbers 1..n, no source tag, blank/comment lines Empty, each line parses alone to the same instruction; Err(kind,k) => 1<=k<=n and line k alone is rejected with the same kind; planted error => that kind and line. Non-trivial: the text contains one of \" \\ # = : !; states = distinct (verdict, error kind, error line, line count) classes, transitions = parse_text calls on whole texts. White space at line ends: each of the 23 Unicode white-space characters other than LF and CR in front of, behind and around every blank, comment, malformed (same kind, same line) and well-formed (same instruction as without it) line. Invisible characters: 79 characters that do not show (byte order mark, zero-width space and joiners, word joiner, soft hyphen, NUL and the other C0 / C1 controls, DEL, a variation selector, a combining mark, a tag character, U+FFFD, noncharacters) in 13 line shapes at 3 positions and with 3 line ends: total, line-local, no panic";
pub const ASSUMPTIONS: &[&str] = &["no !include_files directive in the texts (C14 covers includes)"];
pub const EXHAUSTIVE: bool = true;
pub const WALL_CAP_S: (u64, u64) = (50, 1500);
