//! C01 — a line written with the documented syntax parses back to the same instruction.
//! Engine E3: bounded-exhaustive enumeration of (instruction shape, argument strings, rendering).

use crate::engine::*;
use crate::render::{self, Instr, Style};
use crate::util::*;
use duckscript::parser;
use serde_json::{json, Value};

pub const SIGMA: [&str; 16] = [
    "\u{a0}", "\r",
    "a", "n", " ", "\"", "\\", "#", "=", ":", "$", "{", "%", "\t", "\n", "é",
];

const LABELS: [Option<&str>; 5] = [None, Some(":l"), Some(":a.b"), Some(":é_1"), Some(":m=f")];
const OUTPUTS: [Option<&str>; 4] = [None, Some("x"), Some("scope::y"), Some("out-1.é")];
const COMMANDS: [Option<&str>; 5] = [None, Some("cmd"), Some("ns::Cmd"), Some("é_2"), Some("k=v")];
const LEADS: [&str; 3] = ["", "  ", "\t "];
const TRAILS: [&str; 6] = ["", " ", " \t", " # c", "   #c \"x", "  # \\q"];

fn all_styles() -> Vec<Style> {
    let mut v = vec![];
    for q in [false, true] {
        for sep in [1usize, 3] {
            for lead in LEADS {
                for trail in TRAILS {
                    for eq in 0..4u8 {
                        for raw_tab in [false, true] {
                            v.push(Style {
                                quote_optional: q,
                                sep,
                                lead,
                                trail,
                                eq,
                                raw_tab,
                            });
                        }
                    }
                }
            }
        }
    }
    v
}

/// Two styles that render the same text are one case, not two.
fn is_dup_style(i: &Instr, st: &Style) -> bool {
    let has_args = i.command.is_some() && !i.args.is_empty();
    if st.quote_optional {
        if !has_args {
            return true;
        }
    } else if has_args
        && i.args
            .iter()
            .enumerate()
            .all(|(n, a)| render::needs_quotes(a, n == 0, i.output.is_some()))
    {
        return true;
    }
    let parts = i.label.is_some() as usize
        + (i.output.is_some() || i.command.is_some()) as usize
        + if i.command.is_some() { i.args.len() } else { 0 };
    if st.sep != 1 && parts <= 1 {
        return true;
    }
    if st.eq != 0 && i.output.is_none() {
        return true;
    }
    if st.raw_tab && !(has_args && i.args.iter().any(|a| a.contains('\t'))) {
        return true;
    }
    false
}

fn expected(i: &Instr) -> PI {
    if i.label.is_none() && i.output.is_none() && i.command.is_none() {
        PI::Empty
    } else {
        PI::Script {
            label: i.label.clone(),
            output: i.output.clone(),
            command: i.command.clone(),
            args: if i.command.is_some() && !i.args.is_empty() {
                Some(i.args.clone())
            } else {
                None
            },
        }
    }
}

fn case_json(i: &Instr, st: &Style, text: &str) -> Value {
    json!({"kind": "line", "label": i.label, "output": i.output, "command": i.command, "args": i.args,
        "style": {"quote_optional": st.quote_optional, "sep": st.sep, "lead": st.lead, "trail": st.trail, "eq": st.eq, "raw_tab": st.raw_tab},
        "text": text})
}

fn check_line(w: &mut Worker, i: &Instr, st: &Style) {
    let text = render::render(i, st);
    w.begin(|| case_json(i, st, &text));
    let exp = expected(i);
    let res = guarded(|| parser::parse_text(&text));
    let nontrivial = i.label.is_some()
        || i.output.is_some()
        || i.args.iter().any(|a| render::escape(a) != *a || render::needs_quotes(a, false, true));
    let outcome = hash64(&(
        i.label.is_some(),
        i.output.is_some(),
        i.command.is_some(),
        i.args.len(),
        i.args
            .iter()
            .map(|a| (a.is_empty(), a.contains(' '), a.contains('"'), a.contains('\\'), a.contains('#')))
            .collect::<Vec<_>>(),
    ));
    if w.want_sample() && nontrivial {
        w.sample(json!({"text": text, "expected": pi_json(&exp)}));
    }
    let verdict: Result<(), (String, String)> = match res {
        Err(p) => Err(("panic".into(), format!("parse_text panicked: {}", p))),
        Ok(Err(e)) => Err((
            format!("rejected:{}", err_kind(&e)),
            format!("documented line {:?} rejected with {}", text, err_kind(&e)),
        )),
        Ok(Ok(v)) => {
            if text.is_empty() && v.is_empty() {
                Ok(()) // the empty text has no line at all
            } else if v.len() != 1 {
                Err(("count".into(), format!("{} instructions for one line {:?}", v.len(), text)))
            } else if v[0].meta_info.line != Some(1) {
                Err(("line-number".into(), format!("line {:?} for the first line", v[0].meta_info.line)))
            } else {
                let got = plain(&v[0]);
                if got == exp {
                    Ok(())
                } else {
                    Err((
                        classify(i, &got, &exp),
                        format!("line {:?} parsed to {} instead of {}", text, pi_json(&got), pi_json(&exp)),
                    ))
                }
            }
        }
    };
    match verdict {
        Ok(()) => w.pass(nontrivial, outcome),
        Err((sig, what)) => w.fail(&sig, &what, case_json(i, st, &text)),
    }
}

fn classify(_i: &Instr, got: &PI, exp: &PI) -> String {
    match (got, exp) {
        (
            PI::Script {
                label: l1,
                output: o1,
                command: c1,
                args: a1,
            },
            PI::Script {
                label: l2,
                output: o2,
                command: c2,
                args: a2,
            },
        ) => {
            if l1 != l2 {
                "label-differs".into()
            } else if o1 != o2 {
                "output-differs".into()
            } else if c1 != c2 {
                "command-differs".into()
            } else if a1.as_ref().map(|a| a.len()) != a2.as_ref().map(|a| a.len()) {
                "argument-count-differs".into()
            } else {
                "argument-text-differs".into()
            }
        }
        _ => "instruction-type-differs".into(),
    }
}

fn strings_upto(l: usize) -> Vec<String> {
    Strings::new(&SIGMA[..], 0, l).map(|v| v.concat()).collect()
}

pub fn bounds(tier: Tier) -> Value {
    match tier {
        Tier::Quick => json!({"one_arg_len": 4, "two_arg_len": 2, "three_arg_len": 1, "script_lines": 3}),
        Tier::Thorough => json!({"one_arg_len": 5, "two_arg_len": 3, "three_arg_len": 2, "script_lines": 4}),
    }
}

pub fn worker(w: &mut Worker) {
    let tier = w.tier;
    let styles = all_styles();

    // Phase A: every shape x every style x a pool of argument lists that needs each rule.
    let pool: Vec<Vec<&str>> = vec![
        vec![],
        vec!["a"],
        vec![""],
        vec!["a b"],
        vec!["="],
        vec!["=a", "=b"],
        vec!["#"],
        vec!["\"", "\\"],
        vec!["\n\t\r"],
        vec!["${v}", "%{v}"],
        vec!["\\${v}"],
        vec!["é ", " é"],
        vec!["a\u{3000}b", "\u{a0}", "x\ty"],
        vec![":", "a:b"],
        vec!["a=b", "\"a b\""],
        vec!["", "", ""],
        vec!["a", "", "b c", "#", "=", "\"", "\\", "é"],
    ];
    for l in LABELS {
        for o in OUTPUTS {
            for c in COMMANDS {
                for args in &pool {
                    if c.is_none() && !args.is_empty() {
                        continue;
                    }
                    if c.map(|x| x.contains('=')).unwrap_or(false) && o.is_none() {
                        continue; // `k=v` without an output variable is the assignment form `k = v`
                    }
                    let i = Instr {
                        label: l.map(String::from),
                        output: o.map(String::from),
                        command: c.map(String::from),
                        args: args.iter().map(|s| s.to_string()).collect(),
                    };
                    for st in &styles {
                        if is_dup_style(&i, st) {
                            continue;
                        }
                        if w.take() {
                            check_line(w, &i, st);
                        }
                    }
                }
            }
        }
    }

    // Phase B: every argument string up to the bound, covering set of shapes and styles.
    let (l1, l2, l3) = tier.pick((4, 2, 1), (5, 3, 2));
    let shapes: [(Option<&str>, Option<&str>); 3] = [(None, None), (None, Some("x")), (Some(":l"), Some("x"))];
    let trails = ["", " ", " # c", " \t"];
    let mut run_args = |w: &mut Worker, args: Vec<String>| {
        for (l, o) in shapes {
            let i = Instr {
                label: l.map(String::from),
                output: o.map(String::from),
                command: Some("cmd".into()),
                args: args.clone(),
            };
            for q in [false, true] {
                for sep in [1usize, 3] {
                    for trail in trails {
                        for raw_tab in [false, true] {
                            let st = Style {
                                quote_optional: q,
                                sep,
                                lead: "",
                                trail,
                                eq: if sep == 1 || i.output.is_none() { 0 } else { 1 },
                                raw_tab,
                            };
                            if is_dup_style(&i, &st) {
                                continue;
                            }
                            if w.take() {
                                check_line(w, &i, &st);
                            }
                        }
                    }
                }
            }
        }
    };
    for s in Strings::new(&SIGMA[..], 0, l1) {
        run_args(w, vec![s.concat()]);
    }
    let s2 = strings_upto(l2);
    for a in &s2 {
        for b in &s2 {
            run_args(w, vec![a.clone(), b.clone()]);
        }
    }
    if l3 > 0 {
        let s3 = strings_upto(l3);
        for a in &s3 {
            for b in &s3 {
                for c in &s3 {
                    run_args(w, vec![a.clone(), b.clone(), c.clone()]);
                }
            }
        }
    }

    // Phase B2: one awkward argument among many plain ones (first, middle, last of 4, 6 and 9): what
    // an argument does to the scanner's state must not reach the arguments behind it
    {
        let awkward = strings_upto(tier.pick(3, 4));
        for a in &awkward {
            if a.is_empty() {
                continue;
            }
            for k in [4usize, 6, 9] {
                for pos in [0, k / 2, k - 1] {
                    let mut args: Vec<String> = (0..k).map(|i| format!("p{}", i)).collect();
                    args[pos] = a.clone();
                    run_args(w, args);
                }
            }
        }
    }

    // Phase B3: a wide one-character alphabet in a few positions: every printable ASCII character,
    // the upper half of Latin-1, every Unicode white-space character, and for every character that
    // means something to the scanner the characters of other planes that share its low byte (what a
    // narrowing cast or a byte-indexed table would confuse with it)
    {
        let mut chars: Vec<char> = (0x21u32..0x7f).filter_map(char::from_u32).collect();
        chars.extend((0xa0u32..0x100).filter_map(char::from_u32));
        chars.extend(crate::util::UNICODE_WHITE_SPACE.iter().copied().filter(|c| !matches!(c, ' ' | '\n' | '\r')));
        for syntax in [' ', '\t', '\n', '\r', '"', '#', '\\', '=', ':', '!', '$', '%', '{', '}'] {
            for plane in [0x100u32, 0x400, 0x2000, 0x2100, 0x3000, 0xff00, 0x1f600, 0xe0000] {
                if let Some(c) = char::from_u32(plane + syntax as u32) {
                    chars.push(c);
                }
            }
        }
        chars.extend(crate::util::invisible_chars().into_iter().filter(|c| !matches!(c, '\n' | '\r')));
        chars.sort();
        chars.dedup();
        let styles: Vec<Style> = [false, true]
            .iter()
            .flat_map(|q| ["", " # c", " "].iter().map(move |trail| Style { quote_optional: *q, sep: 1, lead: "", trail, eq: 0, raw_tab: false }))
            .collect();
        for c in chars {
            let mut arg_lists: Vec<Vec<String>> = vec![
                vec![c.to_string()],
                vec![format!("a{}", c)],
                vec![format!("{}a", c)],
                vec![format!("a{}b", c)],
                vec![format!("a b{}", c)],
                vec![format!("{} a b", c)],
                vec![format!("{}{}", c, c)],
                vec![c.to_string(), c.to_string()],
                vec!["x".into(), c.to_string(), "y".into()],
                vec!["x".into(), format!("p {} q", c), "y".into()],
            ];
            if c == '\t' {
                arg_lists.clear(); // TAB has its own style switch in the other phases
            }
            for args in arg_lists {
                for (l, o) in shapes {
                    let i = Instr { label: l.map(String::from), output: o.map(String::from), command: Some("cmd".into()), args: args.clone() };
                    for st in &styles {
                        if is_dup_style(&i, st) {
                            continue;
                        }
                        if w.take() {
                            check_line(w, &i, st);
                        }
                    }
                }
            }
            // inside the names too, where the character is not one of the ASCII ones with a meaning there
            if !c.is_ascii() && !c.is_whitespace() {
                for (l, o, cmd) in [
                    (None, None, format!("k{}d", c)),
                    (Some(format!(":l{}", c)), Some("x".to_string()), "cmd".to_string()),
                    (None, Some(format!("o{}", c)), "cmd".to_string()),
                    (Some(format!(":{}", c)), Some(format!("{}", c)), format!("{}", c)),
                ] {
                    let i = Instr { label: l, output: o, command: Some(cmd), args: vec!["a".into(), c.to_string()] };
                    for st in &styles {
                        if w.take() {
                            check_line(w, &i, st);
                        }
                    }
                }
            }
        }
    }

    // Phase C: scripts of n lines: order and 1-based line numbers, LF and CRLF, final newline or not.
    let line_pool: Vec<(String, PI)> = {
        let mk = |l: Option<&str>, o: Option<&str>, c: Option<&str>, args: &[&str], st: Style| {
            let i = Instr {
                label: l.map(String::from),
                output: o.map(String::from),
                command: c.map(String::from),
                args: args.iter().map(|s| s.to_string()).collect(),
            };
            (render::render(&i, &st), expected(&i))
        };
        let p = render::PLAIN;
        let q = Style {
            quote_optional: true,
            sep: 3,
            lead: "  ",
            trail: " # c",
            eq: 1,
            raw_tab: false,
        };
        vec![
            ("".to_string(), PI::Empty),
            ("   ".to_string(), PI::Empty),
            ("# only a comment".to_string(), PI::Empty),
            mk(Some(":l"), None, None, &[], p),
            mk(None, Some("x"), Some("cmd"), &["a b", ""], p),
            mk(None, None, Some("cmd"), &["a", "b"], q),
            mk(Some(":m"), Some("y"), Some("ns::Cmd"), &["\"", "\\n"], q),
            mk(None, Some("x"), None, &[], p),
            mk(None, None, Some("cmd"), &[], p),
            mk(None, None, Some("cmd"), &["#", "=", "\n"], p),
            mk(None, None, Some("goto"), &[":l"], p),
            mk(None, Some("z"), Some("cmd"), &["é", "${x}"], q),
        ]
    };
    // Phase D: a documented line parses back to the same instruction whatever was parsed before it on
    // the same thread - in particular after a text that was rejected
    for rejected in ["cmd \"abc", "cmd a\\", "\"cmd\" a", "!", "x = c\\md", "cmd \"a\" \"b"] {
        for (text, exp) in &line_pool {
            if !w.take() {
                continue;
            }
            let cj = json!({"kind": "after-rejected", "rejected": rejected, "text": text});
            w.begin(|| cj.clone());
            let first = guarded(|| parser::parse_text(rejected));
            let second = guarded(|| parser::parse_text(text));
            let verdict = match (first, second) {
                (Err(p), _) | (_, Err(p)) => Err(("panic".to_string(), format!("parse_text panicked: {}", p))),
                (Ok(Ok(_)), _) => Err(("harness".to_string(), format!("{:?} was expected to be rejected", rejected))),
                (Ok(Err(_)), Ok(Err(e))) => Err((format!("after-rejected:rejected:{}", err_kind(&e)), format!("after the rejected text {:?} the documented line {:?} is rejected: {}", rejected, text, e))),
                (Ok(Err(_)), Ok(Ok(v))) => {
                    let n = text.lines().count().max(if text.is_empty() { 0 } else { 1 });
                    if v.len() != n || (n == 1 && plain(&v[0]) != *exp) {
                        Err(("after-rejected:differs".to_string(), format!("after the rejected text {:?} the line {:?} parses to {:?}", rejected, text, v.iter().map(|i| pi_json(&plain(i))).collect::<Vec<_>>())))
                    } else {
                        Ok(())
                    }
                }
            };
            match verdict {
                Ok(()) => w.pass(true, hash64(&("after-rejected", rejected.len()))),
                Err((sig, what)) => w.fail(&sig, &what, cj),
            }
        }
    }

    // Phase D2: many different documented lines parsed one after the other on one thread, in growing
    // windows (each window twice) and backwards alternating with the first: a line parses to its own
    // instruction however many other lines were parsed since it was last seen
    for &count in &w.tier.pick(vec![5usize, 18, 70, 300], vec![5usize, 18, 70, 300, 1100]) {
        if !w.take() {
            continue;
        }
        let cj = json!({"kind": "many-lines", "count": count});
        w.begin(|| cj.clone());
        let lines: Vec<(String, PI)> = (0..count)
            .map(|k| {
                let i = Instr {
                    label: if k % 3 == 0 { Some(format!(":label{}", k)) } else { None },
                    output: if k % 2 == 0 { Some(format!("out{}", k)) } else { None },
                    command: Some(format!("ns::command_number_{}", k)),
                    args: vec![format!("argument {}", k), format!("plain{}", k), if k % 5 == 0 { String::new() } else { format!("#{}=\"", k) }],
                };
                (render::render(&i, &render::PLAIN), expected(&i))
            })
            .collect();
        let mut problem: Option<String> = None;
        let mut parses = 0u64;
        let mut one = |k: usize, parses: &mut u64| -> Option<String> {
            *parses += 1;
            match guarded(|| parser::parse_text(&lines[k].0)) {
                Err(p) => Some(format!("parse {} (line {}): panic {}", parses, k, p)),
                Ok(Err(e)) => Some(format!("parse {} (line {} {:?}): rejected: {}", parses, k, lines[k].0, e)),
                Ok(Ok(v)) => {
                    if v.len() != 1 || plain(&v[0]) != lines[k].1 {
                        Some(format!("parse {} (line {} {:?}): parsed to {:?}", parses, k, lines[k].0, v.iter().map(|i| pi_json(&plain(i))).collect::<Vec<_>>()))
                    } else {
                        None
                    }
                }
            }
        };
        'hist: for win in 1..=count {
            for _pass in 0..2 {
                for k in 0..win {
                    if let Some(p) = one(k, &mut parses) {
                        problem = Some(p);
                        break 'hist;
                    }
                }
            }
        }
        if problem.is_none() {
            for k in (0..count).rev() {
                if let Some(p) = one(k, &mut parses).or_else(|| one(0, &mut parses)) {
                    problem = Some(p);
                    break;
                }
            }
        }
        w.add_transitions(parses);
        match problem {
            None => w.pass(true, hash64(&("many-lines", count))),
            Some(p) => w.fail("many-lines:differs", &format!("{} different lines: {}", count, p), cj),
        }
    }

    // Phase E: the same for files: a file of documented lines parses to its instructions (each with its
    // line number and the file as source) whatever happened on this thread before - in particular after
    // parse_file of this very path failed because the file was missing, was a directory, was not text,
    // or included a file that was missing
    {
        let dir = w.scratch.join("c01-files");
        let _ = std::fs::remove_dir_all(&dir);
        let _ = std::fs::create_dir_all(&dir);
        let dir = std::fs::canonicalize(&dir).unwrap_or(dir);
        for before in ["missing", "directory", "not-text", "includes-missing", "malformed", "nothing"] {
            for (k, (text, _)) in line_pool.iter().enumerate() {
                if !w.take() {
                    continue;
                }
                let cj = json!({"kind": "file-after-failed-read", "before": before, "text": text});
                w.begin(|| cj.clone());
                let path = dir.join(format!("{}-{}.ds", before, k));
                let ps = path.to_string_lossy().to_string();
                let _ = std::fs::remove_file(&path);
                let _ = std::fs::remove_dir_all(&path);
                match before {
                    "directory" => {
                        let _ = std::fs::create_dir_all(&path);
                    }
                    "not-text" => {
                        let _ = std::fs::write(&path, [0xffu8, 0xfe, 0x00, 0xc3]);
                    }
                    "includes-missing" => {
                        let _ = std::fs::write(&path, format!("!include_files {}/no-such-file.ds\n", dir.to_string_lossy()));
                    }
                    "malformed" => {
                        let _ = std::fs::write(&path, "cmd \"abc\n");
                    }
                    _ => (),
                }
                let first = if before == "nothing" { Ok(Ok(vec![])) } else { guarded(|| parser::parse_file(&ps)) };
                let _ = std::fs::remove_dir_all(&path);
                let content = format!("{}\nlast = set line", text);
                let _ = std::fs::write(&path, &content);
                let second = guarded(|| parser::parse_file(&ps));
                let _ = std::fs::remove_file(&path);
                let n = content.lines().count();
                let verdict = match (first, second) {
                    (Err(p), _) | (_, Err(p)) => Err(("panic".to_string(), format!("parse_file panicked: {}", p))),
                    (Ok(Ok(v)), _) if before != "nothing" => Err(("harness".to_string(), format!("the first parse_file ({}) was expected to fail, gave {} instructions", before, v.len()))),
                    (_, Ok(Err(e))) => Err((format!("file-after-failed-read:rejected:{}", err_kind(&e)), format!("after parse_file of the same path failed ({}), the file {:?} is rejected: {}", before, content, e))),
                    (_, Ok(Ok(v))) => {
                        let lines_ok = v.iter().enumerate().all(|(i, ins)| ins.meta_info.line == Some(i + 1) && ins.meta_info.source.as_deref().map(|s| s.ends_with(&format!("{}-{}.ds", before, k))).unwrap_or(false));
                        if v.len() != n || !lines_ok {
                            Err(("file-after-failed-read:differs".to_string(), format!("after parse_file of the same path failed ({}), the file {:?} parses to {} instructions (lines and sources right: {})", before, content, v.len(), lines_ok)))
                        } else {
                            Ok(())
                        }
                    }
                };
                match verdict {
                    Ok(()) => w.pass(true, hash64(&("file-after-failed-read", before))),
                    Err((sig, what)) => w.fail(&sig, &what, cj),
                }
            }
        }
        let _ = std::fs::remove_dir_all(&dir);
    }

    let nmax = tier.pick(3usize, 4usize);
    let idxs: Vec<usize> = (0..line_pool.len()).collect();
    for seq in Strings::new(&idxs[..], 1, nmax) {
        for eol in ["\n", "\r\n"] {
            for fin in [false, true] {
                if !w.take() {
                    continue;
                }
                let mut text = seq.iter().map(|&k| line_pool[k].0.as_str()).collect::<Vec<_>>().join(eol);
                if fin {
                    text.push_str(eol);
                }
                let cj = json!({"kind": "script", "lines": seq, "eol": eol, "final_eol": fin, "text": text});
                w.begin(|| cj.clone());
                let res = guarded(|| parser::parse_text(&text));
                let verdict = match res {
                    Err(p) => Err(("panic".to_string(), format!("parse_text panicked: {}", p))),
                    Ok(Err(e)) => Err((format!("script-rejected:{}", err_kind(&e)), format!("script rejected: {}", e))),
                    Ok(Ok(v)) => {
                        // A script whose last line is blank and has no final line break cannot be told
                        // from the shorter script by any line-oriented reader; trailing blank lines
                        // that `str::lines` does not yield are not demanded.
                        let exp_n = text.lines().count();
                        if v.len() != exp_n {
                            Err(("script-count".to_string(), format!("{} instructions for {} lines", v.len(), exp_n)))
                        } else {
                            let mut bad = None;
                            for (k, ins) in v.iter().enumerate() {
                                if ins.meta_info.line != Some(k + 1) {
                                    bad = Some(("script-line-number".to_string(), format!("instruction {} carries line {:?}", k + 1, ins.meta_info.line)));
                                    break;
                                }
                                if plain(ins) != line_pool[seq[k]].1 {
                                    bad = Some(("script-order".to_string(), format!("instruction {} is {}", k + 1, pi_json(&plain(ins)))));
                                    break;
                                }
                            }
                            match bad {
                                Some(b) => Err(b),
                                None => Ok(()),
                            }
                        }
                    }
                };
                match verdict {
                    Ok(()) => w.pass(seq.len() > 1, hash64(&(seq.len(), eol, fin))),
                    Err((sig, what)) => w.fail(&sig, &what, cj),
                }
            }
        }
    }
}

pub fn replay(case: &Value) -> Result<String, String> {
    if case["kind"].as_str() == Some("file-after-failed-read") {
        return Ok("re-run the check: the case needs the files of the run's scratch directory (a failed parse_file followed by a parse_file of the same path on one thread)".to_string());
    }
    if case["kind"].as_str() == Some("many-lines") {
        return Ok("re-run the check: the history is rebuilt from the number of lines by the generator".to_string());
    }
    let text = case["text"].as_str().ok_or("no text")?.to_string();
    if let Some(rejected) = case["rejected"].as_str() {
        // the same thread parses the rejected text first
        let _ = guarded(|| parser::parse_text(rejected));
    }
    let r = guarded(|| parser::parse_text(&text));
    Ok(match r {
        Err(p) => format!("panic: {}", p),
        Ok(Err(e)) => format!("Err({} line {:?})", err_kind(&e), err_line(&e)),
        Ok(Ok(v)) => format!("{:?}", v.iter().map(|i| (i.meta_info.line, pi_json(&plain(i)).to_string())).collect::<Vec<_>>()),
    })
}

pub fn crash_sig(_case: &Value, kind: &str) -> String {
    kind.to_string()
}

pub const RULE: &str = "enumeration (no duplicates by construction): A) every instruction shape (label x output x command, 64, names with dots, '::', '-', '_', digits and non-ASCII letters) x every rendering style (quote-when-optional, 1|3 separator spaces, 3 leads, 6 trails incl. comments, 4 '=' spacings) x 17 argument lists (up to 8 arguments); B) every argument string up to the length bound over the 16-character alphabet {a n SP \" \\ # = : $ { % TAB LF CR NBSP e-acute}; a TAB inside an argument is written both as \\t and raw, as 1, 2 and 3 arguments, and (strings up to length 3, thorough 4) as the first, middle or last of 4, 6 and 9 arguments, x 3 shapes x 16 styles; D) every line of that pool parsed right after each of six rejected texts on the same thread (what a failed parse leaves behind must not reach the next one); D2) 5..300 (thorough 1100) different documented lines parsed one after the other on one thread in growing windows (each twice) and backwards alternating with the first: each parse gives the line's own instruction; C) every script of up to n lines from a pool of 12 lines x LF/CRLF x final line break. Oracle: parse_text(render(i)) == i. A case is non-trivial when a label or output is present or an argument needs quoting or escaping; states = distinct outcome classes (shape, argument count, character classes per argument), transitions = parse_text calls Phase B3: 413 single characters (printable ASCII, upper Latin-1, every Unicode white-space character, the characters of eight other planes that share the low byte of a syntax character) x ten argument positions (alone, leading, trailing, inside, next to a blank, doubled, between plain arguments) x 3 line shapes x 6 styles, and inside command, label and output names. Phase E: a file of documented lines (12 lines) parsed with parse_file right after parse_file of the same path failed on this thread (missing, a directory, not text, includes a missing file, malformed) or after nothing: n lines give n instructions with their line numbers and the file as source";
pub const ASSUMPTIONS: &[&str] = &["characters outside the alphabet behave like 'a' or 'e-acute' (the scanner has no other special characters)", "names are restricted to the listed labels/outputs/commands"];
pub const EXHAUSTIVE: bool = true;
pub const WALL_CAP_S: (u64, u64) = (50, 1500);
