//! C19 — script-implemented library commands leave no trace in the caller's variables.
//! Engine E3: every command that is implemented in duckscript (discovered at run time through its
//! "Show Source" help block) x every argument tuple up to an arity from the C07 value pool x
//! invocation context, with caller variables pre-set (including names that resemble the commands'
//! internal names).

use crate::engine::*;
use crate::util::*;
use duckscript::runner;
use duckscript::types::runtime::{Context, StateValue};
use serde_json::{json, Value};
use std::collections::BTreeMap;

const POOL: [&str; 19] = [
    "", "a", "a b", "é😀", "-1", "0", "2.5", "@array", "@map", "@set", "@released", "-r", "a\nb", "x,y", "*.txt", "@ownargs",
    // the caller has a variable `a`: these are other names
    " a", "a ", "\u{a0}a",
];
const CONTEXTS: [&str; 5] = ["top-level", "function", "for-body", "three-times", "condition"];

fn script_commands() -> Vec<(String, Vec<String>)> {
    let c = sdk_context().commands;
    let mut v = vec![];
    for n in c.get_all_command_names() {
        let cmd = c.get(&n).unwrap();
        if cmd.help().contains("<summary>Show Source</summary>") && !n.starts_with("std::net::") {
            v.push((n.clone(), cmd.aliases()));
        }
    }
    v
}

struct Setup {
    ctx: Context,
    array: String,
    map: String,
    set: String,
    released: String,
}

fn setup(aliases: &[String]) -> Setup {
    let mut s = Session::new();
    let get = |o: Out| match o {
        Out::Val(Some(h)) => h,
        other => panic!("harness: could not prepare a handle: {:?}", other),
    };
    // the caller's collections name each other (an item of the array is the handle of the set, an item
    // of the set is the handle of the one-item array, a key of the map is the handle of the array and
    // its value is found in the pool): a command that releases a working copy "with everything in it"
    // destroys a collection of the caller
    let one = get(s.call("array", &["only"]));
    let set = get(s.call("set_new", &["x", &one]));
    let array = get(s.call("array", &["x", "y", &set]));
    let map = get(s.call("map", &[]));
    s.call("map_put", &[&map, "k", "a"]);
    s.call("map_put", &[&map, &array, "0"]);
    let released = get(s.call("array", &["gone"]));
    s.call("release", &[&released]);
    let mut variables = std::collections::HashMap::new();
    variables.insert("a".to_string(), "value".to_string());
    variables.insert("one".to_string(), one);
    variables.insert("scope::x".to_string(), "1".to_string());
    variables.insert("xscope::concat::output".to_string(), "4".to_string());
    variables.insert("1".to_string(), "caller-one".to_string());
    for al in aliases {
        // names that resemble the internal names of the command under test
        variables.insert(format!("scope::{}x::string", al), "keep".to_string());
        variables.insert(format!("scope::{}", al), "keep2".to_string());
    }
    Setup {
        ctx: Context {
            variables,
            state: s.state,
            commands: s.commands,
        },
        array,
        map,
        set,
        released,
    }
}

fn handle_table(state: &std::collections::HashMap<String, StateValue>) -> BTreeMap<String, SV> {
    match state.get("handles") {
        Some(StateValue::SubState(m)) => m.iter().map(|(k, v)| (k.clone(), abstract_state_value(v))).collect(),
        _ => BTreeMap::new(),
    }
}

pub fn bounds(tier: Tier) -> Value {
    match tier {
        Tier::Quick => json!({"arity": 2, "pool": POOL.len(), "contexts": CONTEXTS.len()}),
        Tier::Thorough => json!({"arity": 3, "pool": POOL.len(), "contexts": CONTEXTS.len()}),
    }
}

fn build_script(ctx_kind: usize, alias: &str, nargs: usize) -> String {
    let args: String = (0..nargs).map(|i| format!(" ${{p{}}}", i + 1)).collect();
    let call = format!("out = {}{}", alias, args);
    match ctx_kind {
        0 => call,
        1 => format!("fn user_fn\n{}\nend\nuser_fn", call),
        2 => format!("for it in ${{one}}\n{}\nend", call),
        3 => format!("{}\n{}\n{}", call, call, call),
        _ => format!("if {}{}\nmarker = set 1\nend", alias, args),
    }
}

fn check_case(name: &str, aliases: &[String], tuple: &[&str], ctx_kind: usize, slot: Option<std::sync::Arc<WatchSlot>>) -> Result<u64, (String, String)> {
    let st = setup(aliases);
    let alias = aliases.first().cloned().unwrap_or_else(|| name.to_string());
    let mut ctx = st.ctx;
    let resolve = |v: &str| -> String {
        match v {
            "@array" => st.array.clone(),
            "@map" => st.map.clone(),
            "@set" => st.set.clone(),
            "@released" => st.released.clone(),
            // the name of the variable in which the command itself receives its arguments
            "@ownargs" => format!("scope::{}::arguments", alias),
            o => o.to_string(),
        }
    };
    for (i, v) in tuple.iter().enumerate() {
        ctx.variables.insert(format!("p{}", i + 1), resolve(v));
    }
    let before_vars = sorted_vars(&ctx.variables);
    let before_handles = handle_table(&ctx.state);
    let script = build_script(ctx_kind, &alias, tuple.len());
    let (env, _o, _e, h) = quiet_env();
    if let Some(s) = slot {
        *s.halt.lock().unwrap() = Some(h);
    }
    let res = runner::run_script(&script, ctx, Some(env));
    let c = match res {
        Ok(c) => c,
        Err(e) => {
            let m = e.to_string();
            let kind = if m.contains("Memory leak detected") { "leak-crash" } else { "run-failed" };
            return Err((format!("{}:{}", kind, name), format!("{} {:?} in {}: the run failed: {}", alias, tuple, CONTEXTS[ctx_kind], m.trim())));
        }
    };
    let mut after = sorted_vars(&c.variables);
    let out = after.remove("out");
    after.remove("marker");
    let mut expected = before_vars.clone();
    expected.remove("out");
    if ctx_kind == 2 {
        // the loop variable of the harness' own for loop
        after.remove("it");
    }
    if name == "std::var::Unset" {
        // documented effect: the named variables are removed
        for v in tuple {
            expected.remove(&resolve(v));
            if tuple.contains(&"@ownargs") {
                // unset told to remove the variable it reads its own arguments from: which of the other
                // names it still gets to is its own business (the statement is about what it leaves
                // behind, not about this)
                after.remove(&resolve(v));
            }
        }
    }
    if after != expected {
        let added: Vec<_> = after.iter().filter(|(k, v)| expected.get(*k) != Some(*v)).map(|(k, v)| format!("{}={:?}", k, v)).collect();
        let removed: Vec<_> = expected.iter().filter(|(k, _)| !after.contains_key(*k)).map(|(k, _)| k.clone()).collect();
        let kind = if added.iter().any(|k| k.starts_with("scope::")) { "internal-variable-left" } else if !removed.is_empty() { "caller-variable-removed" } else { "caller-variable-changed" };
        return Err((
            format!("{}:{}", kind, name),
            format!("{} {:?} in {}: variables added/changed {:?}, removed {:?}", alias, tuple, CONTEXTS[ctx_kind], added, removed),
        ));
    }
    // handle table: what was there is unchanged; at most the returned handle(s) are new
    let after_handles = handle_table(&c.state);
    for (k, v) in &before_handles {
        if after_handles.get(k) != Some(v) {
            return Err((format!("collection-changed:{}", name), format!("{} {:?} in {}: handle {} changed from {:?} to {:?}", alias, tuple, CONTEXTS[ctx_kind], k, v, after_handles.get(k))));
        }
    }
    // the temporary array that carries the arguments into the script must be gone. Other new
    // collections (the returned one, or working collections a script fails to release on an error
    // path) are not constrained by the statement; they are counted for information only.
    let new: Vec<&String> = after_handles.keys().filter(|k| !before_handles.contains_key(*k)).collect();
    if tuple.is_empty() {
        // no arguments: nothing may be allocated for passing them. A new empty list that is not the
        // returned collection can only be such a temporary.
        if let Some(k) = new.iter().find(|k| after_handles.get(**k) == Some(&SV::L(vec![])) && out.as_deref() != Some(k.as_str())) {
            if ctx_kind != 3 && ctx_kind != 4 {
                return Err((
                    format!("argument-array-left:{}", name),
                    format!("{} without arguments in {}: an empty temporary array {} was left behind", alias, CONTEXTS[ctx_kind], k),
                ));
            }
        }
    } else {
        let arg_list = SV::L(tuple.iter().map(|v| SV::S(resolve(v))).collect());
        if let Some(k) = new.iter().find(|k| after_handles.get(**k) == Some(&arg_list)) {
            return Err((
                format!("argument-array-left:{}", name),
                format!("{} {:?} in {}: the temporary argument array {} was not released", alias, tuple, CONTEXTS[ctx_kind], k),
            ));
        }
    }
    Ok(hash64(&(name, ctx_kind, out.is_some(), new.len())))
}


/// Tens of thousands of calls of one cheap script-implemented command while the caller holds
/// collections: every call makes (and gives back) an argument array, so this is also that many handles
/// made in one run - the caller's collections are what they were, no argument array remains.
fn very_many_calls(w: &mut Worker) {
    for n in w.tier.pick(vec![70_000usize], vec![70_000usize, 300_000]) {
        if !w.take() {
            continue;
        }
        let text = format!(
            "arr = array a b c\nm = map\nmap_put ${{m}} k v\ni = set 0\nwhile less_than ${{i}} {n}\ni = calc ${{i}} + 1\ne = array_is_empty ${{arr}}\nend\nlen = array_length ${{arr}}\nj = array_join ${{arr}} ,\nv = map_get ${{m}} k\nisarr = is_array ${{arr}}\nismap = is_map ${{m}}\nrelease ${{arr}}\nrelease ${{m}}",
            n = n
        );
        let cj = json!({"kind": "scale", "name": format!("very-many-calls count {}", n), "script": text});
        w.begin(|| cj.clone());
        w.add_transitions(1);
        let (env, _o, _e, _h) = quiet_env();
        match guarded(|| duckscript::runner::run_script(&text, sdk_context(), Some(env))) {
            Err(p) => w.fail("scale:panic", &p, cj),
            Ok(Err(e)) => w.fail("scale:run-failed", &format!("the run failed: {}", e), cj),
            Ok(Ok(c)) => {
                let vars = sorted_vars(&c.variables);
                let ok = vars.get("len").map(|s| s.as_str()) == Some("3")
                    && vars.get("j").map(|s| s.as_str()) == Some("a,b,c")
                    && vars.get("v").map(|s| s.as_str()) == Some("v")
                    && vars.get("isarr").map(|s| s.as_str()) == Some("true")
                    && vars.get("ismap").map(|s| s.as_str()) == Some("true")
                    && vars.get("e").map(|s| s.as_str()) == Some("false")
                    && vars.get("i") == Some(&n.to_string());
                let handles = handle_table(&c.state);
                if !ok {
                    w.fail("scale:very-many-calls:collections-changed", &format!("after {} calls of array_is_empty: len={:?} j={:?} v={:?} is_array={:?} is_map={:?}", n, vars.get("len"), vars.get("j"), vars.get("v"), vars.get("isarr"), vars.get("ismap")), cj);
                } else if !handles.is_empty() {
                    w.fail("scale:very-many-calls:handles-left", &format!("after {} calls and the release of both collections {} handles remain", n, handles.len()), cj);
                } else {
                    w.pass(true, hash64(&"scale-very-many-calls"));
                }
            }
        }
    }
}

/// Hundreds of calls of script-implemented commands (flat ones, nested ones, failing ones) in one run:
/// afterwards the variables are exactly the script's own and no temporary argument array remains.
fn scale(w: &mut Worker) {
    for n in with_thresholds_usize(w.tier.pick(vec![300usize, 3000], vec![300usize, 3000, 12000]), w.tier.pick(256, 4096)) {
        if !w.take() {
            continue;
        }
        let text = format!(
            "arr = array a b c\nm = map\nmap_put ${{m}} k v\nouts = set \"\"\ni = set 0\nwhile less_than ${{i}} {n}\ni = calc ${{i}} + 1\nj = array_join ${{arr}} ,\nc = concat x ${{i}} y\nh = map_contains_value ${{m}} v\nbad = array_join nohandle ,\ncc = array_contains ${{arr}} c\ne = array_is_empty ${{arr}}\np = join_path a ${{i}}\nend\nrelease ${{arr}}\nrelease ${{m}}\nscope::mine = set kept",
            n = n
        );
        let cj = json!({"kind": "scale", "name": format!("many-calls count {}", n), "script": text});
        w.begin(|| cj.clone());
        w.add_transitions(1);
        let (env, _o, _e, _h) = quiet_env();
        match guarded(|| duckscript::runner::run_script(&text, sdk_context(), Some(env))) {
            Err(p) => w.fail("scale:panic", &p, cj),
            Ok(Err(e)) => w.fail("scale:run-failed", &format!("the run failed: {}", e), cj),
            Ok(Ok(c)) => {
                let vars = sorted_vars(&c.variables);
                let mut expect: BTreeMap<String, String> = BTreeMap::new();
                for (k, v) in [("outs", ""), ("j", "a,b,c"), ("h", "true"), ("bad", "false"), ("cc", "2"), ("e", "false"), ("scope::mine", "kept")] {
                    expect.insert(k.to_string(), v.to_string());
                }
                expect.insert("i".into(), n.to_string());
                expect.insert("c".into(), format!("x{}y", n));
                expect.insert("p".into(), format!("a/{}", n));
                let mut got = vars.clone();
                got.remove("arr");
                got.remove("m");
                // what may not remain: a list that is the argument list of one of the calls (the
                // temporary made for passing them); other collections left behind are not the
                // statement's business
                let handles = handle_table(&c.state);
                let (arr_h, m_h) = (vars.get("arr").cloned().unwrap_or_default(), vars.get("m").cloned().unwrap_or_default());
                let mut arg_lists: std::collections::HashSet<Vec<String>> = std::collections::HashSet::new();
                for i in 1..=n {
                    let i = i.to_string();
                    for l in [
                        vec![arr_h.clone(), ",".to_string()],
                        vec!["x".to_string(), i.clone(), "y".to_string()],
                        vec![m_h.clone(), "v".to_string()],
                        vec!["nohandle".to_string(), ",".to_string()],
                        vec![arr_h.clone(), "c".to_string()],
                        vec![arr_h.clone()],
                        vec!["a".to_string(), i.clone()],
                    ] {
                        arg_lists.insert(l);
                    }
                }
                let left: Vec<&String> = handles
                    .iter()
                    .filter(|(_, v)| match v {
                        SV::L(items) => {
                            let l: Option<Vec<String>> = items.iter().map(|x| if let SV::S(t) = x { Some(t.clone()) } else { None }).collect();
                            l.map(|l| arg_lists.contains(&l)).unwrap_or(false)
                        }
                        _ => false,
                    })
                    .map(|(k, _)| k)
                    .collect();
                if got != expect {
                    let extra: Vec<&String> = got.keys().filter(|k| !expect.contains_key(*k)).collect();
                    w.fail("scale:variables-differ", &format!("after {} rounds of script commands: unexpected variables {:?}; all: {:?}", n, extra, got), cj);
                } else if !left.is_empty() {
                    w.fail("scale:argument-arrays-left", &format!("after {} rounds of script commands {} temporary argument arrays remain in the table (first {})", n, left.len(), left[0]), cj);
                } else {
                    w.pass(true, hash64(&"scale-many-calls"));
                }
            }
        }
    }
}

pub fn worker(w: &mut Worker) {
    let tier = w.tier;
    w.risky = true;
    w.set_case_limit_ms(30_000);
    scale(w);
    w.set_case_limit_ms(120_000);
    very_many_calls(w);
    w.set_case_limit_ms(4_000);
    let _ = std::fs::create_dir_all(&w.scratch);
    let work = w.scratch.join("c19-cwd");
    let _ = std::fs::create_dir_all(&work);
    std::env::set_current_dir(&work).expect("chdir to scratch");
    let _ = std::fs::write(work.join("f.txt"), "content");
    let arity = tier.pick(2usize, 3usize);
    let cmds = script_commands();
    let idx: Vec<usize> = (0..POOL.len()).collect();
    for (name, aliases) in &cmds {
        for t in Strings::new(&idx[..], 0, arity) {
            let tuple: Vec<&str> = t.iter().map(|&i| POOL[i]).collect();
            for ctx_kind in 0..CONTEXTS.len() {
                if !w.take() {
                    continue;
                }
                let cj = json!({"command": name, "args": tuple, "context": CONTEXTS[ctx_kind]});
                w.begin(|| cj.clone());
                let slot = w.watch_slot();
                let r = guarded(|| check_case(name, aliases, &tuple, ctx_kind, Some(slot)));
                w.add_transitions(1);
                match r {
                    Err(p) => w.fail(&format!("panic:{}", name), &format!("{} {:?}: {}", name, tuple, p), cj),
                    Ok(Ok(class)) => {
                        if w.want_sample() && tuple.len() == 2 && ctx_kind > 0 && w.idx() % 17 == 0 {
                            w.sample(cj.clone());
                        }
                        w.pass(!tuple.is_empty(), class)
                    }
                    Ok(Err((sig, what))) => w.fail(&sig, &what, cj),
                }
            }
        }
    }
}

pub fn replay(case: &Value) -> Result<String, String> {
    if case["kind"].as_str() == Some("scale") {
        let (env, _o, _e, _h) = quiet_env();
        return Ok(match duckscript::runner::run_script(case["script"].as_str().unwrap_or(""), sdk_context(), Some(env)) {
            Ok(c) => mask_handles(&format!("variables {:?}; handles left: {}", sorted_vars(&c.variables), handle_table(&c.state).len())),
            Err(e) => format!("failed: {}", e),
        });
    }
    let name = case["command"].as_str().ok_or("command")?;
    let cmds = script_commands();
    let (n, aliases) = cmds.iter().find(|(n, _)| n == name).ok_or("not a script-implemented command")?;
    let tuple: Vec<String> = case["args"].as_array().ok_or("args")?.iter().map(|v| v.as_str().unwrap_or("").to_string()).collect();
    let t: Vec<&str> = tuple.iter().map(|s| s.as_str()).collect();
    let ck = CONTEXTS.iter().position(|c| Some(*c) == case["context"].as_str()).unwrap_or(0);
    let dir = scratch_root().join(format!("replay-c19-{}", std::process::id()));
    let _ = std::fs::create_dir_all(&dir);
    let _ = std::env::set_current_dir(&dir);
    let r = check_case(n, aliases, &t, ck, None);
    Ok(mask_handles(&format!("{:?}", r)))
}

pub fn crash_sig(case: &Value, kind: &str) -> String {
    format!("{}:{}", kind, case["command"].as_str().unwrap_or("?"))
}

pub const RULE: &str = "commands: every standard-library command whose help carries the 'Show Source' block (that is how script-implemented commands render themselves; discovered at run time, std::net excluded) x every argument tuple up to the arity bound from a 19-value pool {empty, a, ' a', 'a ', NBSP+a, 'a b', multi-byte, -1, 0, 2.5, live array/map/set handle, released handle, -r, text with a line break, 'x,y', '*.txt', the name of the variable in which the command itself receives its arguments} x context {top level, inside a user function, inside a for body, three times in a row, as the condition of an if}; the caller's variables are pre-set, including names that resemble the internal names of the command under test (scope::<alias>x::string, scope::<alias>). Oracle: variables after the run equal the variables before it, apart from the output variable and the names given to unset; no scope:: variable is left; every pre-existing collection is unchanged; at most the returned collection is new in the handle table; the run does not fail ('Memory leak detected' is a failure). Scale case: 300 (thorough 3000) rounds of seven script-implemented commands (flat, nested, failing) in one run: afterwards the variables are exactly the script's own and no list equal to the argument list of one of the calls remains in the handle table. The caller's collections name each other (an item of the array is the handle of the set, an item of the set the handle of another array, a key of the map the handle of the array), so a command that releases a working copy together with what its items name destroys a caller's collection. Very many calls: 70000 (thorough 300000) calls of array_is_empty around two live collections: the collections are what they were and no handle remains after their release";
pub const ASSUMPTIONS: &[&str] = &["arguments are passed through caller variables p1..p3", "file-system effects of cp_glob / set_mode_glob are confined to a scratch working directory and not part of this property"];
pub const EXHAUSTIVE: bool = true;
pub const WALL_CAP_S: (u64, u64) = (58, 1700);
