//! C03 — the runner executes exactly what the command results dictate.
//! Engine E2: every small program skeleton over a scripted command, every answer sequence with a
//! bounded number of deviations from the default answer, compared with the abstract machine of
//! the statement (call log with arguments and `line`, final variables, success / failure line).

use crate::engine::*;
use crate::tape::*;
use crate::util::*;
use duckscript::runner;
use duckscript::types::command::{CommandResult, Commands, GoToValue};
use duckscript::types::runtime::Context;
use serde_json::{json, Value};
use std::cell::RefCell;
use std::collections::BTreeMap;
use std::rc::Rc;

#[derive(Clone, Copy, Debug, PartialEq, Eq, Hash)]
enum Cmd {
    None,
    K,
    Nope,
    /// a pre-processor line (`!print`): an instruction like any other for line and label positions, a
    /// no-op when the script runs
    Pre,
}

#[derive(Clone, Debug, PartialEq, Eq, Hash)]
struct Line {
    label: Option<&'static str>,
    output: bool,
    cmd: Cmd,
}

#[derive(Clone, Copy, Debug, PartialEq, Eq)]
enum OnError {
    Absent,
    Continue,
    Exit,
    Crash,
    /// the handler leaves with an exit value that would mean success elsewhere: still a failure here
    ExitZero,
    ExitCode,
    /// results of the handler that are not exit or crash are ignored
    GoTo,
    Error,
}

#[derive(Clone, Debug, PartialEq)]
enum Ans {
    Continue(Option<&'static str>),
    Label(&'static str),
    Line(usize),
    Error(&'static str),
    Crash,
    Exit(Option<&'static str>),
    /// the command changes the command table while the script runs: it removes the registered
    /// on_error command, or registers a continuing one when there is none; result Continue(None)
    SwapHandler,
    /// registers the command `nope` (unknown until then), or removes it again; result Continue(None)
    SwapNope,
}

fn menu(n: usize) -> Vec<Ans> {
    vec![
        Ans::Continue(None), // the default answer
        Ans::Continue(Some("v1")),
        Ans::Label(":a"),
        Ans::Label(":b"),
        Ans::Label(":zz"),
        Ans::Line(0),
        Ans::Line(n),
        Ans::Line(n + 5),
        Ans::Error("m1"),
        Ans::Error("bad ${x} end"),
        Ans::Crash,
        Ans::Exit(None),
        Ans::Exit(Some("0")),
        Ans::Exit(Some("3")),
        Ans::Exit(Some("-1")),
        Ans::Exit(Some("abc")),
        Ans::SwapHandler,
        Ans::SwapNope,
    ]
}

fn render_line(l: &Line) -> String {
    let mut s = String::new();
    if let Some(lb) = l.label {
        s.push_str(lb);
        s.push(' ');
    }
    if l.output {
        s.push_str("x = ");
    }
    match l.cmd {
        Cmd::None => (),
        Cmd::K => s.push_str("k p ${x}"),
        Cmd::Nope => s.push_str("nope p"),
        Cmd::Pre => s.push_str("!print -"),
    }
    s.trim_end().to_string()
}

#[derive(Clone, Debug, PartialEq)]
struct Call {
    cmd: &'static str,
    args: Vec<String>,
    line: usize,
}

#[derive(Clone, Debug, PartialEq)]
struct Outcome {
    calls: Vec<Call>,
    /// Ok(variables) or Err(line, source)
    end: Result<BTreeMap<String, String>, (Option<usize>, Option<String>)>,
}

const BUDGET: usize = 40;

/// The abstract machine of the statement.
fn reference(prog: &[Line], on_error: OnError, tape: &Tape, source: Option<&str>) -> Outcome {
    // the handler is whatever is registered under the name when the error happens
    let mut on_error = on_error;
    // a command exists from the moment it is registered, for every later line
    let mut nope_registered = false;
    let n = prog.len();
    let menu = menu(n);
    let mut labels: BTreeMap<&str, usize> = BTreeMap::new();
    for (i, l) in prog.iter().enumerate() {
        if let Some(lb) = l.label {
            labels.insert(lb, i); // later duplicates win
        }
    }
    let mut vars: BTreeMap<String, String> = BTreeMap::new();
    vars.insert("x".into(), "X0".into());
    let mut calls = vec![];
    let mut pc = 0usize;
    let fail = |pc: usize| Err((Some(pc + 1), source.map(|s| s.to_string())));
    let mut kcalls = 0;
    loop {
        if pc >= n {
            return Outcome { calls, end: Ok(vars) };
        }
        let l = &prog[pc];
        let set_out = |vars: &mut BTreeMap<String, String>, v: Option<&str>| {
            if l.output {
                match v {
                    Some(v) => {
                        vars.insert("x".into(), v.into());
                    }
                    None => {
                        vars.remove("x");
                    }
                }
            }
        };
        match l.cmd {
            Cmd::None => {
                set_out(&mut vars, None);
                pc += 1;
            }
            Cmd::Pre => pc += 1,
            Cmd::Nope => {
                if !nope_registered {
                    return Outcome { calls, end: fail(pc) };
                }
                calls.push(Call {
                    cmd: "nope",
                    args: vec!["p".into()],
                    line: pc,
                });
                set_out(&mut vars, None);
                pc += 1;
            }
            Cmd::K => {
                calls.push(Call {
                    cmd: "k",
                    args: vec!["p".into(), vars.get("x").cloned().unwrap_or_default()],
                    line: pc,
                });
                kcalls += 1;
                let ans = if kcalls > BUDGET {
                    Ans::Crash
                } else {
                    menu[tape.choose(pc as u32, menu.len() as u16) as usize].clone()
                };
                match ans {
                    Ans::Continue(v) => {
                        set_out(&mut vars, v);
                        pc += 1;
                    }
                    Ans::SwapHandler => {
                        on_error = if on_error == OnError::Absent { OnError::Continue } else { OnError::Absent };
                        set_out(&mut vars, None);
                        pc += 1;
                    }
                    Ans::SwapNope => {
                        nope_registered = !nope_registered;
                        set_out(&mut vars, None);
                        pc += 1;
                    }
                    Ans::Label(lb) => {
                        set_out(&mut vars, None);
                        match labels.get(lb) {
                            Some(t) => pc = *t,
                            None => return Outcome { calls, end: fail(pc) },
                        }
                    }
                    Ans::Line(t) => {
                        set_out(&mut vars, None);
                        pc = t;
                    }
                    Ans::Crash => return Outcome { calls, end: fail(pc) },
                    Ans::Exit(v) => {
                        set_out(&mut vars, v);
                        if l.output {
                            // whether the value given to exit is stored in the output variable is not
                            // part of the statement: the variable is not compared after such an exit
                            vars.insert("x".into(), "<open>".into());
                        }
                        let code = v.and_then(|s| s.parse::<i32>().ok()).unwrap_or(0);
                        if code != 0 {
                            return Outcome { calls, end: fail(pc) };
                        }
                        return Outcome { calls, end: Ok(vars) };
                    }
                    Ans::Error(msg) => {
                        set_out(&mut vars, Some("false"));
                        match on_error {
                            OnError::Absent => (),
                            oe => {
                                calls.push(Call {
                                    cmd: "on_error",
                                    // the handler runs after 'false' was stored: what it finds in x is recorded too
                                    args: vec![msg.to_string(), (pc + 1).to_string(), source.unwrap_or("").to_string(), format!("x={:?}", vars.get("x"))],
                                    line: 0,
                                });
                                match oe {
                                    OnError::Exit | OnError::Crash | OnError::ExitZero | OnError::ExitCode => return Outcome { calls, end: fail(pc) },
                                    _ => (),
                                }
                            }
                        }
                        pc += 1;
                    }
                }
            }
        }
    }
}

struct Rig {
    commands: Commands,
    calls: Rc<RefCell<Vec<Call>>>,
    tape: Rc<RefCell<Tape>>,
    n: Rc<RefCell<usize>>,
}

impl Rig {
    fn new(on_error: OnError) -> Rig {
        let calls: Rc<RefCell<Vec<Call>>> = Rc::new(RefCell::new(vec![]));
        let tape: Rc<RefCell<Tape>> = Rc::new(RefCell::new(Tape::default()));
        let n: Rc<RefCell<usize>> = Rc::new(RefCell::new(0));
        let mut commands = Commands::new();
        {
            let (calls, tape, n) = (calls.clone(), tape.clone(), n.clone());
            commands
                .set(fn_command("k", move |c| {
                    calls.borrow_mut().push(Call {
                        cmd: "k",
                        args: c.arguments.clone(),
                        line: c.line,
                    });
                    let kcalls = calls.borrow().iter().filter(|c| c.cmd == "k").count();
                    let menu = menu(*n.borrow());
                    let ans = if kcalls > BUDGET {
                        Ans::Crash
                    } else {
                        menu[tape.borrow().choose(c.line as u32, menu.len() as u16) as usize].clone()
                    };
                    match ans {
                        Ans::SwapHandler => {
                            if c.commands.exists("on_error") {
                                c.commands.remove("on_error");
                            } else {
                                let calls = calls.clone();
                                let _ = c.commands.set(fn_command("on_error", move |c| {
                                    let mut args = c.arguments.clone();
                                    args.push(format!("x={:?}", c.variables.get("x")));
                                    calls.borrow_mut().push(Call { cmd: "on_error", args, line: c.line });
                                    CommandResult::Continue(Some("ignored".to_string()))
                                }));
                            }
                            CommandResult::Continue(None)
                        }
                        Ans::SwapNope => {
                            if c.commands.exists("nope") {
                                c.commands.remove("nope");
                            } else {
                                let calls = calls.clone();
                                let _ = c.commands.set(fn_command("nope", move |c| {
                                    calls.borrow_mut().push(Call {
                                        cmd: "nope",
                                        args: c.arguments.clone(),
                                        line: c.line,
                                    });
                                    CommandResult::Continue(None)
                                }));
                            }
                            CommandResult::Continue(None)
                        }
                        Ans::Continue(v) => CommandResult::Continue(v.map(String::from)),
                        Ans::Label(l) => CommandResult::GoTo(None, GoToValue::Label(l.to_string())),
                        Ans::Line(t) => CommandResult::GoTo(None, GoToValue::Line(t)),
                        Ans::Error(m) => CommandResult::Error(m.to_string()),
                        Ans::Crash => CommandResult::Crash("boom".to_string()),
                        Ans::Exit(v) => CommandResult::Exit(v.map(String::from)),
                    }
                }))
                .unwrap();
        }
        if on_error != OnError::Absent {
            let calls = calls.clone();
            commands
                .set(fn_command("on_error", move |c| {
                    let mut args = c.arguments.clone();
                    args.push(format!("x={:?}", c.variables.get("x")));
                    calls.borrow_mut().push(Call { cmd: "on_error", args, line: c.line });
                    match on_error {
                        OnError::Exit => CommandResult::Exit(None),
                        OnError::ExitZero => CommandResult::Exit(Some("0".to_string())),
                        OnError::ExitCode => CommandResult::Exit(Some("3".to_string())),
                        OnError::GoTo => CommandResult::GoTo(Some("ignored".to_string()), duckscript::types::command::GoToValue::Line(0)),
                        OnError::Error => CommandResult::Error("error of the handler".to_string()),
                        OnError::Crash => CommandResult::Crash("handler crashed".to_string()),
                        _ => CommandResult::Continue(Some("ignored".to_string())),
                    }
                }))
                .unwrap();
        }
        Rig { commands, calls, tape, n }
    }

    fn run(&self, text: &str, n: usize, file: Option<&str>, decided: &[(Key, u16)]) -> (Outcome, Vec<(Key, u16)>) {
        *self.tape.borrow_mut() = Tape::with(decided);
        *self.n.borrow_mut() = n;
        self.calls.borrow_mut().clear();
        let mut ctx = Context::new();
        ctx.commands = self.commands.clone();
        ctx.variables.insert("x".into(), "X0".into());
        let (env, _o, _e, _h) = quiet_env();
        let r = match file {
            Some(f) => runner::run_script_file(f, ctx, Some(env)),
            None => runner::run_script(text, ctx, Some(env)),
        };
        // a source tag is compared as "the same file", not as a spelling of its path
        let canon = |s: String| std::fs::canonicalize(&s).map(|p| p.to_string_lossy().to_string()).unwrap_or(s);
        let end = match r {
            Ok(c) => Ok(sorted_vars(&c.variables)),
            Err(e) => Err((err_line(&e), err_source(&e).map(canon))),
        };
        let q = self.tape.borrow().queried();
        let mut calls = self.calls.borrow().clone();
        for c in calls.iter_mut() {
            if c.cmd == "on_error" && c.args.len() == 4 && !c.args[2].is_empty() {
                c.args[2] = canon(c.args[2].clone());
            }
        }
        (Outcome { calls, end }, q)
    }
}

pub fn bounds(tier: Tier) -> Value {
    match tier {
        Tier::Quick => json!({"lines": 3, "deviations": 2, "horizon": 8, "answers_per_choice": 18}),
        Tier::Thorough => json!({"lines": 4, "deviations": 3, "horizon": 8, "answers_per_choice": 18}),
    }
}

/// a variable the abstract machine leaves open is not compared
fn mask_open(got: &mut Outcome, exp: &Outcome) {
    if let (Ok(g), Ok(e)) = (&mut got.end, &exp.end) {
        for (k, v) in e {
            if v == "<open>" {
                g.insert(k.clone(), "<open>".into());
            }
        }
    }
}

fn line_forms() -> Vec<Line> {
    let mut v = vec![];
    for label in [None, Some(":a"), Some(":b")] {
        v.push(Line { label, output: false, cmd: Cmd::None });
        v.push(Line { label, output: false, cmd: Cmd::K });
        v.push(Line { label, output: true, cmd: Cmd::K });
        v.push(Line { label, output: false, cmd: Cmd::Nope });
    }
    // an output variable without a command: the runner's result for such a line is "continue without a
    // value", so the variable is deleted
    v.push(Line { label: None, output: true, cmd: Cmd::None });
    v.push(Line { label: Some(":a"), output: true, cmd: Cmd::None });
    v.push(Line { label: None, output: false, cmd: Cmd::Pre });
    v
}

fn classify(a: &Outcome, b: &Outcome) -> &'static str {
    if a.calls.len() != b.calls.len() {
        return "call-sequence-differs";
    }
    for (x, y) in a.calls.iter().zip(b.calls.iter()) {
        if x.cmd != y.cmd {
            return "call-sequence-differs";
        }
        if x.args != y.args {
            if x.cmd == "on_error" {
                return "on_error-arguments-differ";
            }
            return "call-arguments-differ";
        }
        if x.line != y.line {
            return "call-line-differs";
        }
    }
    match (&a.end, &b.end) {
        (Ok(_), Ok(_)) => "final-variables-differ",
        (Err(_), Err(_)) => "failure-position-differs",
        (Ok(_), Err(_)) => "run-succeeded-but-must-fail",
        (Err(_), Ok(_)) => "run-failed-but-must-succeed",
    }
}


/// Programs of hundreds and thousands of lines: far jumps forward and backward, a jump past the
/// end, errors on the first and on the last line (the line number handed to on_error).
/// A script given as a file is the script given as text: for files whose size, and the byte offset of a
/// multi-byte character in them, lie around every power of two and power of ten (where a reader's
/// buffer has its edges), run_script_file ends with the variables run_script of the same text ends with.
fn file_offsets(w: &mut Worker) {
    let dir = w.scratch.join("c03-offsets");
    let _ = std::fs::create_dir_all(&dir);
    let file = dir.join("script.ds");
    let caps = w.tier.pick(65536u64, 1 << 20);
    let mut boundaries: Vec<u64> = vec![];
    let mut p = 512u64;
    while p <= caps {
        boundaries.push(p);
        p *= 2;
    }
    boundaries.extend([1000, 10_000, 100_000].iter().filter(|b| **b <= caps));
    for b in boundaries {
        for delta in -4i64..=1 {
            for ch in ["é", "日", "😀"] {
                if !w.take() {
                    continue;
                }
                // comment padding up to the wanted offset, then a statement whose multi-byte character
                // starts there, a jump by a label that holds it, and a marker at the end
                let at = (b as i64 + delta) as usize;
                let head = format!("v = set {}", "");
                let _ = head;
                let stmt_prefix = "v = set \"x";
                let mut text = String::from("a = set first\n");
                let need = at.saturating_sub(text.len() + stmt_prefix.len() + 1);
                // comment lines of at most 100 characters
                let mut left = need;
                while left > 0 {
                    let take = left.min(100);
                    if take == 1 {
                        text.push('\n');
                    } else {
                        text.push('#');
                        text.push_str(&"-".repeat(take - 2));
                        text.push('\n');
                    }
                    left -= take;
                }
                text.push_str(stmt_prefix);
                let offset = text.len();
                text.push_str(ch);
                text.push_str(&format!("y\"\ngoto :l{}\nskipped = set yes\n:l{} after = set reached\n", ch, ch));
                let cj = json!({"kind": "file-offset", "boundary": b, "offset": offset, "char": ch, "size": text.len()});
                w.begin(|| cj.clone());
                w.add_transitions(2);
                if let Err(e) = std::fs::write(&file, &text) {
                    w.fail("harness:io", &e.to_string(), cj);
                    continue;
                }
                let run = |from_file: bool| -> Result<std::collections::BTreeMap<String, String>, String> {
                    let (env, _o, _e, _h) = quiet_env();
                    let r = guarded(|| {
                        if from_file {
                            duckscript::runner::run_script_file(&file.to_string_lossy(), sdk_context(), Some(env))
                        } else {
                            duckscript::runner::run_script(&text, sdk_context(), Some(env))
                        }
                    });
                    match r {
                        Err(p) => Err(format!("panic: {}", p)),
                        Ok(Err(e)) => Err(format!("failed: {}", e)),
                        Ok(Ok(c)) => Ok(c.variables.into_iter().collect()),
                    }
                };
                let (t, f) = (run(false), run(true));
                let expect_v = format!("x{}y", ch);
                match (&t, &f) {
                    (Ok(tv), _) if tv.get("v") != Some(&expect_v) || tv.get("after").map(|s| s.as_str()) != Some("reached") || tv.contains_key("skipped") => {
                        w.fail("harness:file-offset", &format!("the text itself ends with {:?}", tv), cj)
                    }
                    (Ok(tv), Ok(fv)) if tv == fv => w.pass(true, hash64(&("file-offset", ch))),
                    _ => w.fail(
                        "file-offset:file-and-text-differ",
                        &format!("a script of {} bytes with {:?} at byte {} (boundary {}): as text {:?}, as a file {:?}", text.len(), ch, offset, b, t.as_ref().map(|v| v.get("after")), f.as_ref().map(|v| v.get("after")).map_err(|e| e.chars().take(200).collect::<String>())),
                        json!({"kind": "file-offset", "boundary": b, "offset": offset, "char": ch, "size": text.len(), "script": text}),
                    ),
                }
            }
        }
    }
    let _ = std::fs::remove_dir_all(&dir);
}

fn scale(w: &mut Worker) {
    file_offsets(w);
    let sizes: Vec<usize> = with_thresholds_usize(w.tier.pick(vec![300, 3000, 12_000, 70_000], vec![300, 3000, 12_000, 70_000, 100_000, 300_000]), w.tier.pick(4096, 65536));
    let rig = Rig::new(OnError::Continue);
    let k = |label: Option<&'static str>, output: bool| Line { label, output, cmd: Cmd::K };
    let nope = Line { label: None, output: false, cmd: Cmd::Nope };
    let blank = Line { label: None, output: false, cmd: Cmd::None };
    for &n in &sizes {
        let last = (n - 1) as u32;
        let mut cases: Vec<(&str, Vec<Line>, Vec<(Key, u16)>)> = vec![];
        // forward jump by label over n-2 lines that must not run
        let mut p = vec![k(None, false)];
        p.extend(std::iter::repeat(nope.clone()).take(n - 2));
        p.push(k(Some(":b"), true));
        cases.push(("far-forward-label", p.clone(), vec![((0, 0), 3)]));
        // jump past the end by line number
        cases.push(("jump-past-end", p.clone(), vec![((0, 0), 6)]));
        // backward jump from the last line to the first, once
        let mut p = vec![k(Some(":a"), false)];
        p.extend(std::iter::repeat(blank.clone()).take(n - 2));
        p.push(k(None, true));
        cases.push(("far-backward-label", p.clone(), vec![((last, 0), 2)]));
        cases.push(("far-backward-line", p.clone(), vec![((last, 0), 5)]));
        // errors on the first and on the last line
        cases.push(("errors-first-and-last", p.clone(), vec![((0, 0), 8), ((last, 0), 9)]));
        for (name, prog, decided) in cases {
            if !w.take() {
                continue;
            }
            let text = prog.iter().map(render_line).collect::<Vec<_>>().join("\n");
            let cj = json!({"program": text, "on_error": "Continue", "as_file": false, "scale": name, "decided": decided.iter().map(|(k, c)| json!([k.0, k.1, c])).collect::<Vec<_>>()});
            w.begin(|| cj.clone());
            w.add_transitions(1);
            let res = guarded(|| rig.run(&text, prog.len(), None, &decided));
            match res {
                Err(pn) => w.fail("scale:panic", &format!("{} with {} lines: panic {}", name, n, pn), cj),
                Ok((mut got, _)) => {
                    let exp = reference(&prog, OnError::Continue, &Tape::with(&decided), None);
                    mask_open(&mut got, &exp);
                    if got == exp {
                        w.pass(true, hash64(&("scale", name)));
                    } else {
                        w.fail(
                            &format!("scale:{}", classify(&got, &exp)),
                            &format!("{} with {} lines: implementation calls {:?} end {:?}, abstract machine calls {:?} end {:?}", name, n, got.calls, got.end, exp.calls, exp.end),
                            cj,
                        );
                    }
                }
            }
        }
    }
}

/// A script in which every node has a label of its own and jumps to the label of the next node of a
/// tour over all nodes (a stride that shares no factor with the number of nodes; also the identity tour
/// and the reversed one): every jump lands on the line carrying that label, each node is visited once, in
/// the order of the tour.
fn many_labels(w: &mut Worker) {
    let sizes: Vec<usize> = with_thresholds_usize(w.tier.pick(vec![2, 17, 70, 300, 3000], vec![2, 17, 70, 300, 3000, 12_000]), w.tier.pick(1024, 4096));
    for &n in &sizes {
        for stride_kind in ["next", "previous", "seven", "near-half"] {
            let stride = match stride_kind {
                "next" => 1,
                "previous" => n - 1,
                "seven" => 7 % n,
                _ => n / 2 + 1,
            };
            let gcd = |mut a: usize, mut b: usize| {
                while b != 0 {
                    let t = a % b;
                    a = b;
                    b = t;
                }
                a
            };
            if stride == 0 || gcd(stride, n) != 1 {
                continue;
            }
            let mut lines = vec!["seq = set \"\"".to_string(), "visits = set 0".to_string(), "goto :node0".to_string()];
            let mut order = vec![];
            let mut at = 0usize;
            for _ in 0..n {
                order.push(at);
                at = (at + stride) % n;
            }
            let next_of: std::collections::HashMap<usize, Option<usize>> = order.iter().enumerate().map(|(k, &i)| (i, order.get(k + 1).cloned())).collect();
            for i in 0..n {
                lines.push(format!(":node{} seq = set \"${{seq}} {}\"", i, i));
                lines.push("visits = calc ${visits} + 1".to_string());
                match next_of[&i] {
                    Some(j) => lines.push(format!("goto :node{}", j)),
                    None => lines.push("goto :done".to_string()),
                }
            }
            lines.push("fell = set through".to_string());
            lines.push(":done fin = set reached".to_string());
            let seq: String = order.iter().map(|i| format!(" {}", i)).collect();
            // compare a digest of the order rather than the text itself: the text grows with n
            lines.push(format!("same = equals \"${{seq}}\" \"{}\"", seq));
            lines.push("seq = set done".to_string());
            scale_case(w, &format!("many-labels nodes {} tour {}", n, stride_kind), &lines.join("\n"), &[("visits", Some(n.to_string())), ("same", Some("true".into())), ("fin", Some("reached".into())), ("fell", None)]);
        }
    }
}

pub fn worker(w: &mut Worker) {
    let tier = w.tier;
    scale(w);
    many_labels(w);
    let forms = line_forms();
    let nmax = tier.pick(3usize, 4usize);
    let (devs, horizon) = tier.pick((2usize, 8usize), (3usize, 8usize));
    let idx: Vec<usize> = (0..forms.len()).collect();
    let configs = [OnError::Absent, OnError::Continue, OnError::Exit, OnError::Crash, OnError::ExitZero, OnError::ExitCode, OnError::GoTo, OnError::Error];
    let rigs: Vec<Rig> = configs.iter().map(|c| Rig::new(*c)).collect();
    // the script file has a name (and a directory) a path-handling slip would trip over: a blank, a
    // backslash, a multi-byte letter, a '#', an upper-case letter
    let file_dir = w.scratch.join("c03 d\\ir É#1");
    let _ = std::fs::create_dir_all(&file_dir);
    let file = file_dir.join("scr\\ipt é #2.ds");
    std::fs::write(&file, "").expect("scratch file");
    let file_raw = file.to_string_lossy().to_string();
    let file_s = std::fs::canonicalize(&file).map(|p| p.to_string_lossy().to_string()).unwrap_or(file_raw);
    for seq in Strings::new(&idx[..], 1, nmax) {
        let prog: Vec<Line> = seq.iter().map(|&i| forms[i].clone()).collect();
        // a program without any scripted command has a single execution; keep only one per length
        let nk = prog.iter().filter(|l| l.cmd == Cmd::K).count();
        for (ci, cfg) in configs.iter().enumerate() {
            if nk == 0 && ci > 0 {
                continue;
            }
            // on_error variants matter only when an error answer is possible: any program with a `k`
            for as_file in [false, true] {
                if as_file && (prog.len() > 2 || *cfg == OnError::Crash) {
                    continue; // the file form is exercised on the smaller programs
                }
                if !w.take() {
                    continue;
                }
                let text = prog.iter().map(render_line).collect::<Vec<_>>().join("\n");
                let cj = json!({"program": text, "on_error": format!("{:?}", cfg), "as_file": as_file});
                w.begin(|| cj.clone());
                if as_file {
                    std::fs::write(&file, &text).expect("write script");
                }
                let src = if as_file { Some(file_s.as_str()) } else { None };
                let rig = &rigs[ci];
                let mut ex = Explorer {
                    max_deviations: if nk == 0 { 0 } else { devs },
                    horizon,
                    max_runs: 2_000_000,
                    runs: 0,
                    capped: false,
                };
                let mut failure: Option<(String, String, Value)> = None;
                let mut nontrivial = 0u64;
                let mut outcomes: Vec<u64> = vec![];
                let mut sample: Option<Value> = None;
                let n = prog.len();
                ex.explore(&mut |decided| {
                    let res = guarded(|| rig.run(&text, n, src, decided));
                    let (got, queried) = match res {
                        Ok(x) => x,
                        Err(p) => {
                            failure = Some(("panic".into(), format!("panic: {}", p), json!({"decided": decided})));
                            return (vec![], false);
                        }
                    };
                    let tape = Tape::with(decided);
                    let exp = reference(&prog, *cfg, &tape, src);
                    let mut got = got;
                    mask_open(&mut got, &exp);
                    if got != exp {
                        let sig = classify(&got, &exp);
                        failure = Some((
                            sig.to_string(),
                            format!("program {:?} on_error={:?} answers {:?}: implementation {:?}, abstract machine {:?}", text, cfg, decided, got, exp),
                            json!({"decided": decided.iter().map(|(k, c)| json!([k.0, k.1, c])).collect::<Vec<_>>()}),
                        ));
                        return (queried, false);
                    }
                    let jumped = decided.iter().any(|(_, c)| *c != 0);
                    if jumped {
                        nontrivial += 1;
                    }
                    outcomes.push(hash64(&(got.calls.len().min(6), got.end.is_ok(), decided.iter().filter(|(_, c)| *c != 0).count())));
                    if sample.is_none() && decided.iter().filter(|(_, c)| *c != 0).count() >= 2 {
                        sample = Some(json!({"program": text, "on_error": format!("{:?}", cfg), "answers": decided.iter().map(|(k, c)| json!({"line": k.0, "occurrence": k.1, "answer": format!("{:?}", menu(n)[*c as usize])})).collect::<Vec<_>>(), "calls": got.calls.len(), "ok": got.end.is_ok()}));
                    }
                    (queried, true)
                });
                w.add_transitions(ex.runs);
                w.add_traces(ex.runs);
                w.count("executions", ex.runs);
                w.count("executions_with_deviation", nontrivial);
                if ex.capped {
                    w.count("programs_capped", 1);
                }
                for o in outcomes {
                    w.add_state(o);
                }
                if let Some(s) = sample {
                    if w.want_sample() {
                        w.sample(s);
                    }
                }
                match failure {
                    None => w.pass(nk > 0, hash64(&(nk, prog.len(), ci))),
                    Some((sig, what, mut extra)) => {
                        extra["program"] = json!(text);
                        extra["on_error"] = json!(format!("{:?}", cfg));
                        extra["as_file"] = json!(as_file);
                        w.fail(&sig, &what, extra)
                    }
                }
            }
        }
    }
}

fn parse_prog(text: &str) -> Vec<Line> {
    text.split('\n')
        .map(|l| {
            let mut rest = l.trim();
            let mut label = None;
            for lb in [":a", ":b"] {
                if rest.starts_with(lb) {
                    label = Some(lb);
                    rest = rest[lb.len()..].trim();
                }
            }
            let output = rest.starts_with("x =");
            if output {
                rest = rest[3..].trim();
            }
            let cmd = if rest.starts_with("!print") {
                Cmd::Pre
            } else if rest.starts_with("k") {
                Cmd::K
            } else if rest.starts_with("nope") {
                Cmd::Nope
            } else {
                Cmd::None
            };
            Line { label, output, cmd }
        })
        .collect()
}

pub fn replay(case: &Value) -> Result<String, String> {
    if let Some(r) = scale_replay(case) {
        return r;
    }
    if case["kind"].as_str() == Some("file-offset") {
        let text = case["script"].as_str().ok_or("no script")?;
        let dir = scratch_root().join(format!("replay-c03-{}", std::process::id()));
        let _ = std::fs::create_dir_all(&dir);
        let file = dir.join("script.ds");
        std::fs::write(&file, text).map_err(|e| e.to_string())?;
        let show = |r: Result<duckscript::types::runtime::Context, duckscript::types::error::ScriptError>| match r {
            Ok(c) => format!("ends with after={:?} v={:?}", c.variables.get("after"), c.variables.get("v")),
            Err(e) => format!("fails: {}", e),
        };
        let (e1, _o, _e, _h) = quiet_env();
        let (e2, _o2, _e2, _h2) = quiet_env();
        let a = show(duckscript::runner::run_script(text, sdk_context(), Some(e1)));
        let b = show(duckscript::runner::run_script_file(&file.to_string_lossy(), sdk_context(), Some(e2))).replace(&dir.to_string_lossy().to_string(), "<dir>");
        let _ = std::fs::remove_dir_all(&dir);
        return Ok(format!("as text: {}\nas a file: {}", a, b));
    }
    let text = case["program"].as_str().ok_or("no program")?.to_string();
    let cfg = match case["on_error"].as_str().unwrap_or("Absent") {
        "Continue" => OnError::Continue,
        "Exit" => OnError::Exit,
        "Crash" => OnError::Crash,
        "ExitZero" => OnError::ExitZero,
        "ExitCode" => OnError::ExitCode,
        "GoTo" => OnError::GoTo,
        "Error" => OnError::Error,
        _ => OnError::Absent,
    };
    let decided: Vec<(Key, u16)> = case["decided"]
        .as_array()
        .map(|a| {
            a.iter()
                .map(|e| ((e[0].as_u64().unwrap_or(0) as u32, e[1].as_u64().unwrap_or(0) as u32), e[2].as_u64().unwrap_or(0) as u16))
                .collect()
        })
        .unwrap_or_default();
    let prog = parse_prog(&text);
    let rig = Rig::new(cfg);
    let as_file = case["as_file"].as_bool().unwrap_or(false);
    let dir = scratch_root().join(format!("replay-{}", std::process::id()));
    let _ = std::fs::create_dir_all(&dir);
    let f = dir.join("scr\\ipt é #2.ds");
    std::fs::write(&f, &text).map_err(|e| e.to_string())?;
    let fs = std::fs::canonicalize(&f).map(|p| p.to_string_lossy().to_string()).unwrap_or_else(|_| f.to_string_lossy().to_string());
    let src = if as_file { Some(fs.as_str()) } else { None };
    let (mut got, _) = rig.run(&text, prog.len(), src, &decided);
    let exp = reference(&prog, cfg, &Tape::with(&decided), src);
    mask_open(&mut got, &exp);
    let _ = std::fs::remove_dir_all(&dir);
    let mask = |s: String| s.replace(&fs, "<file>");
    Ok(mask(format!("implementation: {:?}\nabstract machine: {:?}\nagree: {}", got, exp, got == exp)))
}

pub fn crash_sig(_case: &Value, kind: &str) -> String {
    kind.to_string()
}

pub const RULE: &str = "programs: every sequence of 1..n lines over 15 line forms (a pre-processor line `!print -`, `x =` and `:a x =`, and label none/:a/:b x {no command, `k p ${x}`, `x = k p ${x}`, unknown command `nope p`}), duplicates of labels included; configurations: on_error command absent / continuing / exiting / crashing, script as text and (small programs) as file; answers: at every invocation of the scripted command k one of 18 results (Continue with/without value, Continue after removing the registered on_error command / registering one where there is none, Continue after registering / removing the command `nope` that other lines use, GoTo label :a/:b/undefined, GoTo line 0/n/n+5, Error with plain message / message containing ${x}, Crash, Exit none/0/3/-1/abc), explored with a bounded number of deviations from the default answer within a horizon of choice points. Every execution of the real runner is compared with the abstract machine run on the same answers: sequence of invocations with bound arguments and the `line` each command sees, on_error arguments (message, 1-based line, source) and the value the handler finds in the output variable when it runs, final variables, success or failure with source line and file. Scale cases: programs of 300/3000 (thorough 100000) lines with a far forward jump by label over unknown commands, a jump past the end, far backward jumps by label and by line, errors on the first and last line. evaluations = programs x configurations; transitions = executions; states = distinct (calls, outcome, deviations) classes. on_error configurations: absent, continuing, exit (no value, 0, 3), crash, goto and error results of the handler (only exit and crash fail the run). File offsets: scripts as files with a 2-, 3- or 4-byte character starting 5..0 bytes in front of every power of two from 512 to 65536 (thorough 2^20) and of 1000 / 10000 / 100000: run_script_file ends with the variables run_script of the same text ends with. The script file of the file runs lives under a directory and a name with a blank, a backslash, multi-byte and upper-case letters and a '#' Many labels: scripts of 2..3000 (thorough 12000) nodes (threshold sizes), each with a label of its own, visited by jumps along a tour over all nodes (next, previous, stride 7, stride just over half): every node once, in the order of the tour, then the end.";
pub const ASSUMPTIONS: &[&str] = &["a line with an output variable and no command (`x =`) is a continue result without a value: that is what the public run_instruction returns for it, so the variable is deleted", "error messages are compared only through the on_error arguments; failures are compared by line and source file"];
pub const EXHAUSTIVE: bool = true;
pub const WALL_CAP_S: (u64, u64) = (55, 1500);
