//! C13 — setting the halt flag stops the run at the next instruction boundary.
//! Engine E2 with a controlled scheduler: every registered command is wrapped; the wrapper is the
//! scheduling point. For every program and every command entry k (top level or nested) of the
//! unhalted run up to a horizon — plus "already set before the run" — the flag is raised at that
//! point, either by the running command itself or by a second OS thread that the wrapper hands
//! control to (rendezvous), and the halted run is compared with the unhalted one.

use crate::engine::*;
use crate::flow::*;
use crate::props::c04::{build, forests};
use crate::tape::*;
use crate::util::*;
use duckscript::runner;
use duckscript::types::command::{Command, CommandInvocationContext, CommandResult, Commands};
use duckscript::types::env::Env;
use duckscript::types::runtime::Context;
use serde_json::{json, Value};
use std::cell::{Cell, RefCell};
use std::collections::BTreeMap;
use std::rc::Rc;
use std::sync::atomic::{AtomicBool, Ordering};
use std::sync::mpsc::{channel, Receiver, Sender};
use std::sync::Arc;

#[derive(Clone, Copy, PartialEq, Debug)]
enum Setter {
    None,
    SelfSet,
    Thread,
    /// like SelfSet, but the embedder keeps no handle on the flag: the run's own Env is its only owner
    SelfSetSole,
    /// the flag is raised through the handle the embedder kept (not through the run's Env), and the Env was
    /// built without writers: Env::new(None, None, Some(flag))
    Embedder,
}

struct Probe {
    entered: Cell<usize>,
    depth: Cell<usize>,
    log: RefCell<Vec<(String, usize)>>,
    /// (entry index, variables at that top-level entry, collections behind handles at that entry)
    snaps: RefCell<Vec<(usize, BTreeMap<String, String>)>>,
    state_snaps: RefCell<Vec<(usize, Vec<String>)>>,
    halt_at: Cell<usize>,
    setter: Cell<Setter>,
    to_setter: Sender<Arc<AtomicBool>>,
    ack: Receiver<()>,
    /// budget for the reference run of non-terminating programs
    stop_at: Cell<usize>,
    /// names wrapped so far (commands registered while the script runs are wrapped on the fly)
    wrapped: RefCell<std::collections::HashSet<String>>,
    /// the handle on the halt flag that the embedder (Rig::run) kept for itself
    outer_halt: RefCell<Option<Arc<AtomicBool>>>,
}

impl Probe {
    fn enter(&self, name: String, c: &CommandInvocationContext) {
        let idx = self.entered.get() + 1;
        self.entered.set(idx);
        let mut d = self.depth.get();
        if d == 0 && name == "std::error::OnError" {
            // the runner reports the error of the instruction in flight: not a new instruction
            d = 1;
        }
        self.log.borrow_mut().push((name, d));
        if d == 0 {
            let mut vars = sorted_vars(c.variables);
            for (_, v) in vars.iter_mut() {
                if is_handle_text(v) {
                    *v = "<handle>".into();
                }
            }
            self.snaps.borrow_mut().push((idx, vars));
            self.state_snaps.borrow_mut().push((idx, collections_of(c.state)));
        }
        self.depth.set(self.depth.get() + 1);
        if idx == self.halt_at.get() {
            match self.setter.get() {
                Setter::SelfSet | Setter::SelfSetSole => c.env.halt.store(true, Ordering::SeqCst),
                Setter::Thread => {
                    // hand control to the second thread: it stores the flag and acknowledges
                    self.to_setter.send(c.env.halt.clone()).expect("setter thread");
                    self.ack.recv().expect("setter ack");
                }
                Setter::Embedder => {
                    if let Some(h) = self.outer_halt.borrow().as_ref() {
                        h.store(true, Ordering::SeqCst);
                    }
                }
                Setter::None => (),
            }
        }
        if idx == self.stop_at.get() {
            c.env.halt.store(true, Ordering::SeqCst);
        }
    }
    fn exit(&self) {
        self.depth.set(self.depth.get() - 1);
    }
}

#[derive(Clone)]
struct Wrapped {
    inner: Box<dyn Command>,
    probe: Rc<Probe>,
}

impl Command for Wrapped {
    fn name(&self) -> String {
        self.inner.name()
    }
    fn aliases(&self) -> Vec<String> {
        self.inner.aliases()
    }
    fn help(&self) -> String {
        self.inner.help()
    }
    fn clone_and_box(&self) -> Box<dyn Command> {
        Box::new(self.clone())
    }
    fn run(&self, context: CommandInvocationContext) -> CommandResult {
        self.probe.enter(self.inner.name(), &context);
        let CommandInvocationContext {
            arguments,
            state,
            variables,
            output_variable,
            instructions,
            commands,
            line,
            env,
        } = context;
        let before = commands.commands.len();
        let r = self.inner.run(CommandInvocationContext {
            arguments,
            state: &mut *state,
            variables: &mut *variables,
            output_variable,
            instructions,
            commands: &mut *commands,
            line,
            env: &mut *env,
        });
        if commands.commands.len() != before {
            wrap_all(commands, &self.probe);
        }
        self.probe.exit();
        r
    }
}

/// Re-registers every command that is not wrapped yet behind the probe.
fn wrap_all(commands: &mut Commands, probe: &Rc<Probe>) {
    for name in commands.get_all_command_names() {
        if probe.wrapped.borrow().contains(&name) {
            continue;
        }
        let inner = commands.get(&name).expect("registered").clone();
        if inner.name() != name {
            continue;
        }
        commands.remove(&name);
        commands
            .set(Box::new(Wrapped {
                inner,
                probe: probe.clone(),
            }))
            .expect("re-register wrapped command");
        probe.wrapped.borrow_mut().insert(name);
    }
}

/// the collections held in the handle table, as a sorted multiset (handle names are random: masked)
fn collections_of(state: &std::collections::HashMap<String, duckscript::types::runtime::StateValue>) -> Vec<String> {
    let mut v: Vec<String> = match state.get("handles") {
        Some(duckscript::types::runtime::StateValue::SubState(m)) => m.values().map(|x| mask_handles(&format!("{:?}", abstract_state_value(x)))).collect(),
        _ => vec![],
    };
    v.sort();
    v
}

struct Rig {
    commands: Commands,
    probe: Rc<Probe>,
    tape: Rc<RefCell<Tape>>,
    emits: Rc<RefCell<Vec<Vec<String>>>>,
    base_wrapped: std::collections::HashSet<String>,
}

impl Rig {
    fn new() -> Rig {
        let (tx, rx) = channel::<Arc<AtomicBool>>();
        let (ack_tx, ack_rx) = channel::<()>();
        std::thread::spawn(move || {
            // the second thread: its only visible action is the store on the shared flag
            while let Ok(flag) = rx.recv() {
                flag.store(true, Ordering::SeqCst);
                if ack_tx.send(()).is_err() {
                    break;
                }
            }
        });
        let probe = Rc::new(Probe {
            entered: Cell::new(0),
            depth: Cell::new(0),
            log: RefCell::new(vec![]),
            snaps: RefCell::new(vec![]),
            state_snaps: RefCell::new(vec![]),
            halt_at: Cell::new(0),
            setter: Cell::new(Setter::None),
            to_setter: tx,
            ack: ack_rx,
            stop_at: Cell::new(0),
            wrapped: RefCell::new(Default::default()),
            outer_halt: RefCell::new(None),
        });
        let mut commands = sdk_context().commands;
        let tape: Rc<RefCell<Tape>> = Rc::new(RefCell::new(Tape::default()));
        let emits: Rc<RefCell<Vec<Vec<String>>>> = Rc::new(RefCell::new(vec![]));
        register_harness_commands(&mut commands, emits.clone(), tape.clone(), Rc::new(RefCell::new(false)));
        // an embedder-style command that runs a nested script (its arguments are the lines) on a fresh
        // context with the commands of the running script and the *same* halt flag
        commands
            .set(fn_command("sub", |c| {
                let text = c.arguments.join("\n");
                let mut ctx = Context::new();
                ctx.commands = c.commands.clone();
                let env = Env::new(Some(Box::new(Buf::default())), Some(Box::new(Buf::default())), Some(c.env.halt.clone()));
                let _ = runner::run_script(&text, ctx, Some(env));
                CommandResult::Continue(None)
            }))
            .expect("register sub");
        // a command whose result jumps to its own line: three times (counting in the variable n), then it
        // lets the script go on; `again forever` never does
        commands
            .set(fn_command("again", |c| {
                let n: u64 = c.variables.get("n").and_then(|v| v.parse().ok()).unwrap_or(0);
                c.variables.insert("n".into(), (n + 1).to_string());
                if n < 3 || c.arguments.first().map(|a| a == "forever").unwrap_or(false) {
                    CommandResult::GoTo(Some(n.to_string()), duckscript::types::command::GoToValue::Line(c.line))
                } else {
                    CommandResult::Continue(Some("done".to_string()))
                }
            }))
            .expect("register again");
        wrap_all(&mut commands, &probe);
        let base_wrapped = probe.wrapped.borrow().clone();
        Rig { commands, probe, tape, emits, base_wrapped }
    }

    fn run(&self, text: &str, tape: &[(Key, u16)], halt_at: usize, setter: Setter, stop_at: usize, preset: bool) -> RunObs {
        let p = &self.probe;
        p.entered.set(0);
        p.depth.set(0);
        p.log.borrow_mut().clear();
        p.snaps.borrow_mut().clear();
        p.state_snaps.borrow_mut().clear();
        p.halt_at.set(halt_at);
        p.setter.set(setter);
        p.stop_at.set(stop_at);
        *p.wrapped.borrow_mut() = self.base_wrapped.clone();
        *self.tape.borrow_mut() = Tape::with(tape);
        self.emits.borrow_mut().clear();
        let mut ctx = Context::new();
        ctx.commands = self.commands.clone();
        ctx.variables.insert("i".into(), "0".into());
        let halt = Arc::new(AtomicBool::new(preset));
        *p.outer_halt.borrow_mut() = if setter == Setter::Embedder { Some(halt.clone()) } else { None };
        let env = if setter == Setter::Embedder {
            // no custom writers (the scripts of this check print nothing): the flag is all the embedder passes
            Env::new(None, None, Some(halt.clone()))
        } else if setter == Setter::SelfSetSole {
            // the flag is handed over: nobody outside the run holds it
            Env::new(Some(Box::new(Buf::default())), Some(Box::new(Buf::default())), Some(halt))
        } else {
            Env::new(Some(Box::new(Buf::default())), Some(Box::new(Buf::default())), Some(halt.clone()))
        };
        let r = guarded(|| runner::run_script(text, ctx, Some(env)));
        let mut end_state: Vec<String> = vec![];
        let end = match r {
            Err(p) => Err(format!("panic: {}", p)),
            Ok(Err(e)) => Err(format!("error: {}", e)),
            Ok(Ok(c)) => {
                let mut vars = sorted_vars(&c.variables);
                for (_, v) in vars.iter_mut() {
                    if is_handle_text(v) {
                        *v = "<handle>".into();
                    }
                }
                end_state = collections_of(&c.state);
                Ok(vars)
            }
        };
        RunObs {
            log: p.log.borrow().clone(),
            snaps: p.snaps.borrow().clone(),
            state_snaps: p.state_snaps.borrow().clone(),
            end_state,
            end,
            stopped_by_budget: stop_at > 0 && p.entered.get() >= stop_at,
        }
    }
}

struct RunObs {
    log: Vec<(String, usize)>,
    snaps: Vec<(usize, BTreeMap<String, String>)>,
    state_snaps: Vec<(usize, Vec<String>)>,
    end_state: Vec<String>,
    end: Result<BTreeMap<String, String>, String>,
    stopped_by_budget: bool,
}

fn handwritten() -> Vec<(&'static str, String)> {
    let v: Vec<(&str, &str)> = vec![
        ("straight", "a = set 1\nb = set 2\nc = set 3\nd = set 4"),
        ("alias-of-function", "fn work\ni = calc ${i} + 1\nj = set ${i}\nk = set 3\nend\nalias go work\ngo\nz = set done"),
        ("alias-of-function-forever", "fn spin\nwhile true\ni = calc ${i} + 1\nend\nend\nalias go spin\ngo\nz = set never"),
        ("nested-run-sharing-the-flag", "a = set 1\nsub \"b = set 1\" \"c = set 2\" \"d = set 3\"\ne = set 5\nf = set 6"),
        ("nested-run-in-a-loop", "while less_than ${i} 3\ni = calc ${i} + 1\nsub \"b = set 1\" \"sub \\\"c = set 2\\\" \\\"d = set 3\\\"\" \"e = set 4\"\nend\nz = set done"),
        ("blank-and-labels", "a = set 1\n\n:l1\n# comment\nb = set 2\n:l2 c = set 3"),
        ("goto-loop-forever", ":top\ni = calc ${i} + 1\ngoto :top"),
        ("goto-forward", "goto :end\na = set skipped\n:end b = set 1\nc = set 2"),
        ("while-forever", "while true\ni = calc ${i} + 1\nend"),
        ("while-forever-cond-command", "while equals a a\ni = calc ${i} + 1\nj = set ${i}\nend\nz = set never"),
        ("while-counted", "while less_than ${i} 3\ni = calc ${i} + 1\nend\nz = set done"),
        ("for-in", "arr = array a b c\nfor x in ${arr}\ny = set ${x}\nend\nrelease ${arr}\nz = set done"),
        ("for-in-nested", "arr = array a b\nfor x in ${arr}\nfor y in ${arr}\nz = set ${x}${y}\nend\nend\nw = set done"),
        ("error-continues", "x = array_get nohandle 0\ny = set after\ne = get_last_error\nz = set done"),
        ("errors-in-loop", "arr = array a b\nfor x in ${arr}\nq = array_pop nohandle\nr = set ${x}\nend\nz = set done"),
        ("function-calls", "fn f\na = set ${1}\nreturn r${1}\nend\nx = f 1\ny = f 2\nz = set done"),
        ("function-loop-inside", "fn f\narr = array a b\nfor v in ${arr}\nlast = set ${v}\nend\nrelease ${arr}\nreturn ${last}\nend\nx = f\ny = f\nz = set done"),
        ("function-in-forever-loop", "fn f\ni = calc ${i} + 1\nend\nwhile true\nf\nend"),
        ("scoped-function", "fn <scope> f\nt = set ${1}\nreturn ${t}\nend\nx = f 1\ny = f 2"),
        ("condition-command", "if equals a a\nx = set 1\nend\ny = set 2\nif not equals a b\nz = set 3\nend"),
        ("condition-function", "fn f\nreturn true\nend\nif f\nx = set 1\nend\ny = set 2"),
        ("if-else-chain", "c = set false\nif ${c}\nx = set 1\nelseif not ${c}\nx = set 2\nelse\nx = set 3\nend\ny = set 4"),
        ("script-command-top-level", "arr = array a b c\ns = array_join ${arr} ,\nk = array_contains ${arr} b\nz = set done"),
        ("script-command-in-loop", "arr = array a b\nwhile true\ne = array_is_empty ${arr}\ni = calc ${i} + 1\nend"),
        ("concat-and-unset", "a = concat x y z\nunset a\nb = set 1\nc = is_defined a"),
        ("nested-while-for", "arr = array a b\nwhile true\nfor x in ${arr}\ni = calc ${i} + 1\nend\nend"),
        ("trigger-error", "trigger_error boom\na = set 1\nassert_error again\nb = set 2"),
        ("eval-command", "x = eval set 5\ny = eval equals ${x} 5\nz = set done"),
        ("map-ops", "m = map\nmap_put ${m} k v\nv = map_get ${m} k\nc = map_contains_value ${m} v\nrelease ${m}\nz = set done"),
        ("json", "j = json_parse --collection {\\\"a\\\":[1,2]}\nt = json_encode --collection ${j}\nrelease -r ${j}\nz = set done"),
        ("goto-backward-counted", ":again\ni = calc ${i} + 1\nif less_than ${i} 3\ngoto :again\nend\nz = set done"),
        ("alias", "alias hello set hi\nx = hello\ny = hello\nunalias hello\nz = set done"),
        ("push-pop-scope", "a = set 1\nscope_push_stack --copy a\nb = set 2\nscope_pop_stack --copy b\nc = set 3"),
        ("exit-early", "a = set 1\nexit\nb = set 2"),
        // instructions that jump to their own line: the boundary between two visits of the same line is
        // an instruction boundary like any other
        ("goto-self-forever", ":spin goto :spin"),
        ("goto-self-forever-after-lines", "a = set 1\n:spin goto :spin\nz = set never"),
        ("goto-self-by-variable", "next = set :spin\n:spin next = goto ${next}\nz = set after"),
        ("jump-to-own-line-counted", "a = set 1\nr = again\nz = set done"),
        ("jump-to-own-line-forever", "a = set 1\nr = again forever\nz = set never"),
    ];
    v.into_iter().map(|(n, s)| (n, s.to_string())).collect()
}

pub fn bounds(tier: Tier) -> Value {
    match tier {
        Tier::Quick => json!({"handwritten_programs": 34, "generated_block_programs": "1-2 blocks, 3 answer tapes", "horizon_command_entries": 20, "setters": ["command itself", "second thread", "command itself on a flag nobody else holds"]}),
        Tier::Thorough => json!({"handwritten_programs": 34, "generated_block_programs": "1-3 blocks (all forests), 4 answer tapes", "horizon_command_entries": 60, "setters": ["command itself", "second thread", "command itself on a flag nobody else holds"]}),
    }
}

fn check_program(w: &mut Worker, rig: &Rig, name: &str, text: &str, tape: &[(Key, u16)], horizon: usize) {
    check_program_at(w, rig, name, text, tape, horizon, &[])
}

/// `only`: the halting points to try (empty: every point up to the horizon)
fn check_program_at(w: &mut Worker, rig: &Rig, name: &str, text: &str, tape: &[(Key, u16)], horizon: usize, only: &[usize]) {
    let cj = json!({"program": name, "script": text, "tape": tape.iter().map(|(k, c)| json!([k.0, k.1, c])).collect::<Vec<_>>()});
    w.begin(|| cj.clone());
    // the unhalted run (cut by a budget far beyond the horizon when it does not terminate)
    let budget = horizon * 3 + 40;
    let base = rig.run(text, tape, 0, Setter::None, budget, false);
    w.add_transitions(1);
    let base_end = match &base.end {
        Ok(v) => v.clone(),
        Err(e) => {
            w.fail("reference-run-failed", &format!("{}: the unhalted run failed: {}", name, e), cj);
            return;
        }
    };
    let n = base.log.len();
    let mut runs = 1u64;
    let mut failure: Option<(String, String, usize, Setter)> = None;
    let kmax = n.min(horizon);
    let ks: Vec<usize> = if only.is_empty() { (0..=kmax).collect() } else { only.iter().cloned().filter(|k| *k <= kmax).collect() };
    'outer: for k in ks {
        for setter in [Setter::SelfSet, Setter::Thread, Setter::SelfSetSole, Setter::Embedder] {
            if k == 0 && setter != Setter::SelfSet {
                continue;
            }
            let obs = if k == 0 {
                rig.run(text, tape, 0, Setter::None, 0, true)
            } else {
                rig.run(text, tape, k, setter, 0, false)
            };
            runs += 1;
            // expected: the log up to the end of the top-level instruction in flight at point k
            let b = if k == 0 {
                0
            } else {
                // first top-level entry after position k (entries are 1-based)
                base.snaps.iter().map(|(i, _)| *i).find(|i| *i > k).map(|i| i - 1).unwrap_or(n)
            };
            let exp_vars: BTreeMap<String, String> = if k == 0 {
                let mut m = BTreeMap::new();
                m.insert("i".to_string(), "0".to_string());
                m
            } else {
                match base.snaps.iter().find(|(i, _)| *i > k) {
                    Some((_, v)) => v.clone(),
                    None => {
                        if base.stopped_by_budget {
                            continue; // boundary beyond what the cut reference run observed
                        }
                        base_end.clone()
                    }
                }
            };
            let what = |msg: String| format!("{} halted at entry {} of {} by {:?}: {}", name, k, n, setter, msg);
            match &obs.end {
                Err(e) => {
                    failure = Some(("halted-run-failed".into(), what(format!("run returned {}", e)), k, setter));
                    break 'outer;
                }
                Ok(v) => {
                    if obs.log.len() > b {
                        failure = Some((
                            "instruction-started-after-halt".into(),
                            what(format!("{} command entries, expected {} (next started: {:?})", obs.log.len(), b, obs.log.get(b))),
                            k,
                            setter,
                        ));
                        break 'outer;
                    }
                    // a nested run started by the instruction in flight listens to the same flag and stops
                    // at its own next boundary: the instruction in flight then ends early, by design
                    let in_flight_nested = base.log[..k.min(base.log.len())].iter().rev().find(|(_, d)| *d == 0).map(|(n, _)| n == "sub").unwrap_or(false);
                    let as_expected = if in_flight_nested {
                        base.log[..b.min(base.log.len())].starts_with(&obs.log[..])
                    } else {
                        obs.log[..] == base.log[..b.min(base.log.len())]
                    };
                    if !as_expected {
                        failure = Some(("instruction-in-flight-not-completed".into(), what(format!("log {:?}, expected {:?}", obs.log, &base.log[..b])), k, setter));
                        break 'outer;
                    }
                    if *v != exp_vars {
                        failure = Some(("variables-differ".into(), what(format!("variables {:?}, expected {:?}", v, exp_vars)), k, setter));
                        break 'outer;
                    }
                    // the returned context is the context of that boundary: the collections its variables
                    // point to are part of it
                    let exp_state: Option<Vec<String>> = if k == 0 {
                        Some(vec![])
                    } else {
                        match base.state_snaps.iter().find(|(i, _)| *i > k) {
                            Some((_, s)) => Some(s.clone()),
                            None => {
                                if base.stopped_by_budget {
                                    None
                                } else {
                                    Some(base.end_state.clone())
                                }
                            }
                        }
                    };
                    if let Some(es) = exp_state {
                        if obs.end_state != es {
                            failure = Some(("collections-differ".into(), what(format!("collections in the returned context {:?}, expected {:?}", obs.end_state, es)), k, setter));
                            break 'outer;
                        }
                    }
                }
            }
        }
    }
    w.add_transitions(runs);
    w.add_traces(runs);
    w.count("halted_runs", runs - 1);
    w.add_state(hash64(&(n.min(50), base.snaps.len().min(30))));
    match failure {
        None => {
            if w.want_sample() {
                w.sample(json!({"program": name, "script": text, "command_entries_unhalted": n, "halt_points_explored": kmax + 1}));
            }
            w.pass(base.log.iter().any(|(_, d)| *d > 0) || base.stopped_by_budget, hash64(&(name, n.min(50))));
        }
        Some((sig, what, k, setter)) => {
            let mut cj = cj;
            cj["halt_at"] = json!(k);
            cj["setter"] = json!(format!("{:?}", setter));
            w.fail(&sig, &what, cj);
        }
    }
}

pub fn worker(w: &mut Worker) {
    let tier = w.tier;
    // the programs are small (the longest runs a few thousand command entries): ten seconds of
    // processor time on one of them is a run that ignores the flag
    w.set_case_limit_ms(10_000);
    let rig = Rig::new();
    let horizon = tier.pick(20usize, 60usize);
    for (name, text) in handwritten() {
        if w.take() {
            check_program(w, &rig, name, &text, &[], horizon);
        }
    }
    // lines that run nothing (blank lines, comments, bare labels) between, before and after the lines that
    // do: a halt raised by the line before them stops the run in front of whatever follows them, the last
    // line of the script included
    {
        let fillers: [(&str, &str); 7] = [("blank", "\n"), ("comment", "# note\n"), ("label", ":mark\n"), ("blank-comment", "\n# note\n"), ("all-three", "\n# note\n:mark\n"), ("two-labels", ":m1\n:m2\n"), ("many", "\n\n# a\n# b\n:m1\n\n")];
        for (fname, filler) in fillers {
            let shapes = [
                ("before-last", format!("a = set 1\n{}b = set 2", filler)),
                ("before-last-of-three", format!("a = set 1\nb = set 2\n{}c = set 3", filler)),
                ("between-and-before-last", format!("a = set 1\n{}b = set 2\n{}c = set 3", filler, filler)),
                ("in-the-middle", format!("a = set 1\n{}b = set 2\nc = set 3\nd = set 4", filler)),
                ("trailing", format!("a = set 1\nb = set 2\n{}", filler)),
                ("before-last-jump", format!(":top\ni = calc ${{i}} + 1\n{}goto :top", filler)),
                ("before-last-block-end", format!("while true\ni = calc ${{i}} + 1\n{}end", filler)),
                ("leading", format!("{}a = set 1\nb = set 2", filler)),
            ];
            for (sname, text) in shapes {
                if w.take() {
                    check_program(w, &rig, &format!("filler-{}-{}", fname, sname), &text, &[], horizon);
                }
            }
        }
    }
    // halting late: thousands of command entries into loops that are still running
    {
        let late: Vec<usize> = with_thresholds_usize(tier.pick(vec![999, 5000], vec![999, 5000, 5001, 60_000]), tier.pick(1024, 16384));
        let far = *late.iter().max().unwrap() + 10;
        let programs = [
            ("late-halt-while", "i = set 0\nwhile true\ni = calc ${i} + 1\nend\nafter = set reached".to_string()),
            ("late-halt-nested", "i = set 0\nwhile true\narr = range 0 3\nfor x in ${arr}\ni = calc ${i} + 1\nend\nrelease ${arr}\nend\nafter = set reached".to_string()),
            ("late-halt-function", "fn step\nr = calc ${1} + 1\nreturn ${r}\nend\ni = set 0\nwhile true\ni = step ${i}\nend\nafter = set reached".to_string()),
        ];
        for (name, text) in programs {
            if w.take() {
                check_program_at(w, &rig, name, &text, &[], far, &late);
            }
        }
    }
    // generated block programs under a few fixed answer tapes
    let nmax = tier.pick(2usize, 3usize);
    for n in 1..=nmax {
        for (fi, forest) in forests(n, 3).into_iter().enumerate() {
            let prog = build(&forest, 0, (fi % 4) as u8);
            let text = render(&prog, &mut Speller::rot(fi % 3));
            // tapes: everything true once / twice (loops run), arrays of length 2
            let mut tapes: Vec<Vec<(Key, u16)>> = vec![vec![]];
            let mut once = vec![];
            let mut twice = vec![];
            for site in 1..=8u32 {
                once.push(((site, 0), 1u16));
                twice.push(((site, 0), 1u16));
                twice.push(((site, 1), 1u16));
                once.push(((site + 500, 0), 1u16));
                twice.push(((site + 500, 0), 1u16));
                twice.push(((site + 500, 1), 1u16));
            }
            // array sites use arity 3: choice 2 = two elements
            let mut arrays = once.clone();
            for e in arrays.iter_mut() {
                e.1 = 2;
            }
            tapes.push(once);
            tapes.push(twice);
            if tier == Tier::Thorough {
                tapes.push(arrays);
            }
            for (ti, t) in tapes.iter().enumerate() {
                if w.take() {
                    check_program(w, &rig, &format!("generated-{}-{}-tape{}", n, fi, ti), &text, t, horizon);
                }
            }
        }
    }
}

pub fn replay(case: &Value) -> Result<String, String> {
    let text = case["script"].as_str().ok_or("no script")?;
    let tape: Vec<(Key, u16)> = case["tape"]
        .as_array()
        .map(|a| a.iter().map(|e| ((e[0].as_u64().unwrap_or(0) as u32, e[1].as_u64().unwrap_or(0) as u32), e[2].as_u64().unwrap_or(0) as u16)).collect())
        .unwrap_or_default();
    let k = case["halt_at"].as_u64().unwrap_or(0) as usize;
    let setter = if case["setter"] == "Thread" {
        Setter::Thread
    } else if case["setter"] == "SelfSetSole" {
        Setter::SelfSetSole
    } else if case["setter"] == "Embedder" {
        Setter::Embedder
    } else {
        Setter::SelfSet
    };
    let rig = Rig::new();
    let base = rig.run(text, &tape, 0, Setter::None, 200, false);
    let obs = if k == 0 { rig.run(text, &tape, 0, Setter::None, 0, true) } else { rig.run(text, &tape, k, setter, 0, false) };
    Ok(format!(
        "unhalted: {} entries {:?}\nhalted at {}: {} entries, end {:?}",
        base.log.len(),
        base.log.iter().take(30).collect::<Vec<_>>(),
        k,
        obs.log.len(),
        obs.end
    ))
}

pub fn crash_sig(_case: &Value, kind: &str) -> String {
    kind.to_string()
}

pub const RULE: &str = "programs: 34 hand-written scripts over the standard library (straight line, nested runs started by a command on the same halt flag, goto loops, while true, for-in, nested loops, error path with on_error, functions plain/scoped/in condition position, script-implemented commands, alias, scope stack; 7 of them do not terminate) and the generated block programs of C04 under fixed answer tapes; every registered command (library, flow control, harness) is re-registered behind a wrapper that logs the entry with its nesting depth and is the scheduling point. For every command entry k of the unhalted run up to the horizon, top level or nested, plus k=0 (flag set before the run), the flag is raised at that point by the command itself and, separately, by a second OS thread the wrapper hands control to over a rendezvous channel. Oracle: the halted run returns Ok; its entry log equals the unhalted log up to the end of the top-level instruction in flight; no further top-level instruction starts; returned variables and the collections behind the handle table equal those at that boundary of the unhalted run. evaluations = programs; transitions = runs; non-trivial = program with nested command entries or non-terminating. Scale cases: the flag raised 999 / 5000 (thorough also 5001 and 60000) command entries into an endless while loop, a loop nest and a loop calling a function, by the command itself and by the second thread. Programs include instructions that jump to their own line (goto to its own label, by a variable, a command answering GoTo(own line) three times or for ever) Filler lines: 7 fillers (blank, comment, bare label and mixtures) x 8 places (before the last line, before the last of three, between and before the last, in the middle, trailing, before a last jump, before a last block end, leading): a halt raised by the line before them stops the run in front of whatever follows them.";
pub const ASSUMPTIONS: &[&str] = &["the setter's only visible action is one SeqCst store on the shared AtomicBool; the runner's only visible actions on it are its polls, so placing the store at every command entry plus 'before the run' covers the interleaving space at command-entry granularity", "a store landing inside a single command's Rust body is indistinguishable from a store at its entry as long as commands do not read the flag"];
pub const EXHAUSTIVE: bool = true;
pub const WALL_CAP_S: (u64, u64) = (55, 1500);
