//! C02 — variable binding is verbatim, single pass and never changes the argument count.
//! Engine E3: every template of up to three pieces x every variable environment up to a value
//! length x argument position, bound by the real runner and observed by a capture command.

use crate::engine::*;
use crate::render;
use crate::util::*;
use duckscript::runner;
use duckscript::types::command::{CommandResult, Commands};
use duckscript::types::instruction::{Instruction, InstructionMetaInfo, InstructionType, ScriptInstruction};
use duckscript::types::runtime::Context;
use serde_json::{json, Value};
use std::cell::RefCell;
use std::collections::HashMap;
use std::rc::Rc;

#[derive(Clone, Copy, PartialEq, Eq, Debug, Hash)]
enum Piece {
    Lit(&'static str),
    Var(&'static str),
    Esc(&'static str),
}

const PIECES: [Piece; 10] = [
    Piece::Lit("a"),
    Piece::Lit("b c"),
    Piece::Lit("é"),
    Piece::Var("v"),
    Piece::Var("w"),
    Piece::Var("u"),
    Piece::Var("a.b"),
    Piece::Esc("v"),
    Piece::Var("s::é1"),
    // never a script variable, but a variable of the process environment (set by the worker): it binds
    // to nothing like any other undefined name
    Piece::Var("C02_ENV_ONLY"),
];
const SPREADS: [&str; 4] = ["v", "w", "u", "C02_ENV_ONLY"];
const VSIGMA: [&str; 15] = ["a", " ", "\"", "\\", "#", "$", "{", "}", "%", "\n", "=", "é", "\t", "\r", "\u{a0}"];
const VSPECIAL: [&str; 9] = ["${w}", "%{w}", "\\${w}", "${v}", "a  b", " a", "a ", "  ", "a b c"];
const WVALUES: [&str; 8] = ["W", "", "p q", "${v}", "%{v}", "\"x y\"", "#", "\\"];

fn written(t: &[Piece]) -> String {
    t.iter()
        .map(|p| match p {
            Piece::Lit(s) => s.to_string(),
            Piece::Var(n) => format!("${{{}}}", n),
            Piece::Esc(n) => format!("\\${{{}}}", n),
        })
        .collect()
}

fn expected_single(t: &[Piece], env: &HashMap<String, String>) -> String {
    t.iter()
        .map(|p| match p {
            Piece::Lit(s) => s.to_string(),
            Piece::Var(n) => env.get(*n).cloned().unwrap_or_default(),
            Piece::Esc(n) => format!("${{{}}}", n),
        })
        .collect()
}

/// Some(words) when the statement fixes the spread exactly; None when the value contains a
/// character (double quote, '#') for which the repository's own tests pin shell-like grouping.
fn expected_spread(name: &str, env: &HashMap<String, String>) -> Option<Vec<String>> {
    match env.get(name) {
        None => Some(vec![]),
        Some(v) => {
            if v.contains('"') || v.contains('#') {
                None
            } else {
                Some(v.split(' ').filter(|w| !w.is_empty()).map(|w| w.to_string()).collect())
            }
        }
    }
}

struct Rig {
    commands: Commands,
    got: Rc<RefCell<Option<Vec<String>>>>,
    ctx: Context,
}

impl Rig {
    fn new() -> Rig {
        let got: Rc<RefCell<Option<Vec<String>>>> = Rc::new(RefCell::new(None));
        let g2 = got.clone();
        let mut commands = Commands::new();
        commands
            .set(fn_command("capture", move |c| {
                *g2.borrow_mut() = Some(c.arguments.clone());
                CommandResult::Continue(None)
            }))
            .unwrap();
        let mut ctx = Context::new();
        ctx.commands = commands.clone();
        Rig { commands, got, ctx }
    }

    fn bind(&mut self, args: &[String], env: &HashMap<String, String>) -> Result<Vec<String>, String> {
        let mut si = ScriptInstruction::new();
        si.command = Some("capture".into());
        si.arguments = Some(args.to_vec());
        let ins = Instruction {
            meta_info: InstructionMetaInfo::new(),
            instruction_type: InstructionType::Script(si),
        };
        *self.got.borrow_mut() = None;
        let mut vars = env.clone();
        let mut state = HashMap::new();
        let (mut e, _o, _e2, _h) = quiet_env();
        let commands = &mut self.commands;
        let r = guarded(|| runner::run_instruction(commands, &mut vars, &mut state, &vec![], ins, 0, &mut e));
        match r {
            Err(p) => Err(format!("panic: {}", p)),
            Ok((CommandResult::Continue(None), _)) => {
                if vars != *env {
                    return Err("binding changed the variables".into());
                }
                self.got.borrow_mut().take().ok_or_else(|| "capture not called".to_string())
            }
            Ok((other, _)) => Err(format!("unexpected result {}", result_json(&other))),
        }
    }

    fn via_parser(&mut self, args: &[String], env: &HashMap<String, String>, quote: bool) -> Result<Vec<String>, String> {
        let ins = render::Instr {
            label: None,
            output: None,
            command: Some("capture".into()),
            args: args.to_vec(),
        };
        let st = render::Style {
            quote_optional: quote,
            ..render::PLAIN
        };
        let text = render::render(&ins, &st);
        *self.got.borrow_mut() = None;
        let mut ctx = self.ctx.clone();
        ctx.variables = env.clone();
        let (e, _o, _e2, _h) = quiet_env();
        match guarded(|| runner::run_script(&text, ctx, Some(e))) {
            Err(p) => Err(format!("panic: {}", p)),
            Ok(Err(e)) => Err(format!("script {:?} failed: {}", text, e)),
            Ok(Ok(_)) => self.got.borrow_mut().take().ok_or_else(|| "capture not called".to_string()),
        }
    }
}

pub fn bounds(tier: Tier) -> Value {
    match tier {
        Tier::Quick => json!({"template_pieces": 3, "value_len": 2, "value_alphabet": 15, "w_values": 8, "positions": 5}),
        Tier::Thorough => json!({"template_pieces": 3, "value_len": 4, "value_alphabet": 15, "w_values": 8, "positions": 5}),
    }
}

#[derive(Clone)]
enum Tpl {
    Single(Vec<Piece>),
    Spread(&'static str),
}

fn tpl_written(t: &Tpl) -> String {
    match t {
        Tpl::Single(p) => written(p),
        Tpl::Spread(n) => format!("%{{{}}}", n),
    }
}

fn uses(t: &Tpl, name: &str) -> bool {
    match t {
        Tpl::Single(p) => p.iter().any(|x| matches!(x, Piece::Var(n) if *n == name)),
        Tpl::Spread(n) => *n == name,
    }
}

/// Returns (written argument list, expected received list or None when unconstrained)
fn build(t: &Tpl, pos: u8, env: &HashMap<String, String>) -> (Vec<String>, Option<Vec<String>>) {
    let (w, e): (String, Option<Vec<String>>) = match t {
        Tpl::Single(p) => (written(p), Some(vec![expected_single(p, env)])),
        Tpl::Spread(n) => (format!("%{{{}}}", n), expected_spread(n, env)),
    };
    match pos {
        0 => (vec![w], e),
        1 => (vec![w, "z".into()], e.map(|mut v| {
            v.push("z".into());
            v
        })),
        2 => {
            let pre = expected_spread("w", env);
            let exp = match (pre, e) {
                (Some(mut p), Some(v)) => {
                    p.push("z".into());
                    p.extend(v);
                    Some(p)
                }
                _ => None,
            };
            (vec!["%{w}".into(), "z".into(), w], exp)
        }
        3 => {
            // directly behind a spread (which may yield nothing at all)
            let pre = expected_spread("w", env);
            let exp = match (pre, e) {
                (Some(mut p), Some(v)) => {
                    p.extend(v);
                    Some(p)
                }
                _ => None,
            };
            (vec!["%{w}".into(), w], exp)
        }
        _ => {
            // on both sides of a spread, and behind a spread of an undefined variable
            let pre = expected_spread("w", env);
            let exp = match (pre, e) {
                (Some(p), Some(v)) => {
                    let mut all = v.clone();
                    all.extend(p);
                    all.extend(v.clone());
                    all.extend(v);
                    Some(all)
                }
                _ => None,
            };
            (vec![w.clone(), "%{w}".into(), w.clone(), "%{undefined::spread}".into(), w], exp)
        }
    }
}


/// Long values and long argument lists: what is bound must still be the value, whole and once.
fn scale(w: &mut Worker) {
    let sizes: Vec<usize> = with_thresholds_usize(w.tier.pick(vec![300, 70_000], vec![300, 8192, 70_000, 1_000_003]), w.tier.pick(4096, 65536));
    for &n in &sizes {
        // a value of n characters made of the characters binding must not interpret
        let unit = "ab ${v} %{w} \\ # \" x";
        let mut text = format!("{}\nlen = length ${{s}}\nwhile less_than ${{len}} {}\ns = set ${{s}}${{s}}\nlen = length ${{s}}\nend\n", render::line(Some("s"), "set", &[unit]), n);
        text.push_str("v = set short\nw = set \"p q\"\nx = set ${s}\nsame = equals ${x} ${s}\ny = set pre${s}post\nyl = length ${y}\nwant = calc ${len} + 7\nfits = equals ${yl} ${want}\narr = array ${s} ${s}\nan = array_length ${arr}\nfirst = array_get ${arr} 0\nsame_item = equals ${first} ${s}\nrelease ${arr}\ns = set done\nx = set done\ny = set done\nfirst = set done");
        scale_case(w, &format!("long-value chars {}", n), &text, &[("same", Some("true".into())), ("fits", Some("true".into())), ("an", Some("2".into())), ("same_item", Some("true".into()))]);
    }
    let counts: Vec<usize> = with_thresholds_usize(w.tier.pick(vec![300, 3000], vec![300, 3000, 30000]), w.tier.pick(4096, 65536));
    for &n in &counts {
        // n words spread by %{..} are n arguments; n arguments written out are n arguments
        let text = format!(
            "words = set w\ni = set 1\nwhile less_than ${{i}} {n}\ni = calc ${{i}} + 1\nwords = set \"${{words}} w${{i}}\"\nend\narr = array %{{words}}\nan = array_length ${{arr}}\nlast = array_get ${{arr}} {last}\narr2 = array head %{{words}} ${{undefined}} tail\nan2 = array_length ${{arr2}}\nrelease ${{arr}}\nrelease ${{arr2}}\nwords = set done",
            n = n,
            last = n - 1
        );
        scale_case(w, &format!("wide-spread words {}", n), &text, &[("an", Some(n.to_string())), ("last", Some(format!("w{}", n))), ("an2", Some((n + 3).to_string()))]);
        let args: Vec<String> = (1..=n).map(|i| format!("a{}", i)).collect();
        let refs: Vec<&str> = args.iter().map(|s| s.as_str()).collect();
        let text = format!("{}\nan = array_length ${{arr}}\nlast = array_get ${{arr}} {}\nrelease ${{arr}}", render::line(Some("arr"), "array", &refs), n - 1);
        scale_case(w, &format!("long-line arguments {}", n), &text, &[("an", Some(n.to_string())), ("last", Some(format!("a{}", n)))]);
    }
}

/// The same template bound twice in one run with the variable changed in between - by a command
/// that writes the variable table directly, by an assignment, by set_by_name, as a for/in loop
/// variable, as a function argument. What is bound the second time is the value of that moment.
fn rebinding(w: &mut Worker) {
    let values: [&str; 6] = ["W", "", "p q", "a b c", "\\", " x  y "];
    let words = |v: &str| -> Vec<String> { v.split(' ').filter(|x| !x.is_empty()).map(|x| x.to_string()).collect() };
    let got: Rc<RefCell<Vec<Vec<String>>>> = Rc::new(RefCell::new(vec![]));
    let mut ctx = sdk_context();
    {
        let g = got.clone();
        ctx.commands
            .set(fn_command("capture", move |c| {
                g.borrow_mut().push(c.arguments.clone());
                CommandResult::Continue(None)
            }))
            .unwrap();
        // writes a variable without going through an output variable
        ctx.commands
            .set(fn_command("poke", move |c| {
                if c.arguments.len() == 2 {
                    c.variables.insert(c.arguments[0].clone(), c.arguments[1].clone());
                } else if c.arguments.len() == 1 {
                    c.variables.remove(&c.arguments[0]);
                }
                CommandResult::Continue(None)
            }))
            .unwrap();
    }
    let q = |v: &str| render::render_arg(v, true);
    for a in values {
        for b in values {
            let mut scripts: Vec<(&str, String, String)> = vec![
                ("direct-write", format!("capture %{{w}} ${{w}}\npoke w {}\ncapture %{{w}} ${{w}}", q(b)), "w".into()),
                ("assignment", format!("capture %{{w}} ${{w}}\nw = set {}\ncapture %{{w}} ${{w}}", q(b)), "w".into()),
                ("set_by_name", format!("capture %{{w}} ${{w}}\nset_by_name w {}\ncapture %{{w}} ${{w}}", q(b)), "w".into()),
                ("loop-variable", format!("arr = array {} {}\nfor w in ${{arr}}\ncapture %{{w}} ${{w}}\nend\nrelease ${{arr}}", q(a), q(b)), "w".into()),
                ("function-argument", format!("fn f\ncapture %{{1}} ${{1}}\nend\nf {}\nf {}", q(a), q(b)), "1".into()),
                ("removed", "capture %{w} ${w}\npoke w\ncapture %{w} ${w}".to_string(), "w".into()),
            ];
            // `set ""` yields no value: the variable becomes undefined, which binds like the empty text
            for (how, script, _name) in scripts.drain(..) {
                if !w.take() {
                    continue;
                }
                let cj = json!({"kind": "rebinding", "how": how, "first": a, "second": b, "script": script});
                w.begin(|| cj.clone());
                w.add_transitions(1);
                got.borrow_mut().clear();
                let mut c = ctx.clone();
                c.variables.insert("w".into(), a.to_string());
                c.variables.insert("v".into(), "V".to_string());
                let (env, _o, _e, _h) = quiet_env();
                let r = guarded(|| runner::run_script(&script, c, Some(env)));
                let second = if how == "removed" { "" } else { b };
                let mut exp_last: Vec<String> = words(second);
                exp_last.push(second.to_string());
                let mut exp_first: Vec<String> = words(a);
                exp_first.push(a.to_string());
                match r {
                    Err(p) => w.fail("rebinding:panic", &p, cj),
                    Ok(Err(e)) => w.fail("rebinding:run-failed", &format!("{}: {}", how, e), cj),
                    Ok(Ok(_)) => {
                        let g = got.borrow().clone();
                        if g.len() != 2 {
                            w.fail("rebinding:capture-count", &format!("{}: capture ran {} times", how, g.len()), cj);
                        } else if g[0] != exp_first {
                            w.fail(&format!("rebinding:{}:first-binding", how), &format!("{} with {:?}: first binding received {:?}, expected {:?}", how, a, g[0], exp_first), cj);
                        } else if g[1] != exp_last {
                            w.fail(&format!("rebinding:{}:second-binding", how), &format!("{} from {:?} to {:?}: second binding received {:?}, expected {:?}", how, a, second, g[1], exp_last), cj);
                        } else {
                            w.pass(true, hash64(&("rebinding", how, g[1].len())));
                        }
                    }
                }
            }
        }
    }
}

/// Many different written arguments (short and long, with and without references) bound over and over
/// in one run, in growing windows and backwards, with the variables changed on the way: every binding is
/// the binding of the argument that is written there, with the values of that moment.
fn many_templates(w: &mut Worker) {
    for &count in &w.tier.pick(vec![3usize, 17, 18, 40], vec![3usize, 9, 16, 17, 18, 33, 40, 65, 130]) {
        if !w.take() {
            continue;
        }
        let cj = json!({"kind": "many-templates", "count": count});
        w.begin(|| cj.clone());
        w.add_transitions(1);
        let got: Rc<RefCell<Vec<Vec<String>>>> = Rc::new(RefCell::new(vec![]));
        let mut ctx = sdk_context();
        {
            let g = got.clone();
            ctx.commands
                .set(fn_command("capture", move |c| {
                    g.borrow_mut().push(c.arguments.clone());
                    CommandResult::Continue(None)
                }))
                .unwrap();
        }
        // template k, as written, and what it binds to under the values (v0, v1, v2)
        let written = |k: usize| -> String {
            match k % 4 {
                0 => format!("template-number-{}-${{v{}}}-tail-of-it", k, k % 3),
                1 => format!("\"the ${{v{}}} long text of template {} ${{v{}}}\"", k % 3, k, (k + 1) % 3),
                2 => format!("t{}${{v{}}}", k, k % 3),
                _ => format!("literal-text-without-references-{}", k),
            }
        };
        let bound = |k: usize, v: &[String; 3]| -> String {
            match k % 4 {
                0 => format!("template-number-{}-{}-tail-of-it", k, v[k % 3]),
                1 => format!("the {} long text of template {} {}", v[k % 3], k, v[(k + 1) % 3]),
                2 => format!("t{}{}", k, v[k % 3]),
                _ => format!("literal-text-without-references-{}", k),
            }
        };
        let mut v: [String; 3] = ["A".to_string(), "p q".to_string(), String::new()];
        let mut lines: Vec<String> = vec!["v0 = set A".into(), "v1 = set \"p q\"".into()];
        let mut expect: Vec<Vec<String>> = vec![];
        let mut step = 0usize;
        let mut bind = |k: usize, lines: &mut Vec<String>, expect: &mut Vec<Vec<String>>, v: &mut [String; 3]| {
            lines.push(format!("capture {} {}", k, written(k)));
            expect.push(vec![k.to_string(), bound(k, v)]);
            step += 1;
            if step % 29 == 0 {
                let which = (step / 29) % 3;
                v[which] = format!("changed{}", step);
                lines.push(format!("v{} = set changed{}", which, step));
            }
        };
        for win in 1..=count {
            for _pass in 0..2 {
                for k in 0..win {
                    bind(k, &mut lines, &mut expect, &mut v);
                }
            }
        }
        for k in (0..count).rev() {
            bind(k, &mut lines, &mut expect, &mut v);
            bind(0, &mut lines, &mut expect, &mut v);
        }
        let script = lines.join("\n");
        let (env, _o, _e, _h) = quiet_env();
        let r = guarded(|| runner::run_script(&script, ctx.clone(), Some(env)));
        match r {
            Err(p) => w.fail("many-templates:panic", &p, cj),
            Ok(Err(e)) => w.fail("many-templates:run-failed", &format!("{} templates: {}", count, e), cj),
            Ok(Ok(_)) => {
                let g = got.borrow().clone();
                if g.len() != expect.len() {
                    w.fail("many-templates:capture-count", &format!("{} templates: capture ran {} times, expected {}", count, g.len(), expect.len()), cj);
                } else if let Some(i) = (0..g.len()).find(|&i| g[i] != expect[i]) {
                    w.fail("many-templates:binding", &format!("{} templates: binding {} of {} received {:?}, expected {:?}", count, i + 1, g.len(), g[i], expect[i]), cj);
                } else {
                    w.pass(true, hash64(&("many-templates", count)));
                }
            }
        }
    }
}

/// Names are free of blanks, `=` and `}` - nothing else: a name may hold `$`, `%`, `{`, a backslash, a
/// quote, even the two characters that open a reference. The name of a reference runs up to the first
/// `}`; what it names is looked up as it stands.
fn odd_names(w: &mut Worker) {
    let mut rig = Rig::new();
    let mut names: Vec<String> = vec![];
    let chars: Vec<char> = wide_chars().into_iter().filter(|c| !c.is_whitespace() && *c != '=' && *c != '}').collect();
    for c in &chars {
        for n in [format!("a{}b", c), format!("{}x", c), format!("x{}", c), c.to_string()] {
            names.push(n);
        }
    }
    for two in ["${", "%{", "$$", "{{", "\\$", "\\%", "$%", "%$", "${{", "\\${"] {
        for n in [two.to_string(), format!("d/{}f", two), format!("{}f", two), format!("d{}", two)] {
            names.push(n);
        }
    }
    // what other languages write inside a reference (defaults, alternatives, pattern removal, slices,
    // indirection, case change) is just a name here
    for op in [":-", ":=", ":+", ":?", "-", "=", "+", "?", "#", "##", "%", "%%", "/", "//", ":", ":1", ":1:2", "[0]", "[@]", "[*]", "^", "^^", ",", ",,", "@Q", ".", "..", "|", "||", "&&", " "] {
        if op == " " || op.contains('=') {
            continue; // blanks and = are not part of names
        }
        for n in [format!("a{}b", op), format!("a{}", op), format!("{}a", op), format!("x{}F", op)] {
            names.push(n);
        }
    }
    names.push("!a".into());
    names.push("#a".into());
    names.sort();
    names.dedup();
    names.retain(|n| !["a", "b", "x", "f", "d", "d/"].contains(&n.as_str()));
    for n in &names {
        let mut env: HashMap<String, String> = HashMap::new();
        for (k, v) in [("a", "A"), ("b", "B"), ("x", "X"), ("f", "F"), ("d", "D"), ("d/", "D/")] {
            env.insert(k.to_string(), v.to_string());
        }
        env.insert(n.clone(), format!("value of the odd name w1 w2"));
        let r = format!("${{{}}}", n);
        let cases: Vec<(Vec<String>, Vec<String>)> = vec![
            (vec![r.clone()], vec!["value of the odd name w1 w2".to_string()]),
            (vec![format!("p{}q", r)], vec!["pvalue of the odd name w1 w2q".to_string()]),
            (vec![format!("{}${{x}}", r)], vec!["value of the odd name w1 w2X".to_string()]),
            (vec![format!("${{x}}{}", r), "z".to_string()], vec!["Xvalue of the odd name w1 w2".to_string(), "z".to_string()]),
            (vec!["y".to_string(), format!("%{{{}}}", n), "z".to_string()], vec!["y", "value", "of", "the", "odd", "name", "w1", "w2", "z"].into_iter().map(String::from).collect()),
        ];
        // and the same name when it is NOT defined (its parts may be names of defined variables): nothing
        let mut env_without = env.clone();
        env_without.remove(n);
        let undefined_cases: Vec<(Vec<String>, Vec<String>)> = vec![
            (vec![r.clone()], vec![String::new()]),
            (vec![format!("p{}q", r)], vec!["pq".to_string()]),
            (vec!["y".to_string(), format!("%{{{}}}", n), "z".to_string()], vec!["y".to_string(), "z".to_string()]),
        ];
        for (args, exp) in undefined_cases {
            if !w.take() {
                continue;
            }
            let cj = json!({"written": args, "odd_name": n, "defined": false, "via": "run_instruction"});
            w.begin(|| cj.clone());
            let got = rig.bind(&args, &env_without);
            w.add_transitions(1);
            match got {
                Err(e) => w.fail(if e.starts_with("panic") { "panic" } else { "odd-name:bind-error" }, &format!("{:?}: {}", args, e), cj),
                Ok(g) if g == exp => w.pass(true, hash64(&("odd-name-undefined", g.len()))),
                Ok(g) => w.fail("odd-name:undefined-differs", &format!("written {:?} with no variable {:?} (a, b, x, f, d defined): received {:?}, expected {:?}", args, n, g, exp), cj),
            }
        }
        for (args, exp) in cases {
            if !w.take() {
                continue;
            }
            let cj = json!({"written": args, "odd_name": n, "via": "run_instruction"});
            w.begin(|| cj.clone());
            let got = rig.bind(&args, &env);
            w.add_transitions(1);
            match got {
                Err(e) => w.fail(if e.starts_with("panic") { "panic" } else { "odd-name:bind-error" }, &format!("{:?}: {}", args, e), cj),
                Ok(g) if g == exp => w.pass(true, hash64(&("odd-name", g.len()))),
                Ok(g) => w.fail("odd-name:differs", &format!("written {:?} with the variable {:?} defined: received {:?}, expected {:?}", args, n, g, exp), cj),
            }
        }
    }
}

pub fn worker(w: &mut Worker) {
    let tier = w.tier;
    std::env::set_var("C02_ENV_ONLY", "leaked from the environment");
    scale(w);
    rebinding(w);
    odd_names(w);
    many_templates(w);
    let mut rig = Rig::new();
    let mut templates: Vec<Tpl> = vec![];
    for t in Strings::new(&PIECES[..], 1, 3) {
        // adjacent literals would only build longer literals; keep them, they are distinct texts
        templates.push(Tpl::Single(t));
    }
    for s in SPREADS {
        templates.push(Tpl::Spread(s));
    }
    let vl = tier.pick(2usize, 4usize);
    let mut vvalues: Vec<Option<String>> = vec![None];
    for s in Strings::new(&VSIGMA[..], 0, vl) {
        vvalues.push(Some(s.concat()));
    }
    for s in VSPECIAL {
        vvalues.push(Some(s.to_string()));
    }
    // every ASCII punctuation character, and the characters of other planes that share the low byte of
    // one that means something to the scanner, leading / trailing / wrapping words of a value (a value
    // is data: no character in it quotes, groups, escapes or comments anything, and a spread splits it at
    // blanks only)
    {
        let mut chars: Vec<char> = (0x21u32..0x7f).filter_map(char::from_u32).filter(|c| !c.is_ascii_alphanumeric()).collect();
        for syntax in [' ', '"', '#', '\\', '$', '%', '{', '}', '\''] {
            for plane in [0x100u32, 0x2000, 0x2100, 0x3000, 0xff00, 0x1f600] {
                if let Some(c) = char::from_u32(plane + syntax as u32) {
                    chars.push(c);
                }
            }
        }
        for c in chars {
            for v in [format!("{}a", c), format!("a{}", c), format!("{}a b{}", c, c), format!("x {}a b{} y", c, c), format!("rock {}n roll", c), format!("{}${{w}}{}", c, c)] {
                if !vvalues.contains(&Some(v.clone())) {
                    vvalues.push(Some(v));
                }
            }
        }
    }

    for t in &templates {
        for pos in 0..5u8 {
            let needs_w = uses(t, "w") || pos >= 2;
            let needs_v = uses(t, "v");
            for (vi, v) in vvalues.iter().enumerate() {
                if !needs_v && vi > 0 {
                    break;
                }
                for (wi, wv) in WVALUES.iter().enumerate() {
                    if !needs_w && wi > 0 {
                        break;
                    }
                    if !w.take() {
                        continue;
                    }
                    let mut env: HashMap<String, String> = HashMap::new();
                    if let Some(v) = v {
                        env.insert("v".into(), v.clone());
                    }
                    env.insert("w".into(), wv.to_string());
                    env.insert("a.b".into(), "dot".into());
                    env.insert("s::é1".into(), "sc é".into());
                    let (args, exp) = build(t, pos, &env);
                    let cj = json!({"written": args, "v": v, "w": wv, "via": "run_instruction"});
                    w.begin(|| cj.clone());
                    let got = rig.bind(&args, &env);
                    w.add_transitions(1);
                    let nontrivial = needs_v || needs_w;
                    match (&got, &exp) {
                        (Err(e), _) => w.fail(if e.starts_with("panic") { "panic" } else { "bind-error" }, &format!("{:?}: {}", args, e), cj),
                        (Ok(g), Some(x)) if g == x => {
                            if w.want_sample() && nontrivial && vi > 20 {
                                w.sample(json!({"written": args, "v": v, "w": wv, "received": g}));
                            }
                            w.pass(nontrivial, hash64(&(g.len(), pos, matches!(t, Tpl::Spread(_)))))
                        }
                        (Ok(g), Some(x)) => {
                            let sig = classify(t, v.as_deref(), g, x);
                            w.fail(&sig, &format!("written {:?} with v={:?} w={:?}: received {:?}, expected {:?}", args, v, wv, g, x), cj)
                        }
                        (Ok(g), None) => {
                            // grouping by quotes / '#' inside a spread value is pinned by the repository's
                            // tests, not by the statement: only "no panic, command still invoked" is checked
                            w.count("spread-unconstrained", 1);
                            w.pass(false, hash64(&("unconstrained", g.len().min(4))))
                        }
                    }
                }
            }
        }
    }

    // the empty environment: no variable at all is defined (binding is not the identity then either)
    for t in &templates {
        for pos in 0..5u8 {
            if !w.take() {
                continue;
            }
            let env: HashMap<String, String> = HashMap::new();
            let (args, exp) = build(t, pos, &env);
            let cj = json!({"written": args, "v": Value::Null, "w": Value::Null, "via": "run_instruction", "empty_environment": true});
            w.begin(|| cj.clone());
            let got = rig.bind(&args, &env);
            w.add_transitions(1);
            match (&got, &exp) {
                (Err(e), _) => w.fail(if e.starts_with("panic") { "panic" } else { "bind-error" }, &format!("{:?}: {}", args, e), cj),
                (Ok(g), Some(x)) if g == x => w.pass(true, hash64(&("empty-env", g.len(), pos))),
                (Ok(g), Some(x)) => w.fail(
                    &format!("empty-environment:{}", classify(t, None, g, x)),
                    &format!("written {:?} with no variable defined: received {:?}, expected {:?}", args, g, x),
                    cj,
                ),
                (Ok(_), None) => w.pass(false, 0),
            }
        }
    }

    // sub-family through the parser: the same templates written as script text
    let small: Vec<Option<String>> = {
        let mut v: Vec<Option<String>> = vec![None];
        for s in Strings::new(&VSIGMA[..], 0, 1) {
            v.push(Some(s.concat()));
        }
        for s in VSPECIAL {
            v.push(Some(s.to_string()));
        }
        v
    };
    for t in &templates {
        if let Tpl::Single(p) = t {
            if p.len() > 2 {
                continue;
            }
        }
        for pos in 0..5u8 {
            for v in &small {
                for quote in [false, true] {
                    if !w.take() {
                        continue;
                    }
                    let mut env: HashMap<String, String> = HashMap::new();
                    if let Some(v) = v {
                        env.insert("v".into(), v.clone());
                    }
                    env.insert("w".into(), "p q".to_string());
                    env.insert("a.b".into(), "dot".into());
                    env.insert("s::é1".into(), "sc é".into());
                    let (args, exp) = build(t, pos, &env);
                    let cj = json!({"written": args, "v": v, "w": "p q", "via": "run_script", "quote_optional": quote});
                    w.begin(|| cj.clone());
                    let got = rig.via_parser(&args, &env, quote);
                    w.add_transitions(1);
                    match (&got, &exp) {
                        (Err(e), _) => w.fail(if e.starts_with("panic") { "panic" } else { "script-error" }, &format!("{:?}: {}", args, e), cj),
                        (Ok(g), Some(x)) if g == x => w.pass(true, hash64(&("script", g.len(), pos))),
                        (Ok(g), Some(x)) => {
                            let sig = format!("script:{}", classify(t, v.as_deref(), g, x));
                            w.fail(&sig, &format!("script with {:?} v={:?}: received {:?}, expected {:?}", tpl_written(t), v, g, x), cj)
                        }
                        (Ok(g), None) => w.pass(false, hash64(&("unconstrained", g.len().min(4)))),
                    }
                }
            }
        }
    }
}

fn classify(t: &Tpl, _v: Option<&str>, got: &[String], exp: &[String]) -> String {
    let kind = match t {
        Tpl::Single(_) => "single",
        Tpl::Spread(_) => "spread",
    };
    if got.len() != exp.len() {
        format!("{}:argument-count", kind)
    } else {
        format!("{}:argument-text", kind)
    }
}

pub fn replay(case: &Value) -> Result<String, String> {
    if let Some(r) = scale_replay(case) {
        return r;
    }
    if case["kind"].as_str() == Some("rebinding") {
        return Ok("re-run the check: the case is rebuilt from its values (first, second, how) by the generator".to_string());
    }
    if case["kind"].as_str() == Some("many-templates") {
        return Ok("re-run the check: the history is rebuilt from the number of templates by the generator".to_string());
    }
    let args: Vec<String> = case["written"]
        .as_array()
        .ok_or("no written")?
        .iter()
        .map(|v| v.as_str().unwrap_or("").to_string())
        .collect();
    let mut env: HashMap<String, String> = HashMap::new();
    if let Some(v) = case["v"].as_str() {
        env.insert("v".into(), v.into());
    }
    if let Some(v) = case["w"].as_str() {
        env.insert("w".into(), v.into());
    }
    env.insert("a.b".into(), "dot".into());
    env.insert("s::é1".into(), "sc é".into());
    if case["empty_environment"].as_bool().unwrap_or(false) {
        env.clear();
    }
    let mut rig = Rig::new();
    let got = if case["via"] == "run_script" {
        rig.via_parser(&args, &env, case["quote_optional"].as_bool().unwrap_or(false))
    } else {
        rig.bind(&args, &env)
    };
    Ok(format!("received {:?}", got))
}

pub fn crash_sig(_case: &Value, kind: &str) -> String {
    kind.to_string()
}

pub const RULE: &str = "every template of 1..3 pieces from {a, 'b c', e-acute, ${v}, ${w}, ${u} (undefined), ${a.b}, ${s::e1} (name with '::', a digit and a non-ASCII letter), \\${v}} and the whole-argument forms %{v} %{w} %{u}, in five argument positions (alone, first of two, last of three after a spread, directly behind a spread, on both sides of a spread and behind a spread of an undefined variable), x every value of v (undefined, every string up to the length bound over {a SP \" \\ # $ { } % LF = e-acute TAB CR NBSP}, 9 special values such as '${w}' and '  ') x 8 values of w (only where the argument list mentions them); bound by runner::run_instruction and observed by a capture command; every template also under the empty environment (no variable defined at all); a second family writes the same templates as script text (plain and quoted) and runs them through run_script. Oracle: one-pass reference substitution; spread = space-separated non-empty words. Non-trivial: the argument list mentions v or w. states = distinct (received count, position, kind) classes; transitions = real bindings. Scale cases: a value of 300/70000 (thorough 1000003) characters made of ${v}, %{w}, backslash, '#' and quote text bound alone, embedded and as an array item (must arrive whole and uninterpreted); 300/3000 (thorough 30000) words spread by %{..} and as many arguments written out on one line. Re-binding family: the templates %{w} ${w} bound twice in one run with the variable changed in between by a command writing the variable table directly, by an assignment, by set_by_name, as a for/in loop variable, as a function argument, or removed (6 x 6 values): each binding shows the value of its moment. Many templates: 3..40 (thorough ..130) different written arguments (long and short, quoted, with one or two references or none) bound over and over in one run, in growing windows (each window twice) and backwards alternating with the first, the three variables changed every 29 bindings: every binding is that of the argument written there with the values of that moment. Punctuation values: every ASCII punctuation character and the low-byte look-alikes of blank, quote, #, backslash, $, %, braces and apostrophe, leading / trailing / wrapping the words of the value (6 shapes each) through every template: a value is data, a spread splits it at blanks only Odd names: every character of the wide alphabet that a name may hold (all but white space, = and }) inside, in front of and behind a name, and the two-character sequences ${ %{ $$ {{ \\$ \\% inside names, through five templates (alone, embedded, next to another reference on either side, as a spread): the name runs to the first } and is looked up as it stands. Every odd name is also bound while it is NOT defined (its parts being names of defined variables): nothing; the names include 30 operators other languages allow inside a reference (:- := :+ # ## % %% / // :1 [0] [@] ^ ^^ , ,, @Q ...)";
pub const ASSUMPTIONS: &[&str] = &["spread values containing a double quote or '#' are only checked for 'no panic' (their grouping is pinned by the repository's own tests, not by the statement)", "arguments that mix text with %{..} are outside the property's template domain"];
pub const EXHAUSTIVE: bool = true;
pub const WALL_CAP_S: (u64, u64) = (50, 1500);
