//! Shared machinery: tiers, the worker-side reporter, the supervisor that shards an
//! enumeration over worker processes, known-findings handling and the evidence writer.
//!
//! Protocol (worker stdout, one record per line, every record starts with MAGIC so that
//! anything the subject itself prints to fd 1 is ignored):
//!   B <idx> <json>     case <idx> is about to run (risky properties: every case)
//!   F <json>           failing case {idx,sig,what,replay}
//!   S <json>           statistics delta
//!   D                  done

use serde_json::{json, Map, Value};
use std::collections::{BTreeMap, BTreeSet, HashMap};
use std::io::{BufRead, BufReader, Write};
use std::process::{Command, Stdio};
use std::sync::atomic::{AtomicU64, Ordering};
use std::sync::mpsc;
use std::sync::Arc;
use std::time::{Duration, Instant};

pub const MAGIC: &str = "\u{1}DSMC ";

#[derive(Clone, Copy, PartialEq, Eq, Debug)]
pub enum Tier {
    Quick,
    Thorough,
}

impl Tier {
    pub fn parse(s: &str) -> Tier {
        match s {
            "thorough" => Tier::Thorough,
            _ => Tier::Quick,
        }
    }
    pub fn name(&self) -> &'static str {
        match self {
            Tier::Quick => "quick",
            Tier::Thorough => "thorough",
        }
    }
    pub fn pick<T>(&self, q: T, t: T) -> T {
        match self {
            Tier::Quick => q,
            Tier::Thorough => t,
        }
    }
}

pub fn hash64<T: std::hash::Hash>(v: &T) -> u64 {
    use std::hash::Hasher;
    // fixed keys: deterministic between runs and processes
    #[allow(deprecated)]
    let mut h = std::hash::SipHasher::new_with_keys(0x6475636b, 0x7363726970);
    v.hash(&mut h);
    h.finish()
}

pub fn hash128<T: std::hash::Hash>(v: &T) -> u128 {
    use std::hash::Hasher;
    #[allow(deprecated)]
    let mut a = std::hash::SipHasher::new_with_keys(1, 2);
    #[allow(deprecated)]
    let mut b = std::hash::SipHasher::new_with_keys(0x9e3779b97f4a7c15, 0xc2b2ae3d27d4eb4f);
    v.hash(&mut a);
    v.hash(&mut b);
    ((a.finish() as u128) << 64) | (b.finish() as u128)
}

/// Silence the default panic hook (the subject may panic thousands of times in a sweep); the
/// panic message is kept in a thread local so that a failure can quote it.
pub fn install_quiet_panic_hook() {
    std::panic::set_hook(Box::new(|info| {
        let msg = if let Some(s) = info.payload().downcast_ref::<&str>() {
            s.to_string()
        } else if let Some(s) = info.payload().downcast_ref::<String>() {
            s.clone()
        } else {
            "panic".to_string()
        };
        let loc = info
            .location()
            .map(|l| format!("{}:{}", l.file(), l.line()))
            .unwrap_or_default();
        LAST_PANIC.with(|p| *p.borrow_mut() = format!("{} at {}", msg, loc));
    }));
}

thread_local! {
    pub static LAST_PANIC: std::cell::RefCell<String> = std::cell::RefCell::new(String::new());
}

pub fn last_panic() -> String {
    LAST_PANIC.with(|p| p.borrow().clone())
}

/// Run `f`, turning an unwind into Err(panic message).
pub fn guarded<T>(f: impl FnOnce() -> T) -> Result<T, String> {
    match std::panic::catch_unwind(std::panic::AssertUnwindSafe(f)) {
        Ok(v) => Ok(v),
        Err(_) => Err(last_panic()),
    }
}

// ---------------------------------------------------------------------------------------------
// worker side
// ---------------------------------------------------------------------------------------------

pub struct Worker {
    pub tier: Tier,
    shard: u64,
    nshards: u64,
    from: u64,
    only: Option<u64>,
    next_idx: u64,
    cur_idx: u64,
    /// print a B record for every case (needed when the subject may abort or hang)
    pub risky: bool,
    /// per-case wall limit in ms enforced by the in-process watchdog (0 = none)
    watch: Arc<WatchSlot>,
    // statistics since the last flush
    evals: u64,
    nontrivial: u64,
    transitions: u64,
    traces: u64,
    outcomes: BTreeSet<u64>,
    states: BTreeSet<u64>,
    counters: BTreeMap<String, u64>,
    samples: Vec<Value>,
    samples_sent: usize,
    fails_per_sig: HashMap<String, u64>,
    last_flush: Instant,
    pub scratch: std::path::PathBuf,
}

pub struct WatchSlot {
    /// idx+1 of the case in flight (0 = idle)
    cur: AtomicU64,
    /// start time in ms since process start
    since: AtomicU64,
    limit_ms: AtomicU64,
    /// halt flag of the case in flight, raised first as the polite way to stop a run
    pub halt: std::sync::Mutex<Option<Arc<std::sync::atomic::AtomicBool>>>,
}

fn emit(line: &str) {
    let out = std::io::stdout();
    let mut l = out.lock();
    let _ = write!(l, "\n{}{}\n", MAGIC, line);
    let _ = l.flush();
}

impl Worker {
    pub fn from_args(tier: Tier, shard: u64, nshards: u64, from: u64, only: Option<u64>) -> Worker {
        let watch = Arc::new(WatchSlot {
            cur: AtomicU64::new(0),
            since: AtomicU64::new(0),
            limit_ms: AtomicU64::new(0),
            halt: std::sync::Mutex::new(None),
        });
        let scratch = scratch_root().join(format!("w{}-{}", std::process::id(), shard));
        Worker {
            tier,
            shard,
            nshards,
            from,
            only,
            next_idx: 0,
            cur_idx: 0,
            risky: false,
            watch,
            evals: 0,
            nontrivial: 0,
            transitions: 0,
            traces: 0,
            outcomes: BTreeSet::new(),
            states: BTreeSet::new(),
            counters: BTreeMap::new(),
            samples: vec![],
            samples_sent: 0,
            fails_per_sig: HashMap::new(),
            last_flush: Instant::now(),
            scratch,
        }
    }

    /// Arms the in-process watchdog. The limit is on the CPU time the process has used since the case
    /// began (a machine loaded by other work must not turn a descheduled worker into a "hang"), with
    /// a wall-clock backstop of ten times the limit for a case that blocks without using the CPU.
    /// A case over the limit first gets its halt flag raised (if registered) and, 1.5 s (CPU, or
    /// 15 s wall) later, the process reports `H` and exits with status 3.
    pub fn set_case_limit_ms(&mut self, ms: u64) {
        // processor time is what is counted, but on a crowded machine the same work costs more of it
        // (shared caches, hyper-threads): the limit grows with the load, up to two and a half times
        let ms = (ms as f64 * (1.0 + (load_factor() - 1.0) * 0.5)) as u64;
        let first = self.watch.limit_ms.swap(ms, Ordering::SeqCst) == 0;
        if first && ms > 0 {
            let slot = self.watch.clone();
            let t0 = process_start();
            std::thread::spawn(move || {
                // (case, cpu ms at the first poll that saw this case)
                let mut seen: (u64, u64) = (0, 0);
                loop {
                    std::thread::sleep(Duration::from_millis(50));
                    let cur = slot.cur.load(Ordering::SeqCst);
                    if cur == 0 {
                        continue;
                    }
                    let cpu_now = process_cpu_ms();
                    if seen.0 != cur {
                        seen = (cur, cpu_now);
                        continue;
                    }
                    let since = slot.since.load(Ordering::SeqCst);
                    let wall = (t0.elapsed().as_millis() as u64).saturating_sub(since);
                    let cpu = cpu_now.saturating_sub(seen.1);
                    let limit = slot.limit_ms.load(Ordering::SeqCst);
                    if cpu > limit || wall > limit * 10 {
                        if let Some(h) = slot.halt.lock().unwrap().as_ref() {
                            h.store(true, Ordering::SeqCst);
                        }
                    }
                    if (cpu > limit + 1500 || wall > limit * 10 + 15_000) && slot.cur.load(Ordering::SeqCst) == cur {
                        emit(&format!("H {}", cur - 1));
                        std::process::exit(3);
                    }
                }
            });
        }
    }

    pub fn watch_slot(&self) -> Arc<WatchSlot> {
        self.watch.clone()
    }

    /// Advances the case counter; true when the case belongs to this worker.
    #[inline]
    pub fn take(&mut self) -> bool {
        let idx = self.next_idx;
        self.next_idx += 1;
        self.cur_idx = idx;
        if let Some(o) = self.only {
            return idx == o;
        }
        idx >= self.from && idx % self.nshards == self.shard
    }

    /// true once an `--only` run has passed its case (lets generators stop early)
    pub fn finished(&self) -> bool {
        matches!(self.only, Some(o) if self.next_idx > o)
    }

    pub fn idx(&self) -> u64 {
        self.cur_idx
    }

    /// Marks the case as in flight. `desc` is only evaluated for risky properties.
    pub fn begin(&mut self, desc: impl FnOnce() -> Value) {
        if self.risky {
            emit(&format!("B {} {}", self.cur_idx, desc()));
        }
        self.watch
            .since
            .store(process_start().elapsed().as_millis() as u64, Ordering::SeqCst);
        self.watch.cur.store(self.cur_idx + 1, Ordering::SeqCst);
    }

    fn end(&mut self) {
        self.watch.cur.store(0, Ordering::SeqCst);
        *self.watch.halt.lock().unwrap() = None;
        self.evals += 1;
        // statistics reach the supervisor at least twice a second, so a run that is cut short still
        // reports what it covered
        if (self.risky || self.evals % 1024 == 0) && self.last_flush.elapsed() > Duration::from_millis(500) {
            self.flush();
        }
    }

    pub fn pass(&mut self, nontrivial: bool, outcome: u64) {
        if nontrivial {
            self.nontrivial += 1;
        }
        if self.outcomes.len() < 200_000 {
            self.outcomes.insert(outcome);
        }
        self.end();
    }

    pub fn fail(&mut self, sig: &str, what: &str, replay: Value) {
        let n = self.fails_per_sig.entry(sig.to_string()).or_insert(0);
        *n += 1;
        if *n <= 3 {
            emit(&format!(
                "F {}",
                json!({"idx": self.cur_idx, "sig": sig, "what": what, "replay": replay})
            ));
        }
        *self.counters.entry(format!("fail:{}", sig)).or_insert(0) += 1;
        self.nontrivial += 1;
        self.end();
    }

    pub fn add_transitions(&mut self, n: u64) {
        self.transitions += n;
    }
    pub fn add_traces(&mut self, n: u64) {
        self.traces += n;
    }
    pub fn add_state(&mut self, h: u64) {
        if self.states.len() < 2_000_000 {
            self.states.insert(h);
        }
    }
    pub fn count(&mut self, key: &str, n: u64) {
        *self.counters.entry(key.to_string()).or_insert(0) += n;
    }
    pub fn want_sample(&self) -> bool {
        self.samples.len() < 4
    }
    pub fn sample(&mut self, v: Value) {
        if self.samples.len() < 4 {
            self.samples.push(v);
        }
    }

    pub fn flush(&mut self) {
        let s = json!({
            "evals": self.evals,
            "nontrivial": self.nontrivial,
            "transitions": self.transitions,
            "traces": self.traces,
            "outcomes": self.outcomes.iter().collect::<Vec<_>>(),
            "states": self.states.iter().collect::<Vec<_>>(),
            "counters": self.counters,
            "samples": self.samples[self.samples_sent..].to_vec(),
        });
        emit(&format!("S {}", s));
        self.evals = 0;
        self.nontrivial = 0;
        self.transitions = 0;
        self.traces = 0;
        self.outcomes.clear();
        self.states.clear();
        self.counters.clear();
        self.samples_sent = self.samples.len();
        self.last_flush = Instant::now();
    }

    pub fn done(&mut self) {
        self.flush();
        emit("D");
        let _ = std::fs::remove_dir_all(&self.scratch);
    }
}

/// user + system CPU time of this process in milliseconds (from /proc/self/stat, 10 ms ticks)
/// how much slower than on an idle machine this run can expect to be: load average over processors,
/// between 1 and 4
pub fn load_factor() -> f64 {
    load_factor_upto(4.0)
}

/// one-minute load average over processors, between 1 and `max`
pub fn load_factor_upto(max: f64) -> f64 {
    let load: f64 = std::fs::read_to_string("/proc/loadavg").ok().and_then(|s| s.split_whitespace().next().and_then(|x| x.parse().ok())).unwrap_or(0.0);
    let cpus = std::thread::available_parallelism().map(|n| n.get()).unwrap_or(1) as f64;
    (load / cpus).clamp(1.0, max)
}

pub fn process_cpu_ms() -> u64 {
    let stat = match std::fs::read_to_string("/proc/self/stat") {
        Ok(s) => s,
        Err(_) => return process_start().elapsed().as_millis() as u64,
    };
    // fields after the command name (which may contain spaces, so cut at the last ')')
    let rest = match stat.rfind(')') {
        Some(i) => &stat[i + 1..],
        None => return process_start().elapsed().as_millis() as u64,
    };
    let f: Vec<&str> = rest.split_whitespace().collect();
    // rest[0] is field 3 (state); utime and stime are fields 14 and 15
    let ticks = f.get(11).and_then(|x| x.parse::<u64>().ok()).unwrap_or(0) + f.get(12).and_then(|x| x.parse::<u64>().ok()).unwrap_or(0);
    ticks * 10
}

pub fn process_start() -> &'static Instant {
    static T0: std::sync::OnceLock<Instant> = std::sync::OnceLock::new();
    T0.get_or_init(Instant::now)
}

pub fn scratch_root() -> std::path::PathBuf {
    if let Ok(p) = std::env::var("DSMC_SCRATCH") {
        return p.into();
    }
    let shm = std::path::Path::new("/dev/shm");
    if shm.is_dir() {
        shm.join("dsmc-scratch")
    } else {
        std::path::PathBuf::from("/verif/harness/target/scratch")
    }
}

// ---------------------------------------------------------------------------------------------
// known findings
// ---------------------------------------------------------------------------------------------

pub struct Known {
    /// (property, signature) -> description
    pub known: BTreeMap<(String, String), String>,
}

impl Known {
    pub fn load() -> Known {
        let mut known = BTreeMap::new();
        let path = verif_root().join("KNOWN_FINDINGS.txt");
        if let Ok(text) = std::fs::read_to_string(path) {
            for line in text.lines() {
                let line = line.trim();
                if !line.starts_with("known:") {
                    continue; // comments and `fixed:` lines suppress nothing
                }
                let rest = line["known:".len()..].trim();
                let mut prop = String::new();
                let mut sig = String::new();
                let mut desc = vec![];
                for tok in rest.split_whitespace() {
                    if let Some(v) = tok.strip_prefix("property=") {
                        if prop.is_empty() {
                            prop = v.to_string();
                            continue;
                        }
                    }
                    if let Some(v) = tok.strip_prefix("sig=") {
                        if sig.is_empty() {
                            sig = v.to_string();
                            continue;
                        }
                    }
                    desc.push(tok);
                }
                if !prop.is_empty() && !sig.is_empty() {
                    known.insert((prop, sig), desc.join(" "));
                }
            }
        }
        Known { known }
    }
    pub fn get(&self, prop: &str, sig: &str) -> Option<&String> {
        self.known.get(&(prop.to_string(), sig.to_string()))
    }
}

pub fn verif_root() -> std::path::PathBuf {
    std::env::var("VERIF_ROOT")
        .map(std::path::PathBuf::from)
        .unwrap_or_else(|_| std::path::PathBuf::from("/verif"))
}

// ---------------------------------------------------------------------------------------------
// supervisor side
// ---------------------------------------------------------------------------------------------

#[derive(Default)]
pub struct Totals {
    pub evals: u64,
    pub nontrivial: u64,
    pub transitions: u64,
    pub traces: u64,
    pub outcomes: BTreeSet<u64>,
    pub states: BTreeSet<u64>,
    pub counters: BTreeMap<String, u64>,
    pub samples: Vec<Value>,
    /// sig -> (count, witnesses sorted by idx)
    pub failures: BTreeMap<String, (u64, Vec<Value>)>,
    pub cap_hit: Option<String>,
    pub machinery_error: Option<String>,
    /// states counted by an explicit-state search (takes precedence over the hash set)
    pub bfs_states: u64,
    pub extra: Map<String, Value>,
}

impl Totals {
    pub fn absorb_stats(&mut self, s: &Value) {
        self.evals += s["evals"].as_u64().unwrap_or(0);
        self.nontrivial += s["nontrivial"].as_u64().unwrap_or(0);
        self.transitions += s["transitions"].as_u64().unwrap_or(0);
        self.traces += s["traces"].as_u64().unwrap_or(0);
        if let Some(a) = s["outcomes"].as_array() {
            for v in a {
                if let Some(x) = v.as_u64() {
                    self.outcomes.insert(x);
                }
            }
        }
        if let Some(a) = s["states"].as_array() {
            for v in a {
                if let Some(x) = v.as_u64() {
                    self.states.insert(x);
                }
            }
        }
        if let Some(m) = s["counters"].as_object() {
            for (k, v) in m {
                *self.counters.entry(k.clone()).or_insert(0) += v.as_u64().unwrap_or(0);
            }
        }
        if let Some(a) = s["samples"].as_array() {
            for v in a {
                if self.samples.len() < 8 {
                    self.samples.push(v.clone());
                }
            }
        }
    }
    pub fn add_failure(&mut self, f: Value) {
        let sig = f["sig"].as_str().unwrap_or("unclassified").to_string();
        let e = self.failures.entry(sig).or_insert((0, vec![]));
        e.1.push(f);
        e.1.sort_by_key(|v| v["idx"].as_u64().unwrap_or(u64::MAX));
        e.1.truncate(3);
    }
}

pub struct SuperOpts {
    pub prop: String,
    pub tier: Tier,
    pub workers: usize,
    /// overall wall cap; when hit, workers are killed and the run is reported as capped
    pub wall_cap: Duration,
    /// extra arguments handed to every worker (phase selectors etc.)
    pub extra: Vec<String>,
}

/// Classifies a case that killed or hung its worker. Supplied by the property.
pub type CrashSig = fn(case: &Value, kind: &str) -> String;

pub fn supervise(opts: &SuperOpts, crash_sig: CrashSig, totals: &mut Totals) {
    let exe = std::env::current_exe().expect("current_exe");
    let (tx, rx) = mpsc::channel::<(usize, Option<String>)>();
    let start = Instant::now();

    struct W {
        child: std::process::Child,
        last_b: Option<(u64, Value)>,
        done: bool,
        hung: Option<u64>,
        restarts: u32,
    }
    let spawn = |shard: usize, from: u64, tx: mpsc::Sender<(usize, Option<String>)>| -> std::process::Child {
        let mut cmd = Command::new(&exe);
        cmd.arg("worker")
            .arg(&opts.prop)
            .arg("--tier")
            .arg(opts.tier.name())
            .arg("--shard")
            .arg(format!("{}/{}", shard, opts.workers))
            .arg("--from")
            .arg(from.to_string())
            .args(&opts.extra)
            .stdin(Stdio::null())
            .stdout(Stdio::piped())
            .stderr(Stdio::null());
        let mut child = cmd.spawn().expect("spawn worker");
        let out = child.stdout.take().unwrap();
        std::thread::spawn(move || {
            let mut r = BufReader::new(out);
            let mut buf = Vec::new();
            loop {
                buf.clear();
                match r.read_until(b'\n', &mut buf) {
                    Ok(0) | Err(_) => break,
                    Ok(_) => {
                        let s = String::from_utf8_lossy(&buf);
                        let s = s.trim_end_matches(['\n', '\r']);
                        if let Some(pos) = s.find(MAGIC) {
                            let _ = tx.send((shard, Some(s[pos + MAGIC.len()..].to_string())));
                        }
                    }
                }
            }
            let _ = tx.send((shard, None));
        });
        child
    };

    let mut ws: Vec<W> = (0..opts.workers)
        .map(|i| W {
            child: spawn(i, 0, tx.clone()),
            last_b: None,
            done: false,
            hung: None,
            restarts: 0,
        })
        .collect();
    let mut live = opts.workers;
    // the cap is meant for an otherwise idle machine: when other work competes for the processors (the
    // one-minute load average at the start exceeds their number) it is stretched accordingly, up to 4x
    // the wall cap is a backstop by the clock, the watchdogs count processor time: on a crowded machine the
    // cap must leave the watchdog of a case that hangs the time to fire (its processor seconds take
    // load / processors times as long by the clock), so the cap follows the load further than the limits do
    let wall_cap = opts.wall_cap.mul_f64(load_factor_upto(8.0));

    while live > 0 {
        let msg = rx.recv_timeout(Duration::from_millis(200));
        if start.elapsed() > wall_cap {
            for w in ws.iter_mut() {
                let _ = w.child.kill();
                let _ = w.child.wait();
            }
            totals.cap_hit = Some(format!("wall cap {} s", opts.wall_cap.as_secs()));
            return;
        }
        let (i, line) = match msg {
            Ok(m) => m,
            Err(_) => continue,
        };
        match line {
            Some(l) => {
                if let Some(rest) = l.strip_prefix("B ") {
                    let mut it = rest.splitn(2, ' ');
                    let idx = it.next().and_then(|s| s.parse().ok()).unwrap_or(0);
                    let v = it
                        .next()
                        .and_then(|s| serde_json::from_str(s).ok())
                        .unwrap_or(Value::Null);
                    ws[i].last_b = Some((idx, v));
                } else if let Some(rest) = l.strip_prefix("F ") {
                    if let Ok(v) = serde_json::from_str::<Value>(rest) {
                        totals.add_failure(v);
                    }
                } else if let Some(rest) = l.strip_prefix("S ") {
                    if let Ok(v) = serde_json::from_str::<Value>(rest) {
                        totals.absorb_stats(&v);
                    }
                } else if let Some(rest) = l.strip_prefix("H ") {
                    ws[i].hung = rest.trim().parse().ok();
                } else if l == "D" {
                    ws[i].done = true;
                }
            }
            None => {
                // pipe closed: worker exited
                let status = ws[i].child.wait().ok();
                if ws[i].done {
                    live -= 1;
                    continue;
                }
                let kind = if ws[i].hung.is_some() { "hang" } else { "abort" };
                let (idx, case) = match (&ws[i].hung, &ws[i].last_b) {
                    (Some(h), Some((b, v))) if h == b => (*h, v.clone()),
                    (Some(h), _) => (*h, json!({"kind": "case-index", "index": h, "how": "the check does not announce its cases; `DSMC_DESCRIBE=1 dsmc worker <ID> --tier <tier> --only <index>` prints the case before running it"})),
                    (None, Some((b, v))) => (*b, v.clone()),
                    (None, None) => {
                        totals.machinery_error = Some(format!(
                            "worker {} died ({:?}) before reporting a case",
                            i, status
                        ));
                        live -= 1;
                        continue;
                    }
                };
                let sig = crash_sig(&case, kind);
                let entry = totals.failures.entry(sig.clone()).or_insert((0, vec![]));
                entry.0 += 1;
                totals.add_failure(json!({
                    "idx": idx, "sig": sig,
                    "what": format!("worker {} on this case (exit status {:?})", kind, status),
                    "replay": case,
                }));
                totals.evals += 1;
                totals.nontrivial += 1;
                ws[i].restarts += 1;
                if ws[i].restarts > 400 {
                    totals.machinery_error = Some(format!("worker {} restarted too often", i));
                    live -= 1;
                    continue;
                }
                ws[i].hung = None;
                ws[i].last_b = None;
                ws[i].child = spawn(i, idx + 1, tx.clone());
            }
        }
    }
    // failure counts come from the workers' counters
    let keys: Vec<String> = totals.counters.keys().cloned().collect();
    for k in keys {
        if let Some(sig) = k.strip_prefix("fail:") {
            let n = totals.counters[&k];
            if let Some(e) = totals.failures.get_mut(sig) {
                e.0 += n;
            }
        }
    }
}

// ---------------------------------------------------------------------------------------------
// verdict + evidence
// ---------------------------------------------------------------------------------------------

pub struct EvidenceSpec {
    pub prop: String,
    pub tier: Tier,
    pub level: &'static str,
    pub rule: String,
    pub bounds: Value,
    pub assumptions: Vec<String>,
    pub exhaustive: bool,
    pub extra: Map<String, Value>,
}

/// Prints KNOWN-FINDING / VIOLATION lines, writes replay files and the evidence file.
/// Returns the process exit code.
pub fn conclude(spec: EvidenceSpec, totals: &Totals, wall: Duration) -> i32 {
    let known = Known::load();
    let root = verif_root();
    let _ = std::fs::create_dir_all(root.join("replays"));
    let _ = std::fs::create_dir_all(root.join("evidence"));
    let mut violations = 0;
    let mut known_hits = vec![];
    let mut n = 0;
    for (sig, (count, wit)) in &totals.failures {
        if let Some(desc) = known.get(&spec.prop, sig) {
            println!(
                "KNOWN-FINDING: property={} sig={} cases={} {}",
                spec.prop, sig, count, desc
            );
            known_hits.push(json!({"sig": sig, "cases": count,
                "witness": wit.first().map(|w| w["replay"].clone())}));
        } else {
            violations += 1;
            n += 1;
            let path = root.join("replays").join(format!("{}-{}.json", spec.prop, n));
            let first = wit.first().cloned().unwrap_or(Value::Null);
            let doc = json!({"property": spec.prop, "sig": sig, "cases_with_this_signature": count,
                "what": first["what"], "case": first["replay"], "idx": first["idx"]});
            let _ = std::fs::write(&path, serde_json::to_string_pretty(&doc).unwrap());
            println!(
                "  {} sig={} cases={} first: {}",
                spec.prop,
                sig,
                count,
                first["what"].as_str().unwrap_or("")
            );
            println!("VIOLATION property={} replay={}", spec.prop, path.display());
        }
    }

    let mut cov = Map::new();
    cov.insert("evaluations".into(), json!(totals.evals));
    cov.insert("distinct_nontrivial".into(), json!(totals.nontrivial));
    cov.insert("rule".into(), json!(spec.rule));
    cov.insert("samples".into(), json!(totals.samples));
    let nstates = if totals.bfs_states > 0 { totals.bfs_states as usize } else { totals.states.len().max(totals.outcomes.len()) };
    cov.insert("states".into(), json!(nstates));
    cov.insert("transitions".into(), json!(totals.transitions.max(totals.evals)));
    cov.insert(
        "traces_validated_against_impl".into(),
        json!(if totals.traces > 0 { totals.traces } else { totals.evals }),
    );
    cov.insert("distinct_outcomes".into(), json!(totals.outcomes.len()));
    cov.insert("bounds".into(), spec.bounds);
    cov.insert("counters".into(), json!(totals.counters));
    cov.insert(
        "exhaustive".into(),
        json!(spec.exhaustive && totals.cap_hit.is_none() && totals.machinery_error.is_none()),
    );
    if let Some(c) = &totals.cap_hit {
        cov.insert("cap_hit".into(), json!(c));
    }
    cov.insert("known_findings_seen".into(), json!(known_hits));
    for (k, v) in spec.extra {
        cov.insert(k, v);
    }
    for (k, v) in &totals.extra {
        cov.insert(k.clone(), v.clone());
    }
    let seed = std::env::var("VERIF_SEED")
        .ok()
        .and_then(|s| s.parse::<i64>().ok())
        .unwrap_or(0);
    let ev = json!({
        "property_id": spec.prop,
        "tier": spec.tier.name(),
        "seed": seed,
        "level": spec.level,
        "coverage": Value::Object(cov),
        "assumptions": spec.assumptions,
        "wall_s": (wall.as_millis() as f64) / 1000.0,
        "violations": violations,
    });
    let path = root.join("evidence").join(format!("{}.json", spec.prop));
    std::fs::write(&path, serde_json::to_string_pretty(&ev).unwrap()).expect("write evidence");

    if let Some(m) = &totals.machinery_error {
        eprintln!("MACHINERY-ERROR: {}", m);
        println!("machinery error: {}", m);
        if violations == 0 {
            return 2;
        }
        // violations that were found and replayed stand, even though the run did not complete
    }
    println!(
        "{} {}: evaluations={} nontrivial={} outcomes={} states={} transitions={} violations={} known={} wall={:.1}s{}",
        spec.prop,
        spec.tier.name(),
        totals.evals,
        totals.nontrivial,
        totals.outcomes.len(),
        totals.states.len(),
        totals.transitions,
        violations,
        totals.failures.len() - violations,
        wall.as_secs_f64(),
        totals.cap_hit.as_ref().map(|c| format!(" CAPPED({})", c)).unwrap_or_default()
    );
    if violations > 0 {
        1
    } else {
        0
    }
}
