//! E1 `seqmc` — explicit-state breadth-first search over operation histories.
//! Every transition executes the real operation on the real object and the reference model,
//! compares output and complete resulting state, and de-duplicates on a canonical form of the
//! implementation's state. Level-synchronous, threads rebuild states by replaying histories
//! (the real `Context` is not `Send`).

use crate::engine::*;
use serde_json::{json, Value};
use std::collections::HashSet;
use std::sync::atomic::{AtomicUsize, Ordering};
use std::sync::Mutex;
use std::time::{Duration, Instant};

pub struct Fail {
    pub sig: String,
    pub what: String,
}

pub trait Sys: Sync {
    type Impl;
    type Model: Clone + Send + Sync;
    type Op: Clone + Send + Sync;
    /// fresh initial implementation state (called in every thread)
    fn new_impl(&self) -> Self::Impl;
    fn clone_impl(&self, s: &Self::Impl) -> Self::Impl;
    fn init_model(&self) -> Self::Model;
    /// operations enabled in this state (growing operations are disabled in full states)
    fn enabled(&self, m: &Self::Model) -> Vec<Self::Op>;
    /// runs the operation on both, compares output and whole state
    fn step(&self, s: &mut Self::Impl, m: &mut Self::Model, op: &Self::Op) -> Result<(), Fail>;
    /// canonical bytes of the implementation state (and whatever the harness needs to address it)
    fn canon(&self, s: &Self::Impl, m: &Self::Model) -> Vec<u8>;
    fn op_json(&self, op: &Self::Op) -> Value;
    /// When the implementation state is fully determined by the (verified) model state, a frontier
    /// entry can be rebuilt from it directly instead of replaying its history.
    fn restore_from_model(&self, _m: &Self::Model) -> Option<Self::Impl> {
        None
    }
    fn restorable(&self) -> bool {
        false
    }
    /// invariants checked in every state (beyond agreement with the model)
    fn invariant(&self, _s: &Self::Impl, _m: &Self::Model) -> Result<(), Fail> {
        Ok(())
    }
}

pub struct BfsOpts {
    pub max_depth: usize,
    pub max_states: usize,
    pub wall: Duration,
    pub threads: usize,
}

pub struct BfsResult {
    pub levels: Vec<usize>,
    pub states: usize,
    pub transitions: u64,
    pub fixpoint: bool,
    pub cap_hit: Option<String>,
    /// sig -> (count, shortest history as op json, what)
    pub failures: std::collections::BTreeMap<String, (u64, Vec<Value>, String)>,
    pub samples: Vec<Value>,
    pub op_kinds: usize,
}

struct Succ<O, M> {
    parent: usize,
    opi: usize,
    op: O,
    key: u128,
    fail: Option<Fail>,
    model: Option<M>,
}

pub fn bfs<S: Sys>(sys: &S, opts: &BfsOpts) -> BfsResult {
    let start = Instant::now();
    let cpu_start = crate::engine::process_cpu_ms();
    let mut visited: HashSet<u128> = HashSet::new();
    let mut frontier: Vec<(Vec<S::Op>, Option<S::Model>)> = vec![(vec![], None)];
    {
        let s = sys.new_impl();
        let m = sys.init_model();
        visited.insert(hash128(&sys.canon(&s, &m)));
    }
    let mut res = BfsResult {
        levels: vec![1],
        states: 1,
        transitions: 0,
        fixpoint: false,
        cap_hit: None,
        failures: Default::default(),
        samples: vec![],
        op_kinds: 0,
    };
    let mut depth = 0;
    while !frontier.is_empty() {
        if depth >= opts.max_depth {
            res.cap_hit = Some(format!("depth bound {}", opts.max_depth));
            break;
        }
        let next_idx = AtomicUsize::new(0);
        let collected: Mutex<Vec<Succ<S::Op, S::Model>>> = Mutex::new(vec![]);
        let panicked: Mutex<Option<String>> = Mutex::new(None);
        let fr = &frontier;
        let timed_out = std::sync::atomic::AtomicBool::new(false);
        std::thread::scope(|scope| {
            for _ in 0..opts.threads {
                scope.spawn(|| {
                    install_quiet_panic_hook();
                    let mut local: Vec<Succ<S::Op, S::Model>> = vec![];
                    loop {
                        let lo = next_idx.fetch_add(16, Ordering::SeqCst);
                        if lo >= fr.len() {
                            break;
                        }
                        // the cap is on the work done (processor time per search thread), so that a loaded
                        // machine explores what an idle one explores; four times the cap in wall-clock
                        // time is the backstop
                        let cpu_per_thread = Duration::from_millis(crate::engine::process_cpu_ms().saturating_sub(cpu_start) / opts.threads.max(1) as u64);
                        if cpu_per_thread > opts.wall || start.elapsed() > opts.wall * 4 {
                            timed_out.store(true, Ordering::SeqCst);
                            break;
                        }
                        for i in lo..(lo + 16).min(fr.len()) {
                            // rebuild the state by replaying its history on a fresh object
                            let rebuilt = guarded(|| {
                                if let Some(m) = &fr[i].1 {
                                    if let Some(s) = sys.restore_from_model(m) {
                                        return Ok((s, m.clone()));
                                    }
                                }
                                let mut s = sys.new_impl();
                                let mut m = sys.init_model();
                                for op in &fr[i].0 {
                                    if let Err(f) = sys.step(&mut s, &mut m, op) {
                                        return Err(f.what);
                                    }
                                }
                                Ok((s, m))
                            });
                            let (s, m) = match rebuilt {
                                Ok(Ok(x)) => x,
                                Ok(Err(e)) | Err(e) => {
                                    *panicked.lock().unwrap() =
                                        Some(format!("replay of an accepted history diverged (uncaptured nondeterminism): {}", e));
                                    return;
                                }
                            };
                            for (opi, op) in sys.enabled(&m).into_iter().enumerate() {
                                let r = guarded(|| {
                                    let mut s2 = sys.clone_impl(&s);
                                    let mut m2 = m.clone();
                                    match sys.step(&mut s2, &mut m2, &op) {
                                        Err(f) => Err(f),
                                        Ok(()) => match sys.invariant(&s2, &m2) {
                                            Err(f) => Err(f),
                                            Ok(()) => {
                                                let k = hash128(&sys.canon(&s2, &m2));
                                                let keep = if sys.restorable() { Some(m2) } else { None };
                                                Ok((k, keep))
                                            }
                                        },
                                    }
                                });
                                let (key, fail, model) = match r {
                                    Ok(Ok((k, m2))) => (k, None, m2),
                                    Ok(Err(f)) => (0, Some(f), None),
                                    Err(p) => (
                                        0,
                                        Some(Fail {
                                            sig: "panic".into(),
                                            what: format!("panic: {}", p),
                                        }),
                                        None,
                                    ),
                                };
                                local.push(Succ {
                                    parent: i,
                                    opi,
                                    op,
                                    key,
                                    fail,
                                    model,
                                });
                            }
                        }
                    }
                    collected.lock().unwrap().extend(local);
                });
            }
        });
        if let Some(p) = panicked.lock().unwrap().take() {
            res.cap_hit = Some(format!("MACHINERY: {}", p));
            break;
        }
        let mut succ = collected.into_inner().unwrap();
        succ.sort_by_key(|s| (s.parent, s.opi));
        let mut next: Vec<(Vec<S::Op>, Option<S::Model>)> = vec![];
        for s in succ {
            res.transitions += 1;
            let mut hist = frontier[s.parent].0.clone();
            hist.push(s.op.clone());
            match s.fail {
                Some(f) => {
                    let e = res
                        .failures
                        .entry(f.sig.clone())
                        .or_insert_with(|| (0, hist.iter().map(|o| sys.op_json(o)).collect(), f.what.clone()));
                    e.0 += 1;
                }
                None => {
                    if visited.insert(s.key) {
                        if res.samples.len() < 4 && hist.len() >= 3 && (visited.len() % 97 == 5 || res.samples.is_empty()) {
                            res.samples.push(json!(hist.iter().map(|o| sys.op_json(o)).collect::<Vec<_>>()));
                        }
                        next.push((hist, s.model));
                    }
                }
            }
        }
        if timed_out.load(Ordering::SeqCst) {
            res.cap_hit = Some(format!("time cap {} s (processor time per search thread) at depth {}", opts.wall.as_secs(), depth));
            res.states = visited.len();
            break;
        }
        depth += 1;
        res.states = visited.len();
        if !next.is_empty() {
            res.levels.push(next.len());
        }
        if visited.len() > opts.max_states {
            res.cap_hit = Some(format!("state cap {} at depth {}", opts.max_states, depth));
            break;
        }
        frontier = next;
    }
    if frontier.is_empty() && res.cap_hit.is_none() {
        res.fixpoint = true;
    }
    res
}

/// Copies a BFS result into the totals the evidence writer understands.
pub fn into_totals(r: &BfsResult, t: &mut Totals) {
    t.evals += r.transitions;
    t.transitions += r.transitions;
    t.traces += r.transitions;
    t.nontrivial += r.states as u64;
    t.bfs_states += r.states as u64;
    for s in &r.samples {
        if t.samples.len() < 8 {
            t.samples.push(s.clone());
        }
    }
    for (sig, (n, hist, what)) in &r.failures {
        let e = t.failures.entry(sig.clone()).or_insert((0, vec![]));
        e.0 += n;
        e.1.push(json!({"idx": hist.len(), "sig": sig, "what": what, "replay": {"history": hist}}));
    }
    if let Some(c) = &r.cap_hit {
        if c.starts_with("MACHINERY") {
            t.machinery_error = Some(c.clone());
        } else {
            t.cap_hit = Some(c.clone());
        }
    }
}

/// Runs `f(i)` for i in 0..n on `threads` threads (each thread may build its own non-Send state
/// through `init`) and returns the results in index order.
pub fn par_map<T: Send, S>(n: usize, threads: usize, init: impl Fn() -> S + Sync, f: impl Fn(&mut S, usize) -> T + Sync) -> Vec<T> {
    let next = AtomicUsize::new(0);
    let out: Mutex<Vec<(usize, T)>> = Mutex::new(Vec::with_capacity(n));
    std::thread::scope(|scope| {
        for _ in 0..threads {
            scope.spawn(|| {
                install_quiet_panic_hook();
                let mut st = init();
                let mut local = vec![];
                loop {
                    let lo = next.fetch_add(64, Ordering::SeqCst);
                    if lo >= n {
                        break;
                    }
                    for i in lo..(lo + 64).min(n) {
                        local.push((i, f(&mut st, i)));
                    }
                }
                out.lock().unwrap().extend(local);
            });
        }
    });
    let mut v = out.into_inner().unwrap();
    v.sort_by_key(|x| x.0);
    v.into_iter().map(|x| x.1).collect()
}
