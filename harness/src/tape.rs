//! E2 `tapemc` — stateless exploration of environment answers.
//! Harness-registered commands draw their answers from a choice tape keyed by (site, occurrence).
//! The explorer re-runs the program with a prefix of decided keys, takes the default (choice 0)
//! afterwards and branches on every later choice point, bounded by the number of deviations from
//! the default and by a horizon on choice points (CHESS-style iterative deviation bounding).

use std::cell::RefCell;
use std::collections::HashMap;
use std::rc::Rc;

pub type Key = (u32, u32);

#[derive(Default)]
pub struct TapeInner {
    pub decided: HashMap<Key, u16>,
    /// keys in order of first query, with the arity of the choice
    pub queried: Vec<(Key, u16)>,
    occ: HashMap<u32, u32>,
}

#[derive(Clone, Default)]
pub struct Tape(pub Rc<RefCell<TapeInner>>);

impl Tape {
    pub fn with(decided: &[(Key, u16)]) -> Tape {
        let t = Tape::default();
        t.0.borrow_mut().decided = decided.iter().cloned().collect();
        t
    }
    /// next answer for `site` (occurrences are counted per site)
    pub fn choose(&self, site: u32, arity: u16) -> u16 {
        let mut t = self.0.borrow_mut();
        let o = t.occ.entry(site).or_insert(0);
        let key = (site, *o);
        *o += 1;
        t.queried.push((key, arity));
        let c = t.decided.get(&key).cloned().unwrap_or(0);
        if c >= arity {
            0
        } else {
            c
        }
    }
    pub fn queried(&self) -> Vec<(Key, u16)> {
        self.0.borrow().queried.clone()
    }
}

pub struct Explorer {
    pub max_deviations: usize,
    pub horizon: usize,
    pub max_runs: u64,
    pub runs: u64,
    pub capped: bool,
}

impl Explorer {
    /// `run(decided)` executes the implementation once under the tape and returns the keys it
    /// queried (in order); it is also where the caller compares with the reference model.
    /// Returns false from `run` to stop the exploration (e.g. after a failure).
    pub fn explore(&mut self, run: &mut dyn FnMut(&[(Key, u16)]) -> (Vec<(Key, u16)>, bool)) {
        // breadth first in the number of deviations: all executions with 0 deviations, then 1, ...
        // so the first counterexample has the fewest deviations
        let mut stack: std::collections::VecDeque<Vec<(Key, u16)>> = std::collections::VecDeque::new();
        stack.push_back(vec![]);
        while let Some(decided) = stack.pop_front() {
            if self.runs >= self.max_runs {
                self.capped = true;
                return;
            }
            self.runs += 1;
            let (queried, go_on) = run(&decided);
            if !go_on {
                return;
            }
            let devs = decided.iter().filter(|(_, c)| *c != 0).count();
            if devs >= self.max_deviations {
                continue;
            }
            // the run is deterministic under the tape: its first decided.len() queries are the decided keys
            let lim = queried.len().min(self.horizon);
            for i in decided.len()..lim {
                let (key, arity) = queried[i];
                for alt in 1..arity {
                    let mut d: Vec<(Key, u16)> = queried[..i].iter().map(|(k, _)| (*k, 0u16)).collect();
                    // keep the earlier decisions
                    for (j, (k, c)) in decided.iter().enumerate() {
                        debug_assert_eq!(d[j].0, *k);
                        d[j].1 = *c;
                    }
                    d.push((key, alt));
                    stack.push_back(d);
                }
            }
        }
    }
}
