//! Helpers shared by the property modules.

use duckscript::types::command::{Command, CommandInvocationContext, CommandResult};
use duckscript::types::env::Env;
use duckscript::types::error::ScriptError;
use duckscript::types::instruction::{Instruction, InstructionType};
use duckscript::types::runtime::{Context, StateValue};
use serde_json::{json, Value};
use std::cell::RefCell;
use std::collections::{BTreeMap, HashMap};
use std::io::Write;
use std::rc::Rc;
use std::sync::atomic::{AtomicBool, Ordering};
use std::sync::Arc;

/// A fresh Context with the standard library loaded (cloned from a per-thread template).
pub fn sdk_context() -> Context {
    thread_local! {
        static TEMPLATE: Context = {
            let mut c = Context::new();
            duckscriptsdk::load(&mut c.commands).expect("sdk load");
            c
        };
    }
    TEMPLATE.with(|c| c.clone())
}

/// Runs a script text on a fresh standard-library context with a quiet Env; all final variables, or
/// the error / panic as text. Used by the "scale" families (few cases, large sizes).
pub fn run_sdk_script(text: &str) -> Result<BTreeMap<String, String>, String> {
    let ctx = sdk_context();
    let (env, _o, _e, halt) = quiet_env();
    // a run that does not end by itself is halted after 30 s of processor time (what this process used:
    // the script runs on its only busy thread; a machine crowded by other work must not turn a slow run
    // into one that "does not end"), or 300 s by the clock; it then fails the comparison of results
    let done = Arc::new(AtomicBool::new(false));
    let timer = {
        let (done, halt) = (done.clone(), halt.clone());
        std::thread::spawn(move || {
            let start = std::time::Instant::now();
            let cpu_start = crate::engine::process_cpu_ms();
            let cpu_limit = (30_000.0 * (1.0 + (crate::engine::load_factor() - 1.0) * 0.5)) as u64;
            while !done.load(Ordering::SeqCst) {
                if crate::engine::process_cpu_ms().saturating_sub(cpu_start) >= cpu_limit || start.elapsed().as_secs() >= 300 {
                    halt.store(true, Ordering::SeqCst);
                    return true;
                }
                std::thread::sleep(std::time::Duration::from_millis(20));
            }
            false
        })
    };
    let r = crate::engine::guarded(|| duckscript::runner::run_script(text, ctx, Some(env)));
    done.store(true, Ordering::SeqCst);
    let halted = timer.join().unwrap_or(false);
    if halted {
        return Err("the run did not end within 30 s of processor time and was halted".to_string());
    }
    match r {
        Err(p) => Err(format!("panic: {}", p)),
        Ok(Err(e)) => Err(format!("the run failed: {}", e)),
        Ok(Ok(c)) => Ok(c.variables.into_iter().collect()),
    }
}

/// `run_sdk_script` in a child process of its own: a script that kills the process (a stack that
/// overflows) or does not end gives an error here instead of taking the check down with it.
pub fn run_sdk_script_isolated(text: &str) -> Result<BTreeMap<String, String>, String> {
    use std::io::Write;
    use std::process::{Command, Stdio};
    let exe = std::env::current_exe().map_err(|e| e.to_string())?;
    let mut child = Command::new(exe)
        .arg("script-case")
        .arg("-")
        .stdin(Stdio::piped())
        .stdout(Stdio::piped())
        .stderr(Stdio::null())
        .env_remove("RUST_BACKTRACE")
        .spawn()
        .map_err(|e| format!("cannot start a child process: {}", e))?;
    {
        let mut stdin = child.stdin.take().ok_or("no stdin")?;
        // a child that dies early closes the pipe: the exit status below tells
        let _ = stdin.write_all(text.as_bytes());
    }
    let out = child.wait_with_output().map_err(|e| e.to_string())?;
    if !out.status.success() {
        return Err(format!("the run killed its process ({})", out.status));
    }
    let v: serde_json::Value = serde_json::from_slice(&out.stdout).map_err(|e| format!("unreadable answer of the child process: {}", e))?;
    if let Some(e) = v.get("err").and_then(|e| e.as_str()) {
        return Err(e.to_string());
    }
    match v.get("ok").and_then(|o| o.as_object()) {
        Some(o) => Ok(o.iter().map(|(k, v)| (k.clone(), v.as_str().unwrap_or("").to_string())).collect()),
        None => Err("unreadable answer of the child process".to_string()),
    }
}

/// `scale_case` for the properties that run inside the supervisor process (no worker): the verdict
/// goes straight into the totals.
pub fn scale_case_totals(t: &mut crate::engine::Totals, name: &str, text: &str, expect: &[(&str, Option<String>)]) {
    let cj = serde_json::json!({"kind": "scale", "name": name, "script": text});
    t.evals += 1;
    t.transitions += 1;
    t.traces += 1;
    t.nontrivial += 1;
    let family = name.split(' ').next().unwrap_or("").to_string();
    let verdict: Result<(), (String, String)> = match run_sdk_script_isolated(text) {
        Err(e) => Err((format!("scale:{}:run-failed", family), format!("{}: {}", name, e))),
        Ok(vars) => {
            let mut bad = None;
            for (k, v) in expect {
                if vars.get(*k) != v.as_ref() {
                    bad = Some((format!("scale:{}:wrong-result", family), format!("{}: variable {} is {:?}, expected {:?}", name, k, vars.get(*k), v)));
                    break;
                }
            }
            match bad {
                Some(b) => Err(b),
                None => Ok(()),
            }
        }
    };
    if let Err((sig, what)) = verdict {
        let e = t.failures.entry(sig.clone()).or_insert((0, vec![]));
        e.0 += 1;
        e.1.push(serde_json::json!({"idx": 0, "sig": sig, "what": what, "replay": cj}));
    }
    *t.counters.entry("scale_cases".to_string()).or_insert(0) += 1;
}

/// One scale case: the script must end with exactly the expected values for the named variables
/// (an expected value of None means "must be undefined").
pub fn scale_case(w: &mut crate::engine::Worker, name: &str, text: &str, expect: &[(&str, Option<String>)]) {
    if !w.take() {
        return;
    }
    // a script of these families may kill the process (a nested interpreter that does not come back):
    // the case is announced first, so that the supervisor pins the death to it and reports it
    let was_risky = w.risky;
    w.risky = true;
    scale_case_inner(w, name, text, expect);
    w.risky = was_risky;
}

fn scale_case_inner(w: &mut crate::engine::Worker, name: &str, text: &str, expect: &[(&str, Option<String>)]) {
    let cj = serde_json::json!({"kind": "scale", "name": name, "script": text});
    w.begin(|| cj.clone());
    w.add_transitions(1);
    match run_sdk_script(text) {
        Err(e) => w.fail(&format!("scale:{}:run-failed", name.split(' ').next().unwrap_or("")), &format!("{}: {}", name, e), cj),
        Ok(vars) => {
            for (k, v) in expect {
                if vars.get(*k) != v.as_ref() {
                    w.fail(
                        &format!("scale:{}:wrong-result", name.split(' ').next().unwrap_or("")),
                        &format!("{}: variable {} is {:?}, expected {:?}", name, k, vars.get(*k), v),
                        cj,
                    );
                    return;
                }
            }
            w.pass(true, crate::engine::hash64(&("scale", name.split(' ').next().unwrap_or(""))));
        }
    }
}

/// Characters that do not show: byte order mark, zero-width characters, soft hyphen, directional marks,
/// variation selector, a combining mark, a tag character, the C0 and C1 controls, DEL, the replacement
/// character and the last code points of the planes.
pub fn invisible_chars() -> Vec<char> {
    let mut v: Vec<char> = vec![
        '\u{feff}', '\u{200b}', '\u{200c}', '\u{200d}', '\u{200e}', '\u{200f}', '\u{2060}', '\u{ad}', '\u{61c}', '\u{180e}', '\u{7f}', '\u{fe0f}', '\u{301}', '\u{e0041}', '\u{fffd}', '\u{fffe}', '\u{ffff}', '\u{10ffff}', '\u{2028}', '\u{2029}', '\u{202e}',
    ];
    v.extend((0u32..0x20).filter_map(char::from_u32));
    v.extend((0x80u32..0xa0).filter_map(char::from_u32));
    v
}

/// replay of a scale case: the final variables (handle names masked)
pub fn scale_replay(case: &serde_json::Value) -> Option<Result<String, String>> {
    if case["kind"].as_str() != Some("scale") {
        return None;
    }
    let text = case["script"].as_str().unwrap_or("");
    Some(Ok(match run_sdk_script(text) {
        Ok(v) => mask_handles(&format!("variables: {:?}", v)),
        Err(e) => e,
    }))
}

#[derive(Clone, Default)]
pub struct Buf(pub Rc<RefCell<Vec<u8>>>);

impl Write for Buf {
    fn write(&mut self, b: &[u8]) -> std::io::Result<usize> {
        let mut v = self.0.borrow_mut();
        if v.len() < 1 << 20 {
            v.extend_from_slice(b);
        }
        Ok(b.len())
    }
    fn flush(&mut self) -> std::io::Result<()> {
        Ok(())
    }
}

impl Buf {
    pub fn text(&self) -> String {
        String::from_utf8_lossy(&self.0.borrow()).into_owned()
    }
}

pub fn quiet_env() -> (Env, Buf, Buf, Arc<AtomicBool>) {
    let out = Buf::default();
    let err = Buf::default();
    let halt = Arc::new(AtomicBool::new(false));
    let env = Env::new(
        Some(Box::new(out.clone())),
        Some(Box::new(err.clone())),
        Some(halt.clone()),
    );
    (env, out, err, halt)
}

pub fn err_kind(e: &ScriptError) -> &'static str {
    match e {
        ScriptError::ErrorReadingFile(_, _) => "ErrorReadingFile",
        ScriptError::Initialization(_) => "Initialization",
        ScriptError::Runtime(_, _) => "Runtime",
        ScriptError::PreProcessNoCommandFound(_) => "PreProcessNoCommandFound",
        ScriptError::ControlWithoutValidValue(_) => "ControlWithoutValidValue",
        ScriptError::InvalidControlLocation(_) => "InvalidControlLocation",
        ScriptError::MissingEndQuotes(_) => "MissingEndQuotes",
        ScriptError::MissingOutputVariableName(_) => "MissingOutputVariableName",
        ScriptError::InvalidEqualsLocation(_) => "InvalidEqualsLocation",
        ScriptError::InvalidQuotesLocation(_) => "InvalidQuotesLocation",
        ScriptError::EmptyLabel(_) => "EmptyLabel",
        ScriptError::UnknownPreProcessorCommand(_) => "UnknownPreProcessorCommand",
    }
}

pub fn err_line(e: &ScriptError) -> Option<usize> {
    match e {
        ScriptError::ErrorReadingFile(_, _) | ScriptError::Initialization(_) => None,
        ScriptError::Runtime(_, m) => m.as_ref().and_then(|m| m.line),
        ScriptError::PreProcessNoCommandFound(m)
        | ScriptError::ControlWithoutValidValue(m)
        | ScriptError::InvalidControlLocation(m)
        | ScriptError::MissingEndQuotes(m)
        | ScriptError::MissingOutputVariableName(m)
        | ScriptError::InvalidEqualsLocation(m)
        | ScriptError::InvalidQuotesLocation(m)
        | ScriptError::EmptyLabel(m)
        | ScriptError::UnknownPreProcessorCommand(m) => m.line,
    }
}

pub fn err_source(e: &ScriptError) -> Option<String> {
    match e {
        ScriptError::ErrorReadingFile(f, _) => Some(f.clone()),
        ScriptError::Initialization(_) => None,
        ScriptError::Runtime(_, m) => m.as_ref().and_then(|m| m.source.clone()),
        ScriptError::PreProcessNoCommandFound(m)
        | ScriptError::ControlWithoutValidValue(m)
        | ScriptError::InvalidControlLocation(m)
        | ScriptError::MissingEndQuotes(m)
        | ScriptError::MissingOutputVariableName(m)
        | ScriptError::InvalidEqualsLocation(m)
        | ScriptError::InvalidQuotesLocation(m)
        | ScriptError::EmptyLabel(m)
        | ScriptError::UnknownPreProcessorCommand(m) => m.source.clone(),
    }
}

/// Plain description of a parsed instruction (type, label, output, command, arguments).
#[derive(Clone, Debug, PartialEq, Eq, Hash, PartialOrd, Ord)]
pub enum PI {
    Empty,
    Pre(Option<String>, Option<Vec<String>>),
    Script {
        label: Option<String>,
        output: Option<String>,
        command: Option<String>,
        args: Option<Vec<String>>,
    },
}

pub fn plain(i: &Instruction) -> PI {
    match &i.instruction_type {
        InstructionType::Empty => PI::Empty,
        InstructionType::PreProcess(p) => PI::Pre(p.command.clone(), p.arguments.clone()),
        InstructionType::Script(s) => PI::Script {
            label: s.label.clone(),
            output: s.output.clone(),
            command: s.command.clone(),
            args: s.arguments.clone(),
        },
    }
}

pub fn pi_json(p: &PI) -> Value {
    match p {
        PI::Empty => json!("Empty"),
        PI::Pre(c, a) => json!({"pre": c, "args": a}),
        PI::Script {
            label,
            output,
            command,
            args,
        } => json!({"label": label, "output": output, "command": command, "args": args}),
    }
}

/// Odometer over strings: all sequences over `alphabet` with length in lo..=hi, shortest first.
pub struct Strings<'a, T: Clone> {
    alphabet: &'a [T],
    hi: usize,
    cur: Vec<usize>,
    started: bool,
    done: bool,
}

impl<'a, T: Clone> Strings<'a, T> {
    pub fn new(alphabet: &'a [T], lo: usize, hi: usize) -> Self {
        Strings {
            alphabet,
            hi,
            cur: vec![0; lo],
            started: false,
            done: lo > hi || (alphabet.is_empty() && lo > 0),
        }
    }
}

impl<'a, T: Clone> Iterator for Strings<'a, T> {
    type Item = Vec<T>;
    fn next(&mut self) -> Option<Vec<T>> {
        if self.done {
            return None;
        }
        if self.started {
            // increment
            let mut i = self.cur.len();
            loop {
                if i == 0 {
                    // grow
                    let n = self.cur.len() + 1;
                    if n > self.hi || self.alphabet.is_empty() {
                        self.done = true;
                        return None;
                    }
                    self.cur = vec![0; n];
                    break;
                }
                i -= 1;
                self.cur[i] += 1;
                if self.cur[i] < self.alphabet.len() {
                    break;
                }
                self.cur[i] = 0;
            }
        }
        self.started = true;
        Some(self.cur.iter().map(|&i| self.alphabet[i].clone()).collect())
    }
}

pub fn count_strings(k: u64, lo: u32, hi: u32) -> u64 {
    (lo..=hi).map(|l| k.pow(l)).sum()
}

// ---------------------------------------------------------------------------------------------
// State abstraction (for explicit-state search): a printable, ordered image of StateValue with
// handles renamed in order of first appearance.
// ---------------------------------------------------------------------------------------------

#[derive(Clone, Debug, PartialEq, Eq, Hash, PartialOrd, Ord)]
pub enum SV {
    B(bool),
    N(i128),
    S(String),
    Bytes(Vec<u8>),
    L(Vec<SV>),
    Set(Vec<String>),
    M(BTreeMap<String, SV>),
    /// StateValue::Any holding a variable map (scope stack frames); other Any values are opaque
    Vars(BTreeMap<String, String>),
    Opaque,
}

pub fn abstract_state_value(v: &StateValue) -> SV {
    match v {
        StateValue::Boolean(b) => SV::B(*b),
        StateValue::Number(n) => SV::N(*n as i128),
        StateValue::UnsignedNumber(n) => SV::N(*n as i128),
        StateValue::Number32Bit(n) => SV::N(*n as i128),
        StateValue::UnsignedNumber32Bit(n) => SV::N(*n as i128),
        StateValue::Number64Bit(n) => SV::N(*n as i128),
        StateValue::UnsignedNumber64Bit(n) => SV::N(*n as i128),
        StateValue::String(s) => SV::S(s.clone()),
        StateValue::ByteArray(b) => SV::Bytes(b.clone()),
        StateValue::List(l) => SV::L(l.iter().map(abstract_state_value).collect()),
        StateValue::Set(s) => {
            let mut v: Vec<String> = s.iter().cloned().collect();
            v.sort();
            SV::Set(v)
        }
        StateValue::SubState(m) => SV::M(
            m.iter()
                .map(|(k, v)| (k.clone(), abstract_state_value(v)))
                .collect(),
        ),
        StateValue::Any(rc) => {
            let b = rc.borrow();
            match b.downcast_ref::<HashMap<String, String>>() {
                Some(m) => SV::Vars(m.iter().map(|(k, v)| (k.clone(), v.clone())).collect()),
                None => SV::Opaque,
            }
        }
    }
}

pub fn abstract_state(state: &HashMap<String, StateValue>) -> BTreeMap<String, SV> {
    state
        .iter()
        .map(|(k, v)| (k.clone(), abstract_state_value(v)))
        .collect()
}

pub fn sorted_vars(v: &HashMap<String, String>) -> BTreeMap<String, String> {
    v.iter().map(|(k, v)| (k.clone(), v.clone())).collect()
}

pub fn is_handle_text(s: &str) -> bool {
    s.starts_with("handle:") && s.len() == 27 && s[7..].chars().all(|c| c.is_ascii_alphanumeric())
}

/// A command whose behaviour is a closure; used for capture / emit / scripted commands.
#[derive(Clone)]
pub struct FnCommand {
    pub name: String,
    pub aliases: Vec<String>,
    pub f: Rc<dyn Fn(CommandInvocationContext) -> CommandResult>,
}

impl Command for FnCommand {
    fn name(&self) -> String {
        self.name.clone()
    }
    fn aliases(&self) -> Vec<String> {
        self.aliases.clone()
    }
    fn clone_and_box(&self) -> Box<dyn Command> {
        Box::new(self.clone())
    }
    fn run(&self, context: CommandInvocationContext) -> CommandResult {
        (self.f)(context)
    }
}

pub fn fn_command(
    name: &str,
    f: impl Fn(CommandInvocationContext) -> CommandResult + 'static,
) -> Box<dyn Command> {
    Box::new(FnCommand {
        name: name.to_string(),
        aliases: vec![],
        f: Rc::new(f),
    })
}

pub fn result_json(r: &CommandResult) -> Value {
    match r {
        CommandResult::Continue(v) => json!({"continue": v}),
        CommandResult::GoTo(v, g) => json!({"goto": format!("{:?}", g), "value": v}),
        CommandResult::Error(e) => json!({"error": e}),
        CommandResult::Crash(e) => json!({"crash": e}),
        CommandResult::Exit(v) => json!({"exit": v}),
    }
}

// ---------------------------------------------------------------------------------------------
// A persistent session: real commands, variables and state kept between calls.
// ---------------------------------------------------------------------------------------------

#[derive(Clone, Debug, PartialEq, Eq, Hash)]
pub enum Out {
    /// Continue with this output (None = no output / undefined)
    Val(Option<String>),
    Err(String),
    Crash(String),
    Panic(String),
    Other(String),
}

impl Out {
    pub fn kind(&self) -> &'static str {
        match self {
            Out::Val(None) => "none",
            Out::Val(Some(_)) => "value",
            Out::Err(_) => "error",
            Out::Crash(_) => "crash",
            Out::Panic(_) => "panic",
            Out::Other(_) => "other",
        }
    }
    pub fn is_err(&self) -> bool {
        matches!(self, Out::Err(_))
    }
}

pub struct Session {
    pub commands: duckscript::types::command::Commands,
    pub variables: HashMap<String, String>,
    pub state: HashMap<String, StateValue>,
    pub out: Buf,
}

impl Session {
    pub fn new() -> Session {
        let c = sdk_context();
        Session {
            commands: c.commands,
            variables: HashMap::new(),
            state: HashMap::new(),
            out: Buf::default(),
        }
    }

    /// Runs one command with the given argument values. The runner binds variables in every written
    /// argument, so a value that contains `$`, `%` or a backslash is handed over through a temporary
    /// variable (`dsmc::arg::<n>`, written as `${dsmc::arg::<n>}`: substituted values are inserted
    /// verbatim) which is removed again after the call; other values are written as they are.
    pub fn call(&mut self, cmd: &str, args: &[&str]) -> Out {
        self.call_out(cmd, args, None)
    }

    pub fn call_out(&mut self, cmd: &str, args: &[&str], output: Option<&str>) -> Out {
        use duckscript::types::instruction::{InstructionMetaInfo, ScriptInstruction};
        let mut si = ScriptInstruction::new();
        si.command = Some(cmd.into());
        let mut temps: Vec<String> = vec![];
        let written: Vec<String> = args
            .iter()
            .enumerate()
            .map(|(n, a)| {
                if a.contains('$') || a.contains('%') || a.contains('\\') {
                    let name = format!("dsmc::arg::{}", n);
                    self.variables.insert(name.clone(), a.to_string());
                    temps.push(name.clone());
                    format!("${{{}}}", name)
                } else {
                    a.to_string()
                }
            })
            .collect();
        si.arguments = if args.is_empty() { None } else { Some(written) };
        si.output = output.map(|s| s.to_string());
        let ins = Instruction {
            meta_info: InstructionMetaInfo::new(),
            instruction_type: InstructionType::Script(si),
        };
        let mut env = Env::new(Some(Box::new(self.out.clone())), Some(Box::new(Buf::default())), None);
        let (commands, variables, state) = (&mut self.commands, &mut self.variables, &mut self.state);
        let r = crate::engine::guarded(|| {
            duckscript::runner::run_instruction(commands, variables, state, &vec![], ins, 0, &mut env)
        });
        for t in temps {
            self.variables.remove(&t);
        }
        match r {
            Err(p) => Out::Panic(p),
            Ok((CommandResult::Continue(v), _)) => Out::Val(v),
            Ok((CommandResult::Error(e), _)) => Out::Err(e),
            Ok((CommandResult::Crash(e), _)) => Out::Crash(e),
            Ok((o, _)) => Out::Other(result_json(&o).to_string()),
        }
    }

    pub fn handles(&self) -> BTreeMap<String, SV> {
        match self.state.get("handles") {
            Some(StateValue::SubState(m)) => m.iter().map(|(k, v)| (k.clone(), abstract_state_value(v))).collect(),
            _ => BTreeMap::new(),
        }
    }

    pub fn handle(&self, key: &str) -> Option<SV> {
        match self.state.get("handles") {
            Some(StateValue::SubState(m)) => m.get(key).map(abstract_state_value),
            _ => None,
        }
    }
}

/// Replaces every random handle name by `handle:#` (for comparing two executions).
pub fn mask_handles(s: &str) -> String {
    let mut out = String::with_capacity(s.len());
    let mut rest = s;
    while let Some(p) = rest.find("handle:") {
        out.push_str(&rest[..p]);
        let tail = &rest[p + 7..];
        let n = tail.chars().take_while(|c| c.is_ascii_alphanumeric()).count();
        if n == 20 {
            out.push_str("handle:#");
            rest = &tail[20..];
        } else {
            out.push_str("handle:");
            rest = tail;
        }
    }
    out.push_str(rest);
    out
}

/// every character with the Unicode White_Space property
pub const UNICODE_WHITE_SPACE: [char; 25] = [
    '\u{9}', '\u{a}', '\u{b}', '\u{c}', '\u{d}', ' ', '\u{85}', '\u{a0}', '\u{1680}', '\u{2000}', '\u{2001}', '\u{2002}', '\u{2003}', '\u{2004}', '\u{2005}', '\u{2006}', '\u{2007}', '\u{2008}', '\u{2009}',
    '\u{200a}', '\u{2028}', '\u{2029}', '\u{202f}', '\u{205f}', '\u{3000}',
];

/// A one-character alphabet defined by rule rather than by list: every printable ASCII character,
/// the upper half of Latin-1, every Unicode white-space character except LF and CR, for every
/// character that means something to the scanner the characters of eight other planes that share
/// its low byte, and the characters that do not show (`invisible_chars`).
pub fn wide_chars() -> Vec<char> {
    let mut chars: Vec<char> = (0x21u32..0x7f).filter_map(char::from_u32).collect();
    chars.extend((0xa0u32..0x100).filter_map(char::from_u32));
    chars.extend(UNICODE_WHITE_SPACE.iter().copied().filter(|c| !matches!(c, ' ' | '\n' | '\r')));
    for syntax in [' ', '\t', '\n', '\r', '"', '#', '\\', '=', ':', '!', '$', '%', '{', '}', '\''] {
        for plane in [0x100u32, 0x400, 0x2000, 0x2100, 0x3000, 0xff00, 0x1f600, 0xe0000] {
            if let Some(c) = char::from_u32(plane + syntax as u32) {
                chars.push(c);
            }
        }
    }
    // ... and the characters that do not show (byte order mark, zero-width characters, directional marks,
    // C0 / C1 controls other than LF and CR)
    chars.extend(invisible_chars().into_iter().filter(|c| !matches!(c, '\n' | '\r')));
    chars.sort();
    chars.dedup();
    chars
}

/// Sizes defined by a rule: p - 1, p, p + 1 for every power of two from 16 and every power of ten from
/// 100, up to `cap` - where buffers, counters and "generous" limits have their edges.
pub fn threshold_sizes(cap: u64) -> Vec<u64> {
    let mut v = vec![];
    let mut p = 16u64;
    while p <= cap {
        v.extend([p - 1, p, p + 1]);
        p *= 2;
    }
    let mut p = 100u64;
    while p <= cap {
        v.extend([p - 1, p, p + 1]);
        p *= 10;
    }
    v.retain(|x| *x <= cap + 1);
    v.sort();
    v.dedup();
    v
}

/// `base` plus the threshold sizes up to `cap`, sorted, without duplicates.
pub fn with_thresholds<T: TryFrom<u64> + Into<u64> + Copy + Ord>(base: Vec<T>, cap: u64) -> Vec<T> {
    let mut v: Vec<u64> = base.iter().map(|x| (*x).into()).collect();
    v.extend(threshold_sizes(cap));
    v.sort();
    v.dedup();
    v.into_iter().filter_map(|x| T::try_from(x).ok()).collect()
}

/// the same for usize sizes
pub fn with_thresholds_usize(base: Vec<usize>, cap: u64) -> Vec<usize> {
    let mut v: Vec<u64> = base.iter().map(|x| *x as u64).collect();
    v.extend(threshold_sizes(cap));
    v.sort();
    v.dedup();
    v.into_iter().map(|x| x as usize).collect()
}
