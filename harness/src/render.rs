//! The documented line syntax, written down once: `[:label] [output =] [command [arguments]]`,
//! arguments separated by spaces, optionally wrapped in double quotes, with the escapes
//! `\\ \" \n \r \t`, an optional trailing `# comment`. Used by C01 as the thing under test and by
//! other properties to produce script lines from values.

#[derive(Clone, Debug, PartialEq, Eq, Hash)]
pub struct Instr {
    /// with its leading ':'
    pub label: Option<String>,
    pub output: Option<String>,
    pub command: Option<String>,
    pub args: Vec<String>,
}

#[derive(Clone, Copy, Debug, PartialEq, Eq, Hash)]
pub struct Style {
    /// quote arguments even where the syntax does not require it
    pub quote_optional: bool,
    /// number of separator spaces
    pub sep: usize,
    pub lead: &'static str,
    pub trail: &'static str,
    /// 0: `x = c`  1: `x=c`  2: `x =c`  3: `x= c`
    pub eq: u8,
    /// write a TAB inside an argument as the character itself instead of the `\t` escape (only space
    /// separates arguments); an argument that starts or ends with a TAB is then quoted
    pub raw_tab: bool,
}

pub const PLAIN: Style = Style {
    quote_optional: false,
    sep: 1,
    lead: "",
    trail: "",
    eq: 0,
    raw_tab: false,
};

pub fn escape(arg: &str) -> String {
    let mut s = String::with_capacity(arg.len() + 2);
    for c in arg.chars() {
        match c {
            '\\' => s.push_str("\\\\"),
            '"' => s.push_str("\\\""),
            '\n' => s.push_str("\\n"),
            '\r' => s.push_str("\\r"),
            '\t' => s.push_str("\\t"),
            c => s.push(c),
        }
    }
    s
}

/// Quotes are required iff the argument is empty, contains a space or '#', or it is the first
/// argument of a line without output variable and starts with '=' (where `cmd = x` is the
/// documented assignment form), or (conservatively) it ends in a white-space character that is
/// not one of the escaped ones.
pub fn needs_quotes(arg: &str, first: bool, has_output: bool) -> bool {
    arg.is_empty()
        || arg.contains(' ')
        || arg.contains('#')
        || (first && !has_output && arg.starts_with('='))
        || arg
            .chars()
            .last()
            .map(|c| c.is_whitespace() && !matches!(c, '\n' | '\r' | '\t'))
            .unwrap_or(false)
}

pub fn render_arg(arg: &str, quote: bool) -> String {
    if quote {
        format!("\"{}\"", escape(arg))
    } else {
        escape(arg)
    }
}

fn render_arg_style(arg: &str, quote: bool, raw_tab: bool) -> String {
    let mut e = escape(arg);
    let mut quote = quote;
    if raw_tab && arg.contains('\t') {
        e = escape_with_raw_tab(arg);
        if arg.starts_with('\t') || arg.ends_with('\t') {
            quote = true;
        }
    }
    if quote {
        format!("\"{}\"", e)
    } else {
        e
    }
}

/// the escaped form of `arg` with TAB written raw
fn escape_with_raw_tab(arg: &str) -> String {
    let mut s = String::new();
    for c in arg.chars() {
        match c {
            '\\' => s.push_str("\\\\"),
            '"' => s.push_str("\\\""),
            '\n' => s.push_str("\\n"),
            '\r' => s.push_str("\\r"),
            '\t' => s.push('\t'),
            c => s.push(c),
        }
    }
    s
}

pub fn render(i: &Instr, st: &Style) -> String {
    let sep = " ".repeat(st.sep);
    let mut parts: Vec<String> = vec![];
    if let Some(l) = &i.label {
        parts.push(l.clone());
    }
    let mut head = String::new();
    match (&i.output, &i.command) {
        (Some(o), c) => {
            head.push_str(o);
            head.push_str(match st.eq {
                0 => " = ",
                1 => "=",
                2 => " =",
                _ => "= ",
            });
            if let Some(c) = c {
                head.push_str(c);
            }
        }
        (None, Some(c)) => head.push_str(c),
        (None, None) => (),
    }
    let head = head.trim_end().to_string();
    if !head.is_empty() {
        parts.push(head);
    }
    if i.command.is_some() {
        for (n, a) in i.args.iter().enumerate() {
            let q = st.quote_optional || needs_quotes(a, n == 0, i.output.is_some());
            parts.push(render_arg_style(a, q, st.raw_tab));
        }
    }
    format!("{}{}{}", st.lead, parts.join(&sep), st.trail)
}

/// One-line rendering with the plain style; for use by other properties.
pub fn line(output: Option<&str>, command: &str, args: &[&str]) -> String {
    render(
        &Instr {
            label: None,
            output: output.map(|s| s.to_string()),
            command: Some(command.to_string()),
            args: args.iter().map(|s| s.to_string()).collect(),
        },
        &PLAIN,
    )
}
